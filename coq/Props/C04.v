(* C04: a failing step never yields a successful run. *)
From Coq Require Import List ZArith Bool.
From DF Require Import Base.Str Base.Value Frame.Events Frame.Events_proofs.
Import ListNotations.
Local Open Scope nat_scope.

(* wherever the first failure sits in the stream the driver sees -- at any row of any resource, at
   exhaustion, in any step -- the run raises, with that failure as the cause, for every exception class *)
Theorem C04_failure_raises : forall a k x b, no_fail a -> drive (a ++ EFail k x :: b) = (a, Raised k x).
Proof. exact failure_raises. Qed.
Print Assumptions C04_failure_raises.

(* row-wise steps downstream of the failing step pass the failure on unchanged *)
Theorem C04_failure_propagates : forall g a k x b,
  quiet g -> no_fail a -> drive (lmap g (a ++ EFail k x :: b)) = (lmap g a, Raised k x).
Proof. exact failure_propagates. Qed.
Print Assumptions C04_failure_propagates.

(* no dump descriptor or checkpoint positioned after the failure is committed *)
Theorem C04_no_commit_after_failure : forall kc a k x b,
  no_fail a -> ~ In (EEff kc 4) a ->
  fst (drive (committing kc (a ++ EFail k x :: b))) = lmap (g_observe kc) a /\
  snd (drive (committing kc (a ++ EFail k x :: b))) = Raised k x /\
  ~ In (EEff kc 4) (fst (drive (committing kc (a ++ EFail k x :: b)))).
Proof. exact no_commit_after_failure. Qed.
Print Assumptions C04_no_commit_after_failure.

(* non-vacuity of the previous statement: without a failure the commit does happen, last *)
Theorem C04_commit_at_end_without_failure : forall kc s,
  no_fail s -> drive (committing kc s) = (lmap (g_observe kc) s ++ [EEff kc 4], Returned).
Proof. exact commit_at_end. Qed.
Print Assumptions C04_commit_at_end_without_failure.
