"""C09 Dump statistics describe the bytes on disk."""
import copy, shutil, json, hashlib, zipfile, csv, io
from common import *
from flowutil import *
import dataflows as DF

import csv as _csv
_csv.field_size_limit(10 ** 9)      # (the harness counts the data rows of files holding very long cells)

PROP = 'C09'
PROPS_V = 'Props/C09.v'
COQ_IMPORTS = ['Base.Str', 'Base.Value', 'IO.Dump']
RULE = ('cases = tables (multi-byte text, empty resources, 1-3 resources) x format csv/json x dump_to_path/dump_to_zip x '
        'counters default / renamed / nested with dots (same and different parents) / disabled x add_filehash_to_path x '
        'pretty_descriptor; each configuration is dumped twice; non-trivial = always (every case checks sizes, digests '
        'and row counts against the bytes on disk); distinct = distinct case digest'
        '; round 4: counters also switched off one kind at a time; byte-identical resources under add_filehash_to_path, dumped afresh and again into the same directory'
        '; round 7: two dumpers in one flow each with its own counters, a later step that stops reading early, every counters configuration in both text formats'
        '; round 8: resource names with dots that are equal up to the first dot'
        '; round 9: cells of a million characters (files of several MiB)')
TRUSTED = ['Coq 8.16.1 kernel + vm_compute', 'harness/p09.py oracle (recomputes size, md5 and row count from the written bytes)',
           'md5 is a parameter H of the theorems']
ASSUMES = ['resource paths distinct and different from datapackage.json']

TEXTS = ['x', 'é☃', 'a,b', 'line\nbreak', '', '𝄞𝄞', 'z' * 40]

COUNTERS = [
    None,
    {'resource-bytes': 'size', 'resource-hash': 'md5', 'resource-rowcount': 'rows', 'datapackage-bytes': 'total_size',
     'datapackage-rowcount': 'total_rows', 'datapackage-hash': 'digest'},
    {'resource-bytes': 'stats.bytes', 'resource-hash': 'stats.hash', 'resource-rowcount': 'stats.rows',
     'datapackage-bytes': 'stats.bytes', 'datapackage-rowcount': 'stats.rows', 'datapackage-hash': 'stats.hash'},
    {'resource-bytes': 'size.bytes', 'resource-hash': 'checksum.md5', 'resource-rowcount': 'n.rows.count',
     'datapackage-bytes': 'a.b', 'datapackage-rowcount': 'c.d', 'datapackage-hash': 'integrity.md5'},
    {'resource-hash': None, 'datapackage-hash': None},
    {'resource-bytes': None, 'resource-rowcount': None, 'datapackage-bytes': None, 'datapackage-rowcount': None},
    # a per-resource counter switched off while the package total stays on, and the byte counters off while the hash stays on
    {'resource-rowcount': None},
    {'resource-bytes': None},
    {'resource-bytes': None, 'datapackage-bytes': None},
]


def gen_cases(rng, tier):
    n = {'quick': 40, 'thorough': 400, 'search': 200}[tier]
    cases = []
    for i in range(n):
        nres = rng.randint(1, 3)
        pkg = []
        for r in range(nres):
            nrows = rng.pick([0, 1, 2, 5])
            pkg.append([{'id': j, 't': rng.pick(TEXTS), 'n': rng.pick([None, 1.5, 2])} for j in range(nrows)])
        if not any(pkg):
            pkg[0] = [{'id': 0, 't': 'x', 'n': None}]
        fmt = rng.pick(['csv', 'csv', 'json', 'json', 'excel'])
        z = rng.chance(0.3)
        # how the second dump relates to the first: the same data again into a fresh target; the package loaded from the
        # first dump, dumped again; other data into the same directory
        # (loading a JSON dump back is the separate known finding C03.json_field_order: reload only for csv)
        mode = 'fresh' if (z or fmt == 'excel') else rng.pick(['fresh', 'fresh', 'reload', 'samedir'] if fmt == 'csv' else ['fresh', 'samedir'])
        # rows the dumper's own validator drops (validator_options with a dropping handler) are neither written nor counted
        bad = rng.pick([0, 0, 0, 1, 2]) if fmt != 'excel' else 0
        cases.append({'kind': 'dump', 'pkg': rows_enc_pkg(pkg), 'format': fmt, 'zip': z, 'mode': mode if not bad else 'fresh', 'bad': bad,
                      'counters': rng.randrange(len(COUNTERS)), 'hashpath': rng.chance(0.3), 'pretty': rng.chance(0.5)})
    # systematically: every counters configuration in both text formats, path and zip
    rows_ = [{'id': j, 't': 'é☃', 'n': 1.5} for j in range(3)]
    for ci in range(len(COUNTERS)):
        for fmt in ('csv', 'json'):
            cases.append({'kind': 'dump', 'pkg': rows_enc_pkg([rows_, rows_[:1]]), 'format': fmt, 'zip': (ci + len(fmt)) % 2 == 0, 'mode': 'fresh',
                          'bad': 0, 'counters': ci, 'hashpath': False, 'pretty': False})
    rows5 = [{'id': j, 't': 'x%d' % j, 'n': 1.5} for j in range(5)]
    for fmt in ('csv', 'json'):
        for ci in (0, 1):
            cases.append({'kind': 'dump', 'pkg': rows_enc_pkg([rows5, rows5[:3]]), 'format': fmt, 'zip': False, 'mode': 'fresh', 'bad': 0,
                          'counters': ci, 'hashpath': False, 'pretty': False, 'two_dumps': True})
            cases.append({'kind': 'dump', 'pkg': rows_enc_pkg([rows5, rows5[:3]]), 'format': fmt, 'zip': ci == 1, 'mode': 'fresh', 'bad': 0,
                          'counters': ci, 'hashpath': False, 'pretty': False, 'stopper': True})
    # resource names (and so file names) with dots in them, equal up to the first dot: each resource has a file of its own,
    # and what is recorded for a resource describes the file at its path (round 8)
    for fmt in ('csv', 'json'):
        for z in (False, True):
            cases.append({'kind': 'dump', 'pkg': rows_enc_pkg([rows5, rows5[:3], rows5[:1]]), 'format': fmt, 'zip': z, 'mode': 'fresh', 'bad': 0,
                          'counters': 0, 'hashpath': False, 'pretty': False, 'names': ['sales.2019', 'sales.2020', 'sales.2020.q1']})
    for fmt in ('csv', 'json'):
        cases.append({'kind': 'dump', 'pkg': rows_enc_pkg([[{'id': 0, 't': 'x', 'n': 1.5}, {'id': 1, 't': 'é', 'n': None}], [{'id': 2, 't': 'y', 'n': 2}]]),
                      'format': fmt, 'zip': fmt == 'json', 'mode': 'fresh', 'bad': 0, 'counters': 0, 'hashpath': False, 'pretty': False, 'bigcell': 1000000})
    # systematically: add_filehash_to_path with resources whose files are byte-identical (they share the hash directory),
    # dumped afresh and again into the same directory
    rows = [{'id': j, 't': 'x', 'n': None} for j in range(2)]
    for fmt in ('csv', 'json'):
        for mode in ('fresh', 'samedir'):
            for ci in (0, 1):
                cases.append({'kind': 'dump', 'pkg': rows_enc_pkg([rows, rows, rows[:1]]), 'format': fmt, 'zip': False, 'mode': mode, 'bad': 0,
                              'counters': ci, 'hashpath': True, 'pretty': False})
    return cases


def rows_enc_pkg(pkg):
    return [rows_enc(r) for r in pkg]


def getp(obj, path, default=None):
    if path is None:
        return None
    for k in path.split('.'):
        if not isinstance(obj, dict) or k not in obj:
            return default
        obj = obj[k]
    return obj


def names(case):
    c = COUNTERS[case['counters']] or {}
    d = {'resource-bytes': 'bytes', 'resource-hash': 'hash', 'resource-rowcount': 'count_of_rows',
         'datapackage-bytes': 'bytes', 'datapackage-rowcount': 'count_of_rows', 'datapackage-hash': 'hash'}
    d.update(c)
    return d


def dump_once(case, target, source=None, extra=0):
    res = []
    for i, rows in enumerate(case['pkg']):
        rr = rows_dec(rows) + [{'id': 1000 + j, 't': 'more', 'n': None} for j in range(extra)]
        if case.get('bigcell'):
            # cells of a million characters (ASCII and multi-byte): files of several MiB
            rr = [dict(r, t=(r['t'] or 'x') * case['bigcell']) for r in rr]
        for j in range(case.get('bad', 0)):
            rr.insert(min(len(rr), 1 + j), {'id': 'not-a-number-%d' % j, 't': 'bad', 'n': None})
        res.append({'name': case['names'][i] if case.get('names') else 'r%d' % i, 'fields': [{'name': 'id', 'type': 'integer'}, {'name': 't', 'type': 'string'},
                                                    {'name': 'n', 'type': 'number'}], 'rows': rr})
    kw = {'format': case['format'], 'add_filehash_to_path': case['hashpath'], 'pretty_descriptor': case['pretty']}
    if COUNTERS[case['counters']] is not None:
        kw['counters'] = dict(COUNTERS[case['counters']])
    if case.get('bad'):
        kw['validator_options'] = {'on_error': DF.schema_validator.drop}
    step = DF.dump_to_zip(target, **kw) if case['zip'] else DF.dump_to_path(target, **kw)
    before, after = [], []
    if case.get('two_dumps'):
        # an earlier dumper of the same flow (all rows, default counters) and a filter between the two: the stats process()
        # returns are those of the dumper that ends the flow
        before = [DF.dump_to_path(target + '_first'), DF.filter_rows(condition=lambda r: not isinstance(r['id'], int) or r['id'] % 2 == 0)]
    if case.get('stopper'):
        def take1(rows):
            for i, r in enumerate(rows):
                if i >= 1:
                    break
                yield r
        after = [take1]
    with quiet():
        dp, stats = Flow(source if source is not None else Src(res), *before, step, *after).process()
    files = {}
    if case['zip']:
        with zipfile.ZipFile(target) as z:
            for n in z.namelist():
                files[n] = z.read(n)
    else:
        for root, _, fs in os.walk(target):
            for f in fs:
                p = os.path.join(root, f)
                files[os.path.relpath(p, target)] = open(p, 'rb').read()
    return stats, files


def run_impl(case):
    base = os.path.join(scratch(), 'c9_%s' % digest(case))
    os.makedirs(base, exist_ok=True)
    out = {}
    try:
        mode = case.get('mode', 'fresh')
        for k in ('one', 'two'):
            target = os.path.join(base, k + ('.zip' if case['zip'] else ''))
            if k == 'two' and mode == 'reload':
                stats, files = dump_once(case, target, source=DF.load(os.path.join(base, 'one', 'datapackage.json')))
            elif k == 'two' and mode == 'samedir':
                stats, files = dump_once(case, os.path.join(base, 'one'), extra=2)
            else:
                stats, files = dump_once(case, target)
            desc = json.loads(files['datapackage.json'].decode('utf-8'))
            nm = names(case)
            res = []
            for r in desc['resources']:
                data = files.get(r['path'])
                if data is None:
                    rows = None
                elif case['format'] == 'csv':
                    rows = len(list(csv.reader(io.StringIO(data.decode('utf-8'), newline='')))) - 1
                elif case['format'] == 'excel':
                    import openpyxl
                    rows = openpyxl.load_workbook(io.BytesIO(data)).active.max_row - 1
                else:
                    rows = len(json.loads(data.decode('utf-8')))
                res.append({'path': r['path'], 'exists': data is not None, 'size': None if data is None else len(data),
                            'md5': None if data is None else hashlib.md5(data).hexdigest(), 'rows': rows,
                            'rec_bytes': getp(r, nm['resource-bytes']), 'rec_hash': getp(r, nm['resource-hash']),
                            'rec_rows': getp(r, nm['resource-rowcount'])})
            out[k] = {'res': res, 'pkg_bytes': getp(desc, nm['datapackage-bytes']), 'pkg_rows': getp(desc, nm['datapackage-rowcount']),
                      'pkg_hash': getp(desc, nm['datapackage-hash']), 'stats': stats,
                      'desc_size': len(files['datapackage.json'])}
    except Exception as e:
        c = e
        while type(c).__name__ == 'ProcessorError' and getattr(c, 'cause', None) is not None:
            c = c.cause
        out = {'error': '%s: %s' % (type(c).__name__, str(c)[:200])}
    shutil.rmtree(base, ignore_errors=True)
    return out


def oracle(case, out):
    if 'error' in out:
        return 'dump failed: %s' % out['error']
    nm = names(case)
    mode = case.get('mode', 'fresh')
    problems = []
    for label in ('one', 'two'):
        p = oracle_one(case, out[label], nm)
        if p:
            problems.append(p if label == 'one' else '%s (second dump, %s)' % (p, {'fresh': 'same data again', 'reload': 'of the package loaded from the first dump',
                                                                               'samedir': 'other data into the same directory'}[mode]))
    o, t = out['one'], out['two']
    if mode != 'samedir' and ([r['md5'] for r in t['res']] != [r['md5'] for r in o['res']] or [r['rec_hash'] for r in t['res']] != [r['rec_hash'] for r in o['res']]):
        problems.append('dumping the same data twice gave different hashes')
    # the known discrepancy of the returned byte total (checked last inside each dump) must not hide anything else
    for p in problems:
        if not p.startswith('process() stats bytes'):
            return p
    return problems[0] if problems else None


def oracle_one(case, o, nm):
    for r in o['res']:
        if not r['exists']:
            return 'recorded path %r does not point at a written file' % r['path']
        if nm['resource-bytes'] and r['rec_bytes'] != r['size']:
            return 'resource %s: recorded %r bytes, the file has %d' % (r['path'], r['rec_bytes'], r['size'])
        if nm['resource-hash'] and r['rec_hash'] != r['md5']:
            return 'resource %s: recorded hash %r is not the file\'s md5' % (r['path'], r['rec_hash'])
        if nm['resource-rowcount'] and r['rec_rows'] != r['rows']:
            return 'resource %s: recorded row count %r, the file has %d data rows' % (r['path'], r['rec_rows'], r['rows'])
        if case['hashpath'] and nm['resource-hash'] and r['md5'] not in r['path']:
            return 'add_filehash_to_path: path %r does not contain the file hash' % r['path']
    shared = nm['datapackage-bytes'] == nm['datapackage-rowcount']
    if nm['datapackage-rowcount'] and not shared and o['pkg_rows'] != sum(r['rows'] for r in o['res']):
        return 'package row count %r is not the sum over resources %d' % (o['pkg_rows'], sum(r['rows'] for r in o['res']))
    if nm['datapackage-bytes'] and not shared and nm['datapackage-bytes'] != nm['datapackage-hash'] and \
            o['pkg_bytes'] != sum(r['size'] for r in o['res']):
        return 'package byte count %r is not the sum over resources %d' % (o['pkg_bytes'], sum(r['size'] for r in o['res']))
    st = o['stats']
    if nm['datapackage-rowcount'] and not shared and st.get('count_of_rows') != o['pkg_rows']:
        return 'process() stats count_of_rows %r disagrees with the written descriptor %r' % (st.get('count_of_rows'), o['pkg_rows'])
    if nm['datapackage-hash'] and nm['datapackage-hash'] not in (nm['datapackage-bytes'], nm['datapackage-rowcount']) and st.get('hash') != o['pkg_hash']:
        return 'process() stats hash disagrees with the written descriptor'
    if nm['datapackage-bytes'] and not shared and nm['datapackage-bytes'] != nm['datapackage-hash'] and st.get('bytes') != o['pkg_bytes']:
        return 'process() stats bytes %r disagrees with the written descriptor %r' % (st.get('bytes'), o['pkg_bytes'])
    return None


def finding(case, out, failure):
    if case['format'] == 'excel' and failure == 'dumping the same data twice gave different hashes':
        return 'C09.excel_hash_not_deterministic'
    if 'one' in out and failure and failure.startswith('process() stats bytes'):
        o = out['two'] if '(second dump' in failure else out['one']
        if o['stats'].get('bytes') == (o['pkg_bytes'] or 0) + o['desc_size']:
            return 'C09.stats_bytes_include_descriptor'
    return None


def coq_term(case, out):
    if 'error' in out:
        return None
    nm = names(case)
    o = out['one']
    if not (nm['resource-bytes'] and nm['resource-rowcount']) or nm['datapackage-bytes'] == nm['datapackage-rowcount'] \
            or nm['datapackage-bytes'] == nm['datapackage-hash'] or not nm['datapackage-bytes'] or not nm['datapackage-rowcount']:
        # dotted-name bookkeeping only
        path = (nm['resource-bytes'] or nm['resource-hash'] or 'x').split('.')
        return ('match get_attr (inc_attr (inc_attr [] %s 5) %s 7) %s with Some (JTInt 12) => true | _ => false end' % (
            cstrs(path), cstrs(path), cstrs(path)))
    stats = clist(['{| rs_path := %s; rs_bytes := %s; rs_hash := []; rs_rows := %s |}' % (cstr(r['path']), cZ(r['rec_bytes'] or 0), cZ(r['rec_rows'] or 0))
                   for r in o['res']])
    return 'let t := totals %s in (fst t =? %s) && (snd t =? %s)' % (stats, cZ(o['pkg_bytes'] or 0), cZ(o['pkg_rows'] or 0))


def witnesses():
    return [{'kind': 'dump', 'pkg': rows_enc_pkg([[{'id': 1, 't': 'é', 'n': None}]]), 'format': 'csv', 'zip': False, 'counters': 0,
             'hashpath': False, 'pretty': True, 'witness_of': 'C09.stats_bytes_include_descriptor'}]


def nontrivial(case, out):
    return True
