(* Well-formedness of an emitted package: one row stream per descriptor (by construction of
   pkg), unique resource names, unique field names, and every row carrying only fields its
   schema declares.  Preservation by the built-in steps' models. *)
From Coq Require Import List ZArith Bool Lia.
From DF Require Import Base.Str Base.Str_proofs Base.ListX Base.Value Base.Value_proofs
     Proc.RowOps Proc.RowOps_proofs Proc.Fields Proc.Fields_proofs Proc.Sort Proc.Sort_proofs Proc.Resources Proc.Resources_proofs.
Import ListNotations.
Open Scope Z_scope.

Definition names_of (r : rsrc) : list str := map fst (r_fields r).
Definition row_fits (names : list str) (r : row) : Prop := forall k, In k (rkeys r) -> In k names.
Definition res_wf (r : rsrc) : Prop := NoDup (names_of r) /\ Forall (row_fits (names_of r)) (r_rows r).
Definition pkg_wf (p : pkg) : Prop := NoDup (map r_name p) /\ Forall res_wf p.

(* executable version for case files *)
Definition row_fits_b (names : list str) (r : row) : bool := forallb (fun k => str_in k names) (rkeys r).
Definition res_wf_b (r : rsrc) : bool := str_nodup (names_of r) && forallb (row_fits_b (names_of r)) (r_rows r).
Definition pkg_wf_b (p : pkg) : bool := str_nodup (map r_name p) && forallb res_wf_b p.

Lemma pkg_wf_b_sound p : pkg_wf_b p = true -> pkg_wf p.
Proof.
  unfold pkg_wf_b, pkg_wf. intros H. apply andb_true_iff in H as [H1 H2]. split; [apply str_nodup_NoDup, H1|].
  apply Forall_forall. intros r Hr. rewrite forallb_forall in H2. specialize (H2 r Hr).
  unfold res_wf_b in H2. apply andb_true_iff in H2 as [A B]. split; [apply str_nodup_NoDup, A|].
  apply Forall_forall. intros row Hrow. rewrite forallb_forall in B. specialize (B row Hrow).
  intros k Hk. unfold row_fits_b in B. rewrite forallb_forall in B. apply str_in_In, B, Hk.
Qed.

(* ---------- a pipeline preserves well-formedness if each step does ---------- *)
Theorem wf_pipeline (steps : list (pkg -> pkg)) :
  Forall (fun f => forall p, pkg_wf p -> pkg_wf (f p)) steps ->
  forall p, pkg_wf p -> pkg_wf (fold_left (fun acc f => f acc) steps p).
Proof.
  induction steps as [|f fs IH]; intros H p W; [exact W|].
  inversion H; subst. simpl. apply IH; [assumption|]. auto.
Qed.

(* ---------- resource-level steps ---------- *)
Lemma NoDup_map_filter {A B} (f : A -> B) (p : A -> bool) l : NoDup (map f l) -> NoDup (map f (filter p l)).
Proof.
  induction l as [|a l IH]; simpl; intros H; [constructor|]. inversion H as [|? ? Hn Hd]; subst.
  destruct (p a); simpl; [constructor|]; try apply IH, Hd.
  intros X. apply Hn. apply in_map_iff in X as [y [E Hy]]. apply filter_In in Hy as [Hy _].
  apply in_map_iff. exists y. auto.
Qed.

Theorem wf_delete_resource sel p : pkg_wf p -> pkg_wf (delete_resource sel p).
Proof.
  intros [N F]. unfold delete_resource. split; [apply NoDup_map_filter, N|].
  apply Forall_forall. intros r Hr. apply filter_In in Hr as [Hr _]. rewrite Forall_forall in F. apply F, Hr.
Qed.

Theorem wf_append p new :
  pkg_wf p -> pkg_wf new -> (forall n, In n (map r_name p) -> In n (map r_name new) -> False) ->
  pkg_wf (append_resources p new).
Proof.
  intros [N1 F1] [N2 F2] D. unfold append_resources. split.
  - rewrite map_app. apply NoDup_app_intro; assumption.
  - apply Forall_app. split; assumption.
Qed.

(* a step that replaces a resource's rows by a subsequence of them (filter_rows, deduplicate) *)
Theorem wf_rows_subseq r rows' :
  res_wf r -> subseq rows' (r_rows r) ->
  res_wf {| r_name := r_name r; r_path := r_path r; r_fields := r_fields r; r_pk := r_pk r; r_rows := rows' |}.
Proof.
  intros [N F] S. split; [exact N|]. simpl. apply Forall_forall. intros x Hx.
  rewrite Forall_forall in F. apply F. eapply subseq_In; eassumption.
Qed.

(* a step that permutes a resource's rows (sort_rows) *)
Theorem wf_rows_perm r rows' :
  res_wf r -> (forall x, In x rows' -> In x (r_rows r)) ->
  res_wf {| r_name := r_name r; r_path := r_path r; r_fields := r_fields r; r_pk := r_pk r; r_rows := rows' |}.
Proof.
  intros [N F] S. split; [exact N|]. simpl. apply Forall_forall. intros x Hx.
  rewrite Forall_forall in F. apply F, S, Hx.
Qed.

(* ---------- field-level steps: the new schema names and the new rows agree ---------- *)
Theorem wf_keep_keys keep names r :
  (forall k, In k keep -> In k names) -> row_fits keep (keep_keys keep r).
Proof.
  intros _ k Hk. rewrite keep_keys_keys in Hk. apply filter_In in Hk as [_ Hk]. apply str_in_In, Hk.
Qed.

Theorem wf_add_field names r t v : row_fits names r -> row_fits (names ++ [t]) (rset r t v).
Proof.
  intros F k Hk. apply in_or_app. destruct (rhas r t) eqn:E.
  - rewrite rkeys_rset_present in Hk by exact E. left. apply F, Hk.
  - rewrite rkeys_rset_absent in Hk by exact E. apply in_app_iff in Hk as [Hk|[<-|[]]]; [left; apply F, Hk|right; left; reflexivity].
Qed.

Theorem wf_rename m r :
  NoDup (map (ren m) (rkeys r)) -> forall names, row_fits names r -> row_fits (map (ren m) names) (rename_row m r).
Proof.
  intros ND names F k Hk. rewrite rename_lockstep in Hk by exact ND.
  apply in_map_iff in Hk as [k0 [<- Hk0]]. apply in_map, F, Hk0.
Qed.

Theorem wf_concat_row m targets r o :
  (forall a b, lookup_str m a = Some b -> In b targets) -> concat_row m targets r = Ok o -> row_fits targets o.
Proof. intros Hm H k Hk. rewrite (concat_row_keys m targets r o Hm H) in Hk. exact Hk. Qed.

Theorem wf_unpivot_cell keep vn r pf names :
  (forall k, In k (rkeys (snd pf)) -> In k names) -> (forall k, In k keep -> In k names) -> In vn names ->
  row_fits names (cell_spec keep vn r pf).
Proof.
  intros Hk Hkeep Hv k Hin. unfold cell_spec in Hin.
  assert (G : forall acc, (forall x, In x (rkeys acc) -> In x names) -> forall x, In x (rkeys (kept_spec keep r acc)) -> In x names).
  { clear Hin. revert Hkeep. generalize keep. induction keep0 as [|f fs IH]; intros Hkp acc Hacc x Hx; simpl in Hx; [apply Hacc, Hx|].
    eapply IH; [intros y Hy; apply Hkp; right; exact Hy| |exact Hx].
    intros y Hy. destruct (rhas acc f) eqn:E.
    - rewrite rkeys_rset_present in Hy by exact E. apply Hacc, Hy.
    - rewrite rkeys_rset_absent in Hy by exact E. apply in_app_iff in Hy as [Hy|[<-|[]]]; [apply Hacc, Hy|apply Hkp; left; reflexivity]. }
  destruct (rhas (kept_spec keep r (snd pf)) vn) eqn:E.
  - rewrite rkeys_rset_present in Hin by exact E. eapply G; [exact Hk|exact Hin].
  - rewrite rkeys_rset_absent in Hin by exact E. apply in_app_iff in Hin as [Hin|[<-|[]]]; [eapply G; [exact Hk|exact Hin]|exact Hv].
Qed.
