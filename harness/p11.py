"""C11 join computes the relational join with the documented aggregates."""
import copy, re, collections, statistics
from common import *
from flowutil import *
import dataflows as DF

PROP = 'C11'
PROPS_V = 'Props/C11.v'
COQ_IMPORTS = ['Base.Str', 'Base.Value', 'Proc.RowOps', 'Proc.Fields', 'Proc.Join', 'Gen.Consts']
RULE = ('cases = source/target tables (0-12 rows; duplicate, missing and null keys; thorough: >10240 distinct keys) x key as '
        'field list / format string / row number x mode x aggregator x source_delete x wildcard mapping x join_with_self; '
        'non-trivial = at least one key has two or more source rows or a target row has no match; distinct = case digest'
        '; round 7: key and field names that are not identifiers; every case also read after all resources were taken from the stream (join may not depend on the consumer reading in turn)'
        '; round 8: a later step that adds to every list of a joined row in place (each row owns its containers), several target rows in a row with one key'
        '; round 9: a source primary key of which the join key is a part (or, as a string, a substring); sum over a text column')
TRUSTED = ['Coq 8.16.1 kernel + vm_compute', 'harness/p11.py printers, field-order computation (fix/expand/order_fields mirror) and oracle',
           'KVFile as an ordered map', 'avg/median compared only where the quotient is an exact small dyadic rational',
           'Python str() of key values (int, str, None, bool) as modelled by str_of_value']
ASSUMES = ['numeric aggregates are modelled over integers; sum/min/max also over strings',
           'count counts matching rows (the code cannot distinguish a named count; noted in DESIGN.md)',
           'set aggregates are compared as sets; any may return any matching non-null value']

AGGS = ['sum', 'avg', 'median', 'max', 'min', 'first', 'last', 'count', 'any', 'set', 'array', 'counters']
KEYS = [1, 2, 3, 'a', 'b', None, True, 0, False]      # True/1 and False/0 are equal in Python but render different keys


def gen_cases(rng, tier):
    n = {'quick': 260, 'thorough': 2500, 'search': 1200}[tier]
    cases = []
    for i in range(n):
        ns, nt = rng.randint(0, 12), rng.randint(0, 8)
        kpool = rng.sample(KEYS, rng.randint(2, 5))
        S = [{'k': rng.pick(kpool), 'k2': rng.pick(['p', 'q']), 'v': rng.pick([None, 0, 1, 2, 5, -3, 8]),
              'w': rng.pick([None, 'x', 'y', 'zz'])} for _ in range(ns)]
        T = [{'k': rng.pick(kpool + [9]), 'k2': rng.pick(['p', 'q']), 'x': rng.pick([None, 7, 70])} for _ in range(nt)]
        shape = rng.randint(0, 6)
        if shape <= 1:
            sk = tk = [['f', 'k']]
        elif shape == 2:
            sk = tk = [['f', 'k'], ['l', ':'], ['f', 'k2']]
        elif shape == 3:
            sk = tk = [['l', 'K-'], ['f', 'k'], ['l', '/']]
        elif shape == 4:
            sk = tk = [['f', '#']]
        elif shape == 6:
            # the two sides name their key fields in different orders: the fields of a key are paired by position
            sk = [['f', 'k'], ['l', ':'], ['f', 'k2']]
            tk = [['f', 'k2'], ['l', ':'], ['f', 'k']]
        else:
            sk = [['f', 'k']]
            tk = [['l', ''], ['f', 'k']]
        listform = shape <= 2 and rng.chance(0.7)
        fields = []
        used = set()
        for _ in range(rng.pick([0, 1, 1, 2, 3, 4])):      # 0: join used as an existence filter (empty mapping)
            t = rng.pick(['agg1', 'agg2', 'v', 'w', 'x', 'out'])
            if t in used:
                continue
            used.add(t)
            g = rng.pick(AGGS)
            srcf = 'v' if g in ('sum', 'avg', 'median') else rng.pick(['v', 'w'])
            if g in ('max', 'min') and rng.chance(0.5):
                srcf = rng.pick(['v', 'w'])
            if t in ('v', 'w') and rng.chance(0.5):
                srcf = t
            if g in ('sum', 'avg', 'median'):
                srcf = 'v'            # numeric aggregates over the numeric column (others are documented to err)
            if t == 'x':          # re-using an existing target field: the code asserts equal types
                g = rng.pick(['sum', 'max', 'min', 'first', 'last', 'any'])
                srcf = 'v'
            fields.append([t, srcf, g])
        star = rng.chance(0.15) and shape != 6      # (a wildcard would aggregate the key fields themselves, which the positional pairing then overwrites)
        c = {'kind': 'join', 'S': rows_enc(S), 'T': rows_enc(T), 'skey': sk, 'tkey': tk, 'listform': listform,
             'fields': fields, 'star': rng.pick(['any', 'last', 'first']) if star else None,
             'mode': rng.pick(['inner', 'half-outer', 'half-outer', 'full-outer']),
             'source_delete': rng.chance(0.6)}
        if not star and shape != 4 and rng.chance(0.3):
            c['keynames'] = rng.pick([{'k': 'first name', 'k2': 'dept-id'}, {'k': 'emp no', 'k2': 'e-mail'}, {'k': 'k', 'k2': 'k 2'}])
        if rng.chance(0.3):
            # the source declares a primary key of which the join key is only a part (or, given as a string, a substring):
            # several source rows may share the join key all the same
            c['spk'] = rng.pick([['k', 'k2'], 'k2', ['k2', 'k'], ['k', 'w']])
        if i % 6 == 5:
            c['kind'] = 'join_self'
        if any(g in ('array', 'set', 'counters') for _, _, g in fields) and rng.chance(0.6):
            # a later row step that adds to every list in the row, in place: each joined row has containers of its own (round 8)
            c['mark'] = True
        cases.append(c)
    # systematically: sum over a text column (concatenation, documented) in join and join_with_self; a composite / string primary key
    # on the source with several rows per join key
    S_ = [{'k': 1, 'k2': 'p', 'v': 5, 'w': 'a'}, {'k': 1, 'k2': 'q', 'v': 6, 'w': 'b'}, {'k': 2, 'k2': 'p', 'v': 7, 'w': 'c'}, {'k': 1, 'k2': 'r', 'v': 8, 'w': None}]
    T_ = [{'k': 1, 'k2': 'p', 'x': 0}, {'k': 2, 'k2': 'q', 'x': 1}, {'k': 3, 'k2': 'q', 'x': 2}]
    for kind in ('join', 'join_self'):
        for spk in (None, ['k', 'k2'], 'k2'):
            cases.append({'kind': kind, 'S': rows_enc(S_), 'T': rows_enc(T_), 'skey': [['f', 'k']], 'tkey': [['f', 'k']], 'listform': True,
                          'fields': [['agg1', 'w', 'sum'], ['agg2', 'v', 'sum'], ['out', 'v', 'count']], 'star': None, 'mode': 'half-outer', 'source_delete': True, 'spk': spk})
    # systematically: several target rows in a row with the same key, container-valued aggregates, a later step editing them in place
    for g in ('array', 'set', 'counters'):
        for mode in ('inner', 'half-outer', 'full-outer'):
            cases.append({'kind': 'join', 'S': rows_enc([{'k': 1, 'k2': 'p', 'v': 5, 'w': 'a'}, {'k': 1, 'k2': 'p', 'v': 6, 'w': 'b'}, {'k': 2, 'k2': 'q', 'v': 7, 'w': 'c'}]),
                          'T': rows_enc([{'k': 1, 'k2': 'p', 'x': 0}, {'k': 1, 'k2': 'p', 'x': 1}, {'k': 1, 'k2': 'p', 'x': 2}, {'k': 2, 'k2': 'q', 'x': 3}]),
                          'skey': [['f', 'k']], 'tkey': [['f', 'k']], 'listform': True, 'fields': [['agg1', 'w', g]], 'star': None, 'mode': mode,
                          'source_delete': True, 'mark': True})
    if tier == 'thorough':
        big = [{'k': i % 11000, 'k2': 'p', 'v': i % 7, 'w': 'x'} for i in range(12000)]
        cases.append({'kind': 'join', 'S': rows_enc(big), 'T': rows_enc([{'k': j, 'k2': 'p', 'x': None} for j in (0, 5, 10999, 11000)]),
                      'skey': [['f', 'k']], 'tkey': [['f', 'k']], 'listform': True, 'fields': [['agg1', 'v', 'sum'], ['agg2', 'v', 'count']],
                      'star': None, 'mode': 'half-outer', 'source_delete': True, 'big': True})
    return cases


def py_key(parts, listform):
    if listform:
        return [p[1] for p in parts if p[0] == 'f']
    return ''.join(p[1].replace('{', '{{').replace('}', '}}') if p[0] == 'l' else '{' + p[1] + '}' for p in parts)


S_FIELDS = [('k', 'any'), ('k2', 'string'), ('v', 'integer'), ('w', 'string')]
T_FIELDS = [('k', 'any'), ('k2', 'string'), ('x', 'integer')]


def ordered_fields(case):
    """mirror of fix_fields / expand_fields / order_fields: final [(target, source, agg)] in the order the code uses"""
    fields = collections.OrderedDict((t, {'name': s_, 'aggregate': g}) for t, s_, g in case['fields'])
    if case['star']:
        existing = set(f['name'] for f in fields.values())
        for n, _ in S_FIELDS:
            if n not in existing:
                fields[n] = {'name': n, 'aggregate': case['star']}
    out = []
    for n, _ in S_FIELDS:
        if n in fields:
            out.append((n, fields[n]['name'], fields[n]['aggregate']))
            del fields[n]
    for n in sorted(fields):
        out.append((n, fields[n]['name'], fields[n]['aggregate']))
    return out


def _rn(case, n):
    return (case.get('keynames') or {}).get(n, n)


def _rn_parts(case, parts):
    return [[p[0], _rn(case, p[1]) if p[0] == 'f' else p[1]] for p in parts]


def step_of(case):
    if case.get('keynames'):
        # the key fields carry names that are not identifiers (blanks, hyphens): renamed on the way in and back on the way out
        case = dict(case, skey=_rn_parts(case, case['skey']), tkey=_rn_parts(case, case['tkey']), keynames=None)
    fields = dict((t, {'name': s_, 'aggregate': g}) for t, s_, g in case['fields'])
    if case['star']:
        fields['*'] = {'aggregate': case['star']}
    if case['kind'] == 'join_self':
        return DF.join_with_self('S', py_key(case['skey'], case['listform']), fields)
    return DF.join('S', py_key(case['skey'], case['listform']), 'T', py_key(case['tkey'], case['listform']), fields,
                   mode=case['mode'], source_delete=case['source_delete'])


MARK = '\u2691mark'


def _mark(row):
    for v in row.values():
        if isinstance(v, list):
            v.append(MARK)
        elif isinstance(v, set):
            v.add(MARK)


def unmark(rows):
    """removes the one marker each list of a row was given by the later step; returns a description of the first list that
    does not hold exactly one (it is shared with another row) or None"""
    for i, row in enumerate(rows):
        for k, v in row.items():
            if isinstance(v, (list, set)):
                n = list(v).count(MARK)
                if n != 1:
                    return 'row %d: the %s under %r was edited %d times by a step that edits each row once: %r' % (i, type(v).__name__, k, n, v)
                v.remove(MARK)
    return None


def run_impl(case):
    res = [{'name': 'S', 'fields': [{'name': n, 'type': t} for n, t in S_FIELDS], 'rows': rows_dec(case['S'])},
           {'name': 'T', 'fields': [{'name': n, 'type': t} for n, t in T_FIELDS], 'rows': rows_dec(case['T'])}]
    if case.get('spk'):
        kn = case.get('keynames') or {}
        res[0]['pk'] = kn.get(case['spk'], case['spk']) if isinstance(case['spk'], str) else [kn.get(x, x) for x in case['spk']]
    if case['kind'] == 'join_self':
        res = res[:1]
    if case.get('keynames'):
        for r_ in res:
            for f in r_['fields']:
                f['name'] = _rn(case, f['name'])
            r_['rows'] = [dict((_rn(case, k), v) for k, v in row.items()) for row in r_['rows']]
    # (also read with all resources taken first and the resources iterator let go before any row is read)
    out = run_stream(res, [step_of(case)] + ([_mark] if case.get('mark') else []), collect=not case.get('big'))
    if 'error' in out:
        return {'error': out['error'], 'exc': out['exc']}
    if case.get('mark'):
        for rows_ in out['rows']:
            pb = unmark(rows_)
            if pb:
                return {'error': E_OTHER, 'exc': 'joined rows share their containers: ' + pb}
    if case.get('keynames'):
        back = dict((v, k) for k, v in case['keynames'].items())
        out['rows'] = [[dict((back.get(k, k), v) for k, v in row.items()) for row in rows] for rows in out['rows']]
        for d in out['dp']['resources']:
            for f in d['schema']['fields']:
                f['name'] = back.get(f['name'], f['name'])
    names = [d['name'] for d in out['dp']['resources']]
    ti = names.index('S' if case['kind'] == 'join_self' else 'T')
    rows = out['rows'][ti]
    if case.get('big'):
        rows = rows[:50]
    r = {'rows': rows_enc(canon_sets(case, rows)), 'names': names,
         'schema': [[f['name'], f['type']] for f in out['dp']['resources'][ti]['schema']['fields']]}
    if case['kind'] == 'join' and not case['source_delete'] and not case.get('big'):
        r['source_rows'] = rows_enc(out['rows'][names.index('S')])
    return r


def canon_sets(case, rows):
    """set aggregates: reorder to first-appearance order over the source (sets are unordered)"""
    S = rows_dec(case['S'])
    out = []
    for r in rows:
        r = dict(r)
        for t, s_, g in ordered_fields(case):
            if g == 'counters' and isinstance(r.get(t), list):
                r[t] = [list(p) for p in r[t]]
        out.append(r)
    return out


def render(parts, row, n):
    return ''.join(p[1] if p[0] == 'l' else str(n if p[1] == '#' else row[p[1]]) for p in parts)


def aggregate(g, vals, nmatches):
    if g == 'count':
        return nmatches
    if g in ('set', 'array', 'counters') and not vals:
        return []
    if not vals:
        return None
    if g == 'sum':
        acc = vals[0]
        for v in vals[1:]:
            acc = v + acc
        return acc
    if g == 'avg':
        return sum(vals) / len(vals)
    if g == 'median':
        s_ = sorted(vals)
        m = len(s_) // 2
        return (s_[m - 1] + s_[m]) / 2 if len(s_) % 2 == 0 else s_[m]
    if g == 'max':
        return max(vals)
    if g == 'min':
        return min(vals)
    if g == 'first':
        return vals[0]
    if g == 'last':
        return vals[-1]
    if g == 'any':
        return ('ANY', vals)
    if g == 'set':
        return ('SET', vals)
    if g == 'array':
        return list(vals)
    if g == 'counters':
        return [list(p) for p in collections.Counter(vals).most_common()]


def val_ok(exp, got):
    if isinstance(exp, tuple) and exp[0] == 'ANY':
        return any(type(got) is type(v) and got == v for v in exp[1])
    if isinstance(exp, tuple) and exp[0] == 'SET':
        return isinstance(got, list) and sorted(map(repr, got)) == sorted(set(map(repr, exp[1])))
    return type(exp) is type(got) and exp == got


def oracle(case, out):
    S, T = rows_dec(case['S']), rows_dec(case['T'])
    fields = ordered_fields(case)
    try:
        skeys = [render(case['skey'], s_, i + 1) for i, s_ in enumerate(S)]
    except KeyError:
        return None
    if 'error' in out:
        # documented "will error" cases: sum/avg/median/min/max over values that do not support them
        return 'join failed: %s' % out['exc'] if not expected_type_error(case) else None
    got = rows_dec(out['rows'])

    def aggs_for(key):
        m = [s_ for s_, k in zip(S, skeys) if k == key]
        return dict((t, aggregate(g, [x[sf] for x in m if x.get(sf) is not None], len(m))) for t, sf, g in fields), len(m)
    if case['kind'] == 'join_self':
        keys = sorted(set(skeys))
        if len(got) != len(keys):
            return 'join_with_self: %d rows for %d distinct keys' % (len(got), len(keys))
        for k, r in zip(keys, got):
            a, _ = aggs_for(k)
            for t in a:
                if t not in r or not val_ok(a[t], r[t]):
                    return 'join_with_self: aggregate %r of key %r is %r, definition gives %r' % (t, k, r.get(t), a[t])
        return None
    if case.get('big'):
        T = T[:50]
    exp = []
    used = set()
    for i, t in enumerate(T):
        key = render(case['tkey'], t, i + 1)
        a, nm = aggs_for(key)
        if nm == 0:
            if case['mode'] == 'inner':
                continue
            exp.append((t, dict((f, t.get(f)) for f, _, _ in fields), False))
        else:
            used.add(key)
            exp.append((t, a, True))
    extras = sorted(set(skeys) - used) if case['mode'] == 'full-outer' else []
    if len(got) != len(exp) + len(extras):
        return 'join(%s): %d rows out, specification gives %d (+%d unmatched source keys)' % (case['mode'], len(got), len(exp), len(extras))
    for (t, a, matched), r in zip(exp, got):
        for f in a:
            if f not in r or not val_ok(a[f], r[f]):
                return 'join(%s): field %r of a %s target row is %r, definition gives %r' % (
                    case['mode'], f, 'matched' if matched else 'unmatched', r.get(f), a[f])
        for f in t:
            if f not in a and not (matched and case['mode'] == 'full-outer' and f in [p[1] for p in case['tkey'] if p[0] == 'f']):
                if f not in r or r[f] != t[f]:
                    return 'join(%s): target field %r changed from %r to %r' % (case['mode'], f, t[f], r.get(f))
    skf = [p[1] for p in case['skey'] if p[0] == 'f' and p[1] != '#']
    tkf = [p[1] for p in case['tkey'] if p[0] == 'f' and p[1] != '#']
    for k, r in zip(extras, got[len(exp):]):
        # the key fields of a row added for an unmatched source key hold that key's values, paired by position
        if len(skf) == len(tkf) and skf:
            srcs = [s_ for s_, kk in zip(S, skeys) if kk == k]
            if not any(all(tf in r and r[tf] == s_.get(sf) for sf, tf in zip(skf, tkf)) for s_ in srcs):
                return 'join(full-outer): the row for the unmatched source key %r carries key fields %r, the source rows have %r' % (
                    k, dict((tf, r.get(tf)) for tf in tkf), [dict((sf, s_.get(sf)) for sf in skf) for s_ in srcs][:2])
        a, _ = aggs_for(k)
        for f in a:
            if f not in r or not val_ok(a[f], r[f]):
                return 'join(full-outer): unmatched source key %r: field %r is %r, definition gives %r' % (k, f, r.get(f), a[f])
    if 'source_rows' in out and rows_dec(out['source_rows']) != S:
        return 'join(source_delete=False): the source resource did not pass through unchanged'
    # emitted values agree with the declared types (feeds C02)
    types = dict(out['schema'])
    for r in got:
        for f, _, g in fields:
            v = r.get(f)
            if v is None or f not in types:
                continue
            t_ = types[f]
            ok = {'integer': isinstance(v, int) and not isinstance(v, bool), 'number': isinstance(v, (int, float, decimal.Decimal)) and not isinstance(v, bool),
                  'string': isinstance(v, str), 'array': isinstance(v, list), 'any': True}.get(t_, True)
            if not ok:
                return 'join: field %r is declared %s but a row carries %r' % (f, t_, v)
    return None


def expected_type_error(case):
    S = rows_dec(case['S'])
    for t, sf, g in ordered_fields(case):
        vals = [x.get(sf) for x in S if x.get(sf) is not None]
        if g in ('avg', 'median') and any(isinstance(v, str) for v in vals):
            return True
        if g in ('sum', 'max', 'min') and len(set(type(v) for v in vals)) > 1:
            return True
    # a target/source row lacking a key field
    return False


def coq_kspec(parts):
    return clist(['(inl %s)' % cstr(p[1]) if p[0] == 'l' else '(inr %s)' % cstr(p[1]) for p in parts])


GA = {'sum': 'GSum', 'avg': 'GAvg', 'median': 'GMedian', 'max': 'GMax', 'min': 'GMin', 'first': 'GFirst', 'last': 'GLast',
      'count': 'GCount', 'any': 'GAny', 'set': 'GSet', 'array': 'GArray', 'counters': 'GCounters'}


def coq_fields(case):
    return clist(['{| jf_target := %s; jf_source := %s; jf_agg := %s |}' % (cstr(t), cstr(sf), GA[g])
                  for t, sf, g in ordered_fields(case)])


def coq_term(case, out):
    if case.get('big'):
        return None
    fs = coq_fields(case)
    S, T = crows(rows_dec(case['S'])), crows(rows_dec(case['T']))
    if case['kind'] == 'join_self':
        model = 'join_self_model %s %s %s' % (fs, coq_kspec(case['skey']), S)
    else:
        mode = {'inner': 'MInner', 'half-outer': 'MHalfOuter', 'full-outer': 'MFullOuter'}[case['mode']]
        model = 'join_model %s %s %s %s %s %s' % (fs, coq_kspec(case['skey']), coq_kspec(case['tkey']), mode, S, T)
    if 'error' in out:
        return 'match %s with Err _ => true | Ok _ => false end' % model
    setf = cstrs([tg for tg, sf, g in ordered_fields(case) if g == 'set'])
    t = 'match %s with Err c => (c =? 99) | Ok rs => rows_eqb_s %s rs %s end' % (model, setf, crows(rows_dec(out['rows'])))
    # declared types of the joined fields follow the AGGREGATORS table of the source (Gen/Consts.v)
    types = dict(out['schema'])
    st = dict(S_FIELDS)
    for tg, sf, g in ordered_fields(case):
        if tg in types and not (case['kind'] == 'join' and tg in dict(T_FIELDS)):
            t += ' && str_eqb (join_field_type c_join_aggs %s %s) %s' % (GA[g], cstr(st.get(sf, 'any')), cstr(types[tg]))
    return t


def coq_model_term(case):
    t = coq_term(case, {'error': 1})
    return t[len('match '):t.index(' with Err')]


def nontrivial(case, out):
    S, T = rows_dec(case['S']), rows_dec(case['T'])
    try:
        sk = [render(case['skey'], s_, i + 1) for i, s_ in enumerate(S)]
        tk = [render(case['tkey'], t, i + 1) for i, t in enumerate(T)]
    except KeyError:
        return True
    return len(set(sk)) < len(sk) or any(k not in sk for k in tk)


def shrinks(case):
    if case.get('big'):
        return
    for key in ('S', 'T'):
        for i in range(len(case[key])):
            c = copy.deepcopy(case)
            del c[key][i]
            yield c
    if len(case['fields']) > 1:
        for i in range(len(case['fields'])):
            c = copy.deepcopy(case)
            del c['fields'][i]
            yield c
