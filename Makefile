.PHONY: setup coq clean
setup: coq
coq:
	cd coq && /venv/bin/python ../harness/gen_consts.py && coq_makefile -f _CoqProject -o Makefile.coq && timeout 3000 $(MAKE) -f Makefile.coq -j16
clean:
	cd coq && $(MAKE) -f Makefile.coq clean || true
