(* C05: observers are transparent and capture the complete stream at their position. *)
From Coq Require Import List ZArith Bool.
From DF Require Import Base.Str Base.Value Frame.Events Frame.Events_proofs Frame.Pull Frame.Pull_proofs.
Import ListNotations.
Local Open Scope nat_scope.

Theorem C05_observer_rows_transparent : forall k s, rows_of (lmap (g_observe k) s) = rows_of s.
Proof. exact observer_rows_transparent. Qed.
Print Assumptions C05_observer_rows_transparent.

Theorem C05_committing_observer_transparent : forall k s, rows_of (committing k s) = rows_of s.
Proof. exact committing_rows_transparent. Qed.
Print Assumptions C05_committing_observer_transparent.

Theorem C05_finalizer_transparent : forall k s, rows_of (finalizing k s) = rows_of s.
Proof. exact finalizing_rows_transparent. Qed.
Print Assumptions C05_finalizer_transparent.

(* what the observer records is the full stream at its position: one record per row that reaches it *)
Theorem C05_observer_complete : forall k s,
  (forall e, In e s -> match e with EEff k' _ => k' <> k | _ => True end) ->
  records k (lmap (g_observe k) s) = length (rows_of s).
Proof. exact observer_complete. Qed.
Print Assumptions C05_observer_complete.

(* a finalizer fires exactly once, after the last row has passed it *)
Theorem C05_finalizer_once_after_last : forall k s, finalizing k s = s ++ [EEff k 5].
Proof. exact finalizer_once_after_last. Qed.
Print Assumptions C05_finalizer_once_after_last.

(* ... and not at all when the run fails while rows are still flowing: the callback is not among the things that happen *)
Theorem C05_finalizer_silent_when_run_fails : forall kf a k x b,
  no_fail a -> drive (finalizing kf (a ++ EFail k x :: b)) = (a, Raised k x).
Proof. exact finalizer_silent_on_failure. Qed.
Print Assumptions C05_finalizer_silent_when_run_fails.

(* the commit of an observer happens once, at the end, when nothing fails *)
Theorem C05_commit_at_end : forall kc s,
  no_fail s -> drive (committing kc s) = (lmap (g_observe kc) s ++ [EEff kc 4], Returned).
Proof. exact commit_at_end. Qed.
Print Assumptions C05_commit_at_end.

(* the pull protocol (Frame/Pull.v): the consumer asks for resources and rows in any order, stops reading a resource early
   or skips it; the observer reads what is left of a resource itself when the consumer moves on (fix 9cf3000) *)

(* invariant over every sequence of requests: the observer's account (resources seen to their end, the current one with
   its rows seen and still to come, the ones not begun) is the package *)
Theorem C05_observer_account_invariant : forall (R : Type) (pkg : list (list R)) (ops : list cop),
  account R (fst (orun R true (start R pkg) ops)) = pkg.
Proof. exact pull_account_invariant. Qed.
Print Assumptions C05_observer_account_invariant.

(* so once the consumer has taken the stream to its end, however little it read on the way, the observer has all of it *)
Theorem C05_observer_complete_for_every_consumer : forall (R : Type) (pkg : list (list R)) (ops : list cop),
  finished R (fst (orun R true (start R pkg) ops)) = true ->
  done (fst (orun R true (start R pkg) ops)) = pkg.
Proof. exact pull_observer_complete. Qed.
Print Assumptions C05_observer_complete_for_every_consumer.

(* and the consumer is handed, request by request, what it would be handed without the observer *)
Theorem C05_observer_transparent_for_every_consumer : forall (R : Type) (ops : list cop) (s s' : ost R),
  view R s = view R s' -> snd (orun R true s ops) = snd (orun R false s' ops).
Proof. exact pull_observer_transparent. Qed.
Print Assumptions C05_observer_transparent_for_every_consumer.

(* the premise of completeness is met by the consumers the checks run: k_i rows of resource i, then on *)
Theorem C05_early_stopping_consumer_complete : forall (R : Type) (pkg : list (list R)) (takes : list nat),
  length takes = length pkg -> done (fst (orun R true (start R pkg) (reads takes))) = pkg.
Proof. exact reads_complete. Qed.
Print Assumptions C05_early_stopping_consumer_complete.

(* an observer that does not read on by itself (the code before the fix) is refuted: two rows, one read *)
Theorem C05_observer_without_reading_on_refuted : exists (pkg : list (list nat)) takes, length takes = length pkg /\
  done (fst (orun nat false (start nat pkg) (reads takes))) <> pkg.
Proof. exact no_drain_refuted. Qed.
Print Assumptions C05_observer_without_reading_on_refuted.
