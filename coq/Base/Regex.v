(* A regular-expression AST and a backtracking-free matcher (set of residual
   suffixes).  [fullmatch r s] is Python's re.fullmatch(show r, s) is not None
   for the fragment the harness generates (no anchors, look-around or
   back-references inside r). *)
From Coq Require Import List ZArith Bool Lia.
From DF Require Import Base.Str.
Import ListNotations.
Open Scope Z_scope.

Inductive re :=
| REps
| RChr (c : Z)
| RAny                                  (* '.' : anything but newline *)
| RClass (neg : bool) (ranges : list (Z * Z))
| RSeq (a b : re)
| RAlt (a b : re)
| RStar (a : re)
| RPlus (a : re)
| ROpt (a : re).

Definition in_ranges (c : Z) (rs : list (Z * Z)) : bool :=
  existsb (fun p => (fst p <=? c) && (c <=? snd p)) rs.

Definition chr_ok (r : re) (c : Z) : bool :=
  match r with
  | RChr x => c =? x
  | RAny => negb (c =? 10)
  | RClass neg rs => xorb neg (in_ranges c rs)
  | _ => false
  end.

(* residual suffixes after matching [r] at the head of [s] *)
Fixpoint mres (r : re) (s : str) : list str :=
  match r with
  | REps => [s]
  | RChr _ | RAny | RClass _ _ =>
      match s with
      | c :: t => if chr_ok r c then [t] else []
      | [] => []
      end
  | RSeq a b => flat_map (mres b) (mres a s)
  | RAlt a b => mres a s ++ mres b s
  | ROpt a => s :: mres a s
  | RStar a =>
      (fix star (n : nat) (s : str) : list str :=
         match n with
         | O => [s]
         | S n' => s :: flat_map (fun t => if Nat.ltb (length t) (length s) then star n' t else [])
                               (mres a s)
         end) (length s) s
  | RPlus a =>
      flat_map (fun s1 =>
        (fix star (n : nat) (s : str) : list str :=
           match n with
           | O => [s]
           | S n' => s :: flat_map (fun t => if Nat.ltb (length t) (length s) then star n' t else [])
                                 (mres a s)
           end) (length s1) s1) (mres a s)
  end.

Definition is_nil {A} (l : list A) : bool := match l with [] => true | _ => false end.

Definition fullmatch (r : re) (s : str) : bool := existsb is_nil (mres r s).

(* re.match: some prefix matches *)
Definition prefixmatch (r : re) (s : str) : bool := negb (is_nil (mres r s)).
