(* JSON text: json.dumps (ensure_ascii=True, default separators ', ' and ': ') as a printer and
   json.loads as a fuelled recursive-descent parser, over the JSON trees of IO/EJson.v (integers
   only: the extended JSON writes decimals as text, floats are outside this file's theorem). *)
From Coq Require Import List ZArith Bool Lia.
From DF Require Import Base.Str IO.EJson.
Import ListNotations.
Open Scope Z_scope.

(* ---------- printer ---------- *)
Definition u_escape (c : Z) : str :=
  [92; 117; hex_digit (c / 4096 mod 16); hex_digit (c / 256 mod 16); hex_digit (c / 16 mod 16); hex_digit (c mod 16)].

Definition esc_char (c : Z) : str :=
  if c =? 34 then [92; 34] else if c =? 92 then [92; 92]
  else if c =? 10 then [92; 110] else if c =? 13 then [92; 114] else if c =? 9 then [92; 116]
  else if c =? 8 then [92; 98] else if c =? 12 then [92; 102]
  else if (32 <=? c) && (c <=? 126) then [c]
  else if c <? 65536 then u_escape c
  else u_escape (55296 + (c - 65536) / 1024) ++ u_escape (56320 + (c - 65536) mod 1024).

Definition esc (s : str) : str := flat_map esc_char s.
Definition print_str (s : str) : str := 34 :: esc s ++ [34].

Section PR.
  Variable pr : json -> str.
  Fixpoint print_items (l : list json) : str :=
    match l with
    | [] => []
    | [x] => pr x
    | x :: r => pr x ++ 44 :: 32 :: print_items r
    end.
  Fixpoint print_members (l : list (str * json)) : str :=
    match l with
    | [] => []
    | [(k, x)] => print_str k ++ 58 :: 32 :: pr x
    | (k, x) :: r => print_str k ++ 58 :: 32 :: pr x ++ 44 :: 32 :: print_members r
    end.
End PR.

Fixpoint jprint (j : json) : str :=
  match j with
  | JNull => [110; 117; 108; 108]
  | JBool true => [116; 114; 117; 101]
  | JBool false => [102; 97; 108; 115; 101]
  | JInt z => str_of_Z z
  | JFlt _ _ => [110; 117; 108; 108]          (* outside the theorem; never produced by the extended JSON encoder *)
  | JStr s => print_str s
  | JArr l => 91 :: print_items jprint l ++ [93]
  | JObj l => 123 :: print_members jprint l ++ [125]
  end.

(* ---------- parser ---------- *)
Definition is_ws (c : Z) : bool := (c =? 32) || (c =? 10) || (c =? 13) || (c =? 9).
Fixpoint skip_ws (s : str) : str :=
  match s with c :: r => if is_ws c then skip_ws r else s | [] => [] end.

Definition is_digit (c : Z) : bool := (48 <=? c) && (c <=? 57).
Definition hexval (c : Z) : option Z :=
  if (48 <=? c) && (c <=? 57) then Some (c - 48)
  else if (97 <=? c) && (c <=? 102) then Some (c - 87)
  else if (65 <=? c) && (c <=? 70) then Some (c - 55)
  else None.

Definition hex4 (s : str) : option (Z * str) :=
  match s with
  | a :: b :: c :: d :: r =>
      match hexval a, hexval b, hexval c, hexval d with
      | Some x, Some y, Some z, Some w => Some (4096 * x + 256 * y + 16 * z + w, r)
      | _, _, _, _ => None
      end
  | _ => None
  end.

Fixpoint strip_prefix (p s : str) : option str :=
  match p with
  | [] => Some s
  | a :: p' => match s with b :: s' => if a =? b then strip_prefix p' s' else None | [] => None end
  end.

(* body of a string literal after the opening quote; acc holds the characters read so far, reversed *)
Fixpoint pstr (fuel : nat) (s : str) (acc : str) : option (str * str) :=
  match fuel with
  | O => None
  | S f =>
      match s with
      | [] => None
      | c :: r =>
          if c =? 34 then Some (rev acc, r)
          else if c =? 92 then
            match r with
            | [] => None
            | e :: r2 =>
                if e =? 34 then pstr f r2 (34 :: acc) else if e =? 92 then pstr f r2 (92 :: acc)
                else if e =? 47 then pstr f r2 (47 :: acc)
                else if e =? 98 then pstr f r2 (8 :: acc) else if e =? 102 then pstr f r2 (12 :: acc)
                else if e =? 110 then pstr f r2 (10 :: acc) else if e =? 114 then pstr f r2 (13 :: acc)
                else if e =? 116 then pstr f r2 (9 :: acc)
                else if e =? 117 then
                  match hex4 r2 with
                  | None => None
                  | Some (u, r3) =>
                      if (55296 <=? u) && (u <=? 56319) then
                        (* a high surrogate: joined with a following low surrogate escape *)
                        match strip_prefix [92; 117] r3 with
                        | Some r4 =>
                            match hex4 r4 with
                            | Some (v, r5) =>
                                if (56320 <=? v) && (v <=? 57343)
                                then pstr f r5 ((65536 + (u - 55296) * 1024 + (v - 56320)) :: acc)
                                else pstr f r3 (u :: acc)
                            | None => pstr f r3 (u :: acc)
                            end
                        | None => pstr f r3 (u :: acc)
                        end
                      else pstr f r3 (u :: acc)
                  end
                else None
            end
          else if c <? 32 then None            (* control characters must be escaped *)
          else pstr f r (c :: acc)
      end
  end.

Fixpoint span_digits (s : str) : str * str :=
  match s with
  | c :: r => if is_digit c then let '(a, b) := span_digits r in (c :: a, b) else ([], s)
  | [] => ([], [])
  end.

Definition digits_val (ds : str) : Z := fold_left (fun a d => 10 * a + (d - 48)) ds 0.

Definition is_nil_str (s : str) : bool := match s with [] => true | _ => false end.

(* an unsigned integer literal; a fraction or exponent part is not read here *)
Definition punum (s : str) : option (Z * str) :=
  let '(ds, rest) := span_digits s in
  match ds with
  | [] => None
  | d0 :: more =>
      if (d0 =? 48) && negb (is_nil_str more) then None      (* no leading zeros *)
      else match rest with
           | c :: _ => if (c =? 46) || (c =? 101) || (c =? 69) then None else Some (digits_val ds, rest)
           | [] => Some (digits_val ds, rest)
           end
  end.

Definition pnum (s : str) : option (Z * str) :=
  match s with
  | c :: r => if c =? 45 then match punum r with Some (z, r') => Some (- z, r') | None => None end else punum s
  | [] => None
  end.

Definition pconst (word : str) (v : json) (s : str) : option (json * str) :=
  match strip_prefix word s with Some r => Some (v, r) | None => None end.

Fixpoint pval (fuel : nat) (s : str) : option (json * str) :=
  match fuel with
  | O => None
  | S f =>
      match skip_ws s with
      | [] => None
      | c :: r =>
          if c =? 110 then pconst [117; 108; 108] JNull r
          else if c =? 116 then pconst [114; 117; 101] (JBool true) r
          else if c =? 102 then pconst [97; 108; 115; 101] (JBool false) r
          else if c =? 34 then match pstr (S (length r)) r [] with Some (x, r') => Some (JStr x, r') | None => None end
          else if c =? 91 then
            match skip_ws r with
            | c2 :: r' => if c2 =? 93 then Some (JArr [], r')
                          else match pitems f r with Some (l, r'') => Some (JArr l, r'') | None => None end
            | [] => None
            end
          else if c =? 123 then
            match skip_ws r with
            | c2 :: r' => if c2 =? 125 then Some (JObj [], r')
                          else match pmembers f r with Some (l, r'') => Some (JObj l, r'') | None => None end
            | [] => None
            end
          else match pnum (c :: r) with Some (z, r') => Some (JInt z, r') | None => None end
      end
  end
with pitems (fuel : nat) (s : str) : option (list json * str) :=
  match fuel with
  | O => None
  | S f =>
      match pval f s with
      | None => None
      | Some (x, r) =>
          match skip_ws r with
          | c :: r' =>
              if c =? 44 then match pitems f r' with Some (l, r2) => Some (x :: l, r2) | None => None end
              else if c =? 93 then Some ([x], r')
              else None
          | [] => None
          end
      end
  end
with pmembers (fuel : nat) (s : str) : option (list (str * json) * str) :=
  match fuel with
  | O => None
  | S f =>
      match skip_ws s with
      | q :: r =>
          if negb (q =? 34) then None else
          match pstr (S (length r)) r [] with
          | None => None
          | Some (k, r1) =>
              match skip_ws r1 with
              | c1 :: r2 =>
                  if negb (c1 =? 58) then None else
                  match pval f r2 with
                  | None => None
                  | Some (x, r3) =>
                      match skip_ws r3 with
                      | c :: r' =>
                          if c =? 44 then match pmembers f r' with Some (l, r4) => Some ((k, x) :: l, r4) | None => None end
                          else if c =? 125 then Some ([(k, x)], r')
                          else None
                      | [] => None
                      end
                  end
              | [] => None
              end
          end
      | [] => None
      end
  end.

(* json.loads: one value, nothing but white space after it *)
Definition jparse (s : str) : option json :=
  match pval (S (length s)) s with
  | Some (j, r) => if is_nil_str (skip_ws r) then Some j else None
  | None => None
  end.

(* structural equality of JSON trees, for the case files *)
Fixpoint json_eqb (a b : json) : bool :=
  match a, b with
  | JNull, JNull => true
  | JBool x, JBool y => Bool.eqb x y
  | JInt x, JInt y => x =? y
  | JFlt m e, JFlt m' e' => (m =? m') && (e =? e')
  | JStr x, JStr y => str_eqb x y
  | JArr l, JArr l' =>
      (fix go (l l' : list json) : bool :=
         match l, l' with [], [] => true | x :: r, y :: r' => json_eqb x y && go r r' | _, _ => false end) l l'
  | JObj l, JObj l' =>
      (fix go (l l' : list (str * json)) : bool :=
         match l, l' with
         | [], [] => true
         | (k, x) :: r, (k', y) :: r' => str_eqb k k' && json_eqb x y && go r r'
         | _, _ => false
         end) l l'
  | _, _ => false
  end.


(* the JSON file format of the dumpers: '[' + ','.join(json.dumps(row)) + ']' (no space after the commas) *)
Fixpoint print_rows (l : list json) : str :=
  match l with
  | [] => []
  | [x] => jprint x
  | x :: r => jprint x ++ 44 :: print_rows r
  end.
Definition json_file (rows : list json) : str := 91 :: print_rows rows ++ [93].
