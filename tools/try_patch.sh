#!/bin/bash
# usage: tools/try_patch.sh <patch.diff> <Cxx> [tier]   -- runs a check against a scratch copy of /repo with the patch applied
set -e
P=$(realpath "$1"); PROP=$2; TIER=${3:-quick}
D=$(mktemp -d /var/tmp/mrepo_XXXXXX)
cp -r /repo/dataflows "$D/"; [ -d /repo/data ] && ln -s /repo/data "$D/data"
(cd "$D" && patch -p1 -s < "$P") || { echo "PATCH DOES NOT APPLY"; rm -rf "$D"; exit 2; }
cd "$(dirname "$0")/.."
set +e
VERIF_REPO="$D" ./check "$PROP" --tier "$TIER" 2>&1 | grep -v "conda" | tail -6
RC=${PIPESTATUS[0]}
rm -rf "$D"
exit $RC
