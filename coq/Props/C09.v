(* C09: dump statistics describe the bytes on disk. *)
From Coq Require Import List ZArith Bool.
From DF Require Import Base.Str Base.Value IO.Dump IO.Dump_proofs.
Import ListNotations.
Open Scope Z_scope.

(* the recorded path points at the written file; the recorded byte count and hash are those
   of exactly that file (H = md5: any function) *)
Theorem C09_resource_stats_exact : forall (H : bytes -> str) desc_path rs desc_chunks r n,
  NoDup (map d_path rs) -> ~ In desc_path (map d_path rs) -> In r rs ->
  let o := run_dops (dump_ops desc_path rs desc_chunks) [] in
  let s := stat_of H r n in
  exists data, od_get o (rs_path s) = Some data /\ rs_bytes s = Z.of_nat (length data) /\ rs_hash s = H data.
Proof. exact resource_stats_exact. Qed.
Print Assumptions C09_resource_stats_exact.

Theorem C09_totals_are_sums : forall stats,
  totals stats = (fold_right Z.add 0 (map rs_bytes stats), fold_right Z.add 0 (map rs_rows stats)).
Proof. exact totals_are_sums. Qed.
Print Assumptions C09_totals_are_sums.

Theorem C09_hash_deterministic : forall (H : bytes -> str) r r' n,
  d_data r = d_data r' -> rs_hash (stat_of H r n) = rs_hash (stat_of H r' n).
Proof. exact hash_deterministic. Qed.
Print Assumptions C09_hash_deterministic.

(* counters renamed or nested with dots *)
Theorem C09_dotted_counter_set_get : forall path obj v, path <> [] -> get_attr (set_attr obj path v) path = Some v.
Proof. exact get_set_attr. Qed.
Print Assumptions C09_dotted_counter_set_get.

Theorem C09_dotted_counter_inc : forall obj path n, path <> [] ->
  get_attr (inc_attr obj path n) path = Some (JTInt ((match get_attr obj path with Some (JTInt z) => z | _ => 0 end) + n)).
Proof. exact inc_attr_adds. Qed.
Print Assumptions C09_dotted_counter_inc.
