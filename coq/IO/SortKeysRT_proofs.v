(* Reading back a line written with sort_keys=True: the value comes back with the members of every object in key order
   (vsort), i.e. as the same mapping. *)
From Coq Require Import List ZArith Bool Permutation.
From DF Require Import Base.Str Base.Str_proofs Base.Value Base.Value_proofs IO.EJson IO.EJson_proofs IO.JsonText
  IO.SortKeys IO.SortKeys_proofs.
Import ListNotations.
Open Scope Z_scope.

Fixpoint vsort (v : value) : value :=
  match v with
  | VList l => VList (map vsort l)
  | VObj l => VObj (sort_members (map (fun kv => (fst kv, vsort (snd kv))) l))
  | _ => v
  end.

Section RT.
  Variable K : rkeys.
  Variable dec_str : Z -> Z -> str.            Variable dec_parse : str -> option (Z * Z).
  Variable time_str : Z -> Z -> Z -> str.      Variable time_parse : str -> option (Z * Z * Z).
  Variable dt_str : Z -> Z -> Z -> Z -> Z -> Z -> str.
  Variable dt_parse : str -> option (Z * Z * Z * Z * Z * Z).
  Variable date_str : Z -> Z -> Z -> str.      Variable date_parse : str -> option (Z * Z * Z).
  Variable dur_str : Z -> Z -> Z -> str.       Variable dur_parse : str -> option (Z * Z * Z).

  Hypothesis dec_rt : forall m e, dec_parse (dec_str m e) = Some (m, e).
  Hypothesis time_rt : forall h mi sc, time_parse (time_str h mi sc) = Some (h, mi, sc).
  Hypothesis dt_rt : forall y mo d h mi sc, dt_parse (dt_str y mo d h mi sc) = Some (y, mo, d, h, mi, sc).
  Hypothesis date_rt : forall y mo d, date_parse (date_str y mo d) = Some (y, mo, d).
  Hypothesis dur_rt : forall d sc us, dur_parse (dur_str d sc us) = Some (d, sc, us).
  Hypothesis K_distinct :
    str_nodup [k_dec K; k_time K; k_dt K; k_date K; k_dur K; k_set K] = true.

  Notation encode := (encode K dec_str time_str dt_str date_str dur_str).
  Notation decode := (decode K dec_parse time_parse dt_parse date_parse dur_parse).
  Notation hook := (hook K dec_parse time_parse dt_parse date_parse dur_parse).

  Let rt := ejson_roundtrip K dec_str dec_parse time_str time_parse dt_str dt_parse date_str date_parse dur_str dur_parse
              dec_rt time_rt dt_rt date_rt dur_rt K_distinct.

  Theorem sorted_roundtrip : forall v, ejson_ok K v = true -> decode (jsort (encode v)) = vsort v.
  Proof.
    induction v using value_ind2; intros OK;
      try (exact (rt _ OK)).
    - (* datetime *)
      destruct tz as [[ofs [n|]]|]; exact (rt _ OK).
    - (* list *)
      cbn [EJson.encode jsort EJson.decode vsort]. f_equal. rewrite !map_map.
      cbn [ejson_ok] in OK.
      induction l as [|x l IHl]; [reflexivity|].
      cbn [forallb] in OK. apply andb_true_iff in OK as [O1 O2]. inversion H as [|? ? Hx Hl]; subst.
      cbn [map]. rewrite (Hx O1), (IHl Hl O2). reflexivity.
    - (* object *)
      cbn [EJson.encode jsort EJson.decode vsort]. cbn [ejson_ok] in OK.
      rewrite (map_sort_members json value (fun kv => (fst kv, decode (snd kv)))) by (intros [k x]; reflexivity).
      rewrite !map_map. cbn [fst snd].
      assert (E : map (fun kv : str * value => (fst kv, decode (jsort (encode (snd kv))))) l
                  = map (fun kv => (fst kv, vsort (snd kv))) l).
      { induction l as [|[k x] l IHl]; [reflexivity|].
        cbn [forallb] in OK. apply andb_true_iff in OK as [O1 O2]. apply andb_true_iff in O1 as [_ O1].
        inversion H as [|? ? Hx Hl]; subst. cbn [snd] in Hx.
        cbn [map fst snd]. rewrite (Hx O1), (IHl Hl O2). reflexivity. }
      rewrite E. apply hook_plain.
      apply forallb_forall. intros kv Hin.
      assert (In kv (map (fun kv : str * value => (fst kv, vsort (snd kv))) l)) as Hin'.
      { eapply Permutation_in; [apply Permutation_sym; apply sort_members_is_perm | exact Hin]. }
      apply in_map_iff in Hin' as [[k x] [He Hkx]]. subst kv. cbn [fst].
      rewrite forallb_forall in OK. specialize (OK _ Hkx). cbn [fst] in OK.
      apply andb_true_iff in OK as [O1 _]. exact O1.
  Qed.

  (* the value read back holds the members that were written: same keys, same (sorted) values, another order at most *)
  Theorem vsort_same_members l :
    Permutation (map (fun kv => (fst kv, vsort (snd kv))) l)
                (match vsort (VObj l) with VObj m => m | _ => [] end).
  Proof. cbn [vsort]. apply sort_members_is_perm. Qed.
End RT.
