(* C11: join computes the relational join with the documented aggregates. *)
From Coq Require Import List ZArith Bool Sorted Permutation.
From DF Require Import Base.Str Base.Lits Base.Value Proc.RowOps Proc.Fields Proc.Sort Proc.Sort_proofs Proc.Join Proc.Join_proofs Proc.JoinAgg_proofs Proc.JoinExtra_proofs Gen.Consts.
Import ListNotations.
Open Scope Z_scope.

(* Aggregates are computed over exactly the source rows that render the same key:
   what the index holds under key k after indexing any source table is the fold
   over the rows rendering k (entry_after skips every other row). *)
Theorem C11_index_holds_exactly_matching_rows : forall fs skey fo rows d n d' k,
  index_rows fs skey fo d rows n = Ok d' ->
  entry_after fs skey fo (db_get d k) k rows n = Ok (db_get d' k).
Proof. exact index_invariant. Qed.
Print Assumptions C11_index_holds_exactly_matching_rows.

(* each aggregate equals its definition over the matching non-null values *)
Theorem C11_sum : forall z zs, agg_fold GSum SNone (map VInt (z :: zs)) = Ok (SVal (VInt (zsum (z :: zs)))).
Proof. exact sum_is_sum. Qed.
Print Assumptions C11_sum.
Theorem C11_avg : forall z zs,
  agg_fold GAvg SNone (map VInt (z :: zs)) = Ok (SAvg (Z.of_nat (length (z :: zs))) (zsum (z :: zs))).
Proof. exact avg_is_sum_over_len. Qed.
Print Assumptions C11_avg.
Theorem C11_max : forall z zs, agg_fold GMax SNone (map VInt (z :: zs)) = Ok (SVal (VInt (fold_left Z.max zs z))).
Proof. exact max_is_max. Qed.
Print Assumptions C11_max.
Theorem C11_min : forall z zs, agg_fold GMin SNone (map VInt (z :: zs)) = Ok (SVal (VInt (fold_left Z.min zs z))).
Proof. exact min_is_min. Qed.
Print Assumptions C11_min.
Theorem C11_first : forall v vals, agg_fold GFirst SNone (v :: vals) = Ok (SVal v).
Proof. exact first_is_first. Qed.
Print Assumptions C11_first.
Theorem C11_last : forall st v vals, agg_fold GLast st (vals ++ [v]) = Ok (SVal v).
Proof. exact last_is_last. Qed.
Print Assumptions C11_last.
Theorem C11_count : forall v vals, agg_fold GCount SNone (v :: vals) = Ok (SCount (Z.of_nat (length (v :: vals)))).
Proof. exact count_counts. Qed.
Print Assumptions C11_count.
Theorem C11_array : forall v vals, agg_fold GArray SNone (v :: vals) = Ok (SList (v :: vals)).
Proof. exact array_collects_in_order. Qed.
Print Assumptions C11_array.

(* set: the distinct values among the matching non-null values, each once *)
Theorem C11_set : forall v vals,
  exists l, agg_fold GSet SNone (v :: vals) = Ok (SSet l) /\ NoDup l /\ (forall x, In x l <-> In x (v :: vals)).
Proof. exact set_is_the_set_of_values. Qed.
Print Assumptions C11_set.

(* counters: one entry per distinct value, holding its number of occurrences; the finaliser lists the
   entries by count, descending (a sorted permutation of the counter) *)
Theorem C11_counters : forall v vals,
  exists l, agg_fold GCounters SNone (v :: vals) = Ok (SCounter l) /\
    NoDup (map fst l) /\ (forall x, In x (map fst l) <-> In x (v :: vals)) /\
    (forall x n, In (x, n) l -> n = Z.of_nat (length (filter (veqb x) (v :: vals)))).
Proof. exact counters_count_occurrences. Qed.
Print Assumptions C11_counters.

Theorem C11_counters_listed_by_count : forall l,
  Permutation (most_common l) l /\ Sorted (fun p q => snd q <= snd p) (most_common l).
Proof. intros l. split; [apply most_common_perm|apply most_common_sorted]. Qed.
Print Assumptions C11_counters_listed_by_count.

(* median: the middle of the ascending permutation of the values (mean of the two middle ones when
   their number is even) *)
Theorem C11_median : forall z zs,
  exists srt, Permutation srt (z :: zs) /\ Sorted Z.le srt /\
    agg_fold GMedian SNone (map VInt (z :: zs)) = Ok (SList (map VInt (z :: zs))) /\
    finalise GMedian (SList (map VInt (z :: zs))) =
      (let n := Z.of_nat (length srt) in
       let mid := Z.to_nat (n / 2) in
       if n mod 2 =? 0 then exact_div (nth (mid - 1) srt 0 + nth mid srt 0) 2 else Ok (VInt (nth mid srt 0))).
Proof. exact median_is_middle_of_sorted. Qed.
Print Assumptions C11_median.

(* target rows are processed one by one, in order *)
Theorem C11_target_rows_in_order : forall fs tkey m d rows n out used,
  join_rows fs tkey m d rows n = Ok (out, used) ->
  exists each, join_each fs tkey m d rows n = Ok each /\
               out = flat_map (fun x => opt_list (fst x)) each /\
               used = flat_map (fun x => opt_list (snd x)) each /\ length each = length rows.
Proof. exact join_rows_rowwise. Qed.
Print Assumptions C11_target_rows_in_order.

Theorem C11_matched_row_extended : forall fs tkey m d r n k e extra,
  render_key tkey r n = Ok k -> db_get d k = Some e -> create_extra fs (key_list tkey) e = Ok extra ->
  join_row fs tkey m d r n = Ok (Some (rupdate r extra), Some k).
Proof. exact join_row_matched. Qed.
Print Assumptions C11_matched_row_extended.

(* inner drops unmatched target rows; the outer modes keep them with nulls *)
Theorem C11_inner_drops_unmatched : forall fs tkey m d r n k,
  is_inner m = true -> render_key tkey r n = Ok k -> db_get d k = None ->
  join_row fs tkey m d r n = Ok (None, None).
Proof. exact join_row_unmatched_inner. Qed.
Print Assumptions C11_inner_drops_unmatched.

Theorem C11_outer_keeps_unmatched_with_nulls : forall fs tkey m d r n k,
  is_inner m = false -> render_key tkey r n = Ok k -> db_get d k = None ->
  join_row fs tkey m d r n = Ok (Some (rupdate r (map (fun f => (jf_target f, rget0 r (jf_target f))) fs)), None).
Proof. exact join_row_unmatched. Qed.
Print Assumptions C11_outer_keeps_unmatched_with_nulls.

(* full-outer additionally emits one row per unmatched source key *)
Theorem C11_full_outer_one_row_per_unmatched_key : forall fs tkl d used ex,
  unused_rows fs tkl d used = Ok ex ->
  length ex = length (filter (fun ke => negb (str_in (fst ke) used)) d).
Proof. exact unused_rows_one_per_key. Qed.
Print Assumptions C11_full_outer_one_row_per_unmatched_key.

(* ... carrying the source's key values under the target's key fields, position by position (whatever the two sides call
   their key fields and in whatever order each side lists them), and the aggregates in the other fields *)
Theorem C11_full_outer_key_written_back : forall fs tkl e extra kv kvs r,
  finalise_list fs (e_fields e) = Ok extra ->
  e_key e = Some (kv :: kvs) ->
  create_extra fs tkl e = Ok r ->
  NoDup tkl -> length tkl = length (kv :: kvs) ->
  (forall i k v, nth_error tkl i = Some k -> nth_error (kv :: kvs) i = Some v -> rget r k = Some v) /\
  (forall k, ~ In k tkl -> rget r k = rget extra k).
Proof. exact extra_row_keys. Qed.
Print Assumptions C11_full_outer_key_written_back.

(* deduplication mode: exactly one aggregated row per distinct key (keys of the index are distinct and sorted) *)
Theorem C11_dedup_one_row_per_key : forall fs d rows, dedup_rows fs d = Ok rows -> length rows = length d.
Proof. exact dedup_one_row_per_key. Qed.
Print Assumptions C11_dedup_one_row_per_key.

Theorem C11_index_keys_distinct_sorted : forall fs skey src d,
  index_rows fs skey false [] src 1 = Ok d -> StronglySorted klt d.
Proof. exact dedup_keys_distinct_sorted. Qed.
Print Assumptions C11_index_keys_distinct_sorted.

(* tie to the source (regenerated): the declared type of avg/median is number, of count integer,
   of set/array/counters array; the others take the source field's type *)
Theorem C11_declared_types_from_source :
  join_field_type c_join_aggs GAvg s_integer = s_number /\ join_field_type c_join_aggs GMedian s_integer = s_number /\
  join_field_type c_join_aggs GCount s_string = s_integer /\ join_field_type c_join_aggs GSet s_string = s_array /\
  join_field_type c_join_aggs GSum s_integer = s_integer /\ join_field_type c_join_aggs GFirst s_string = s_string.
Proof. vm_compute. repeat split; reflexivity. Qed.
Print Assumptions C11_declared_types_from_source.

From Coq Require Import String.
Local Open Scope string_scope.
Example C11_nonvacuous :
  join_model [{| jf_target := s "t"; jf_source := s "v"; jf_agg := GSum |}; {| jf_target := s "n"; jf_source := s "v"; jf_agg := GCount |}]
             [inr (s "k")] [inr (s "k")] MHalfOuter
             [[(s "k", VInt 1); (s "v", VInt 2)]; [(s "k", VInt 1); (s "v", VInt 5)]; [(s "k", VInt 2); (s "v", VNull)]]
             [[(s "k", VInt 1)]; [(s "k", VInt 3)]]
  = Ok [[(s "k", VInt 1); (s "t", VInt 7); (s "n", VInt 2)]; [(s "k", VInt 3); (s "t", VNull); (s "n", VNull)]].
Proof. vm_compute. reflexivity. Qed.
