(* C03: a dumped data package loads back to the same typed data. *)
From Coq Require Import Permutation List ZArith Bool.
From DF Require Import Base.Str Base.Lits Base.Value IO.Csv IO.Csv_proofs IO.Codec IO.Codec_proofs Gen.Consts IO.RowCells IO.RowCells_proofs.
From DF Require IO.EJson IO.JsonText IO.JsonText_proofs IO.SortKeys IO.SortKeys_proofs.
Import ListNotations.
Open Scope Z_scope.

(* cell level, for every listed type: cast (stamped field) (serialise v) = v.
   Hypotheses: Python's scalar text codecs satisfy parse (print x) = x and never print the empty text. *)
Theorem C03_field_codec : forall int_str int_parse dec_str dec_parse date_str date_parse time_str time_parse
    dt_str dt_parse year_str year_parse json_str json_parse,
  (forall z, int_parse (int_str z) = Some z) -> (forall m e, dec_parse (dec_str m e) = Some (m, e)) ->
  (forall y m d, date_parse (date_str y m d) = Some (y, m, d)) ->
  (forall h mi sc, time_parse (time_str h mi sc) = Some (h, mi, sc)) ->
  (forall y mo d h mi sc, dt_parse (dt_str y mo d h mi sc) = Some (y, mo, d, h, mi, sc)) ->
  (forall z, year_parse (year_str z) = Some z) -> (forall v, json_parse (json_str v) = Some v) ->
  (forall z, int_str z <> []) -> (forall m e, dec_str m e <> []) -> (forall y m d, date_str y m d <> []) ->
  (forall h mi sc, time_str h mi sc <> []) -> (forall y mo d h mi sc, dt_str y mo d h mi sc <> []) ->
  (forall z, year_str z <> []) -> (forall v, json_str v <> []) ->
  forall t v c, typed t v = true ->
  serialise int_str dec_str date_str time_str dt_str year_str json_str t v = Some c ->
  cast_cell int_parse dec_parse date_parse time_parse dt_parse year_parse json_parse t c = Some v.
Proof. exact field_codec. Qed.
Print Assumptions C03_field_codec.

(* table level: given the CSV layer's round trip of the written cell texts (premise), header and
   typed rows come back identical and in order *)
Theorem C03_dump_load_csv : forall int_str int_parse dec_str dec_parse date_str date_parse time_str time_parse
    dt_str dt_parse year_str year_parse json_str json_parse,
  (forall z, int_parse (int_str z) = Some z) -> (forall m e, dec_parse (dec_str m e) = Some (m, e)) ->
  (forall y m d, date_parse (date_str y m d) = Some (y, m, d)) ->
  (forall h mi sc, time_parse (time_str h mi sc) = Some (h, mi, sc)) ->
  (forall y mo d h mi sc, dt_parse (dt_str y mo d h mi sc) = Some (y, mo, d, h, mi, sc)) ->
  (forall z, year_parse (year_str z) = Some z) -> (forall v, json_parse (json_str v) = Some v) ->
  (forall z, int_str z <> []) -> (forall m e, dec_str m e <> []) -> (forall y m d, date_str y m d <> []) ->
  (forall h mi sc, time_str h mi sc <> []) -> (forall y mo d h mi sc, dt_str y mo d h mi sc <> []) ->
  (forall z, year_str z <> []) -> (forall v, json_str v <> []) ->
  forall schema rows recs,
  NoDup (map fst schema) ->
  (forall r, In r rows -> rkeys r = map fst schema /\ forall n t, In (n, t) schema -> typed t (rget0 r n) = true) ->
  serialise_rows int_str dec_str date_str time_str dt_str year_str json_str schema rows = Some recs ->
  read_csv (write_csv (map fst schema :: recs)) = Ok (map fst schema :: recs) ->
  exists body, read_csv (write_csv (map fst schema :: recs)) = Ok (map fst schema :: body)
               /\ cast_rows int_parse dec_parse date_parse time_parse dt_parse year_parse json_parse schema body = Some rows.
Proof. exact dump_load_csv. Qed.
Print Assumptions C03_dump_load_csv.

(* the CSV layer itself: Python's csv reader on what Python's csv writer wrote (the recorded dialect)
   returns the written records, for every table and every cell text *)
Theorem C03_csv_layer_roundtrip : forall recs, read_csv (write_csv recs) = Ok recs.
Proof. exact csv_roundtrip. Qed.
Print Assumptions C03_csv_layer_roundtrip.

(* hence the table-level statement without the premise *)
Theorem C03_dump_load_csv_total : forall int_str int_parse dec_str dec_parse date_str date_parse time_str time_parse
    dt_str dt_parse year_str year_parse json_str json_parse,
  (forall z, int_parse (int_str z) = Some z) -> (forall m e, dec_parse (dec_str m e) = Some (m, e)) ->
  (forall y m d, date_parse (date_str y m d) = Some (y, m, d)) ->
  (forall h mi sc, time_parse (time_str h mi sc) = Some (h, mi, sc)) ->
  (forall y mo d h mi sc, dt_parse (dt_str y mo d h mi sc) = Some (y, mo, d, h, mi, sc)) ->
  (forall z, year_parse (year_str z) = Some z) -> (forall v, json_parse (json_str v) = Some v) ->
  (forall z, int_str z <> []) -> (forall m e, dec_str m e <> []) -> (forall y m d, date_str y m d <> []) ->
  (forall h mi sc, time_str h mi sc <> []) -> (forall y mo d h mi sc, dt_str y mo d h mi sc <> []) ->
  (forall z, year_str z <> []) -> (forall v, json_str v <> []) ->
  forall schema rows recs,
  NoDup (map fst schema) ->
  (forall r, In r rows -> rkeys r = map fst schema /\ forall n t, In (n, t) schema -> typed t (rget0 r n) = true) ->
  serialise_rows int_str dec_str date_str time_str dt_str year_str json_str schema rows = Some recs ->
  exists body, read_csv (write_csv (map fst schema :: recs)) = Ok (map fst schema :: body)
               /\ cast_rows int_parse dec_parse date_parse time_parse dt_parse year_parse json_parse schema body = Some rows.
Proof. exact dump_load_csv_total. Qed.
Print Assumptions C03_dump_load_csv_total.

(* the JSON file format ('[' + rows joined by commas + ']', each row json.dumps of an object): json.loads of the written
   text returns exactly the rows, for any number of rows and any float-free values with valid code points *)
Theorem C03_json_file_roundtrip : forall rows,
  JsonText_proofs.iok rows -> JsonText.jparse (JsonText.json_file rows) = Some (EJson.JArr rows).
Proof. exact JsonText_proofs.jparse_json_file. Qed.
Print Assumptions C03_json_file_roundtrip.

(* format_json.py writes every row with sort_keys=True: the file does not depend on the order of the keys in the rows
   handed to the writer, at any depth *)
Theorem C03_json_file_independent_of_key_order : forall rows rows',
  Forall2 SortKeys_proofs.jperm rows rows' ->
  JsonText.json_file (map SortKeys.jsort rows) = JsonText.json_file (map SortKeys.jsort rows').
Proof. exact SortKeys_proofs.json_file_rows_jperm. Qed.
Print Assumptions C03_json_file_independent_of_key_order.

From Coq Require Import String.
Local Open Scope string_scope.
(* tie to the source (regenerated): what the CSV dumper stamps into the descriptor is what the
   cell codecs above assume -- '' is the null text, booleans are written as True/False *)
Theorem C03_csv_stamps_from_source :
  c_csv_null = [] /\
  existsb (fun p => str_eqb (fst p) s_boolean &&
                    existsb (fun q => str_eqb (snd q) s_True) (snd p) && existsb (fun q => str_eqb (snd q) s_False) (snd p))
          c_csv_stamps = true /\
  (* numbers are declared as they are written: plain, with a decimal point and no group character *)
  (let stamped t k v := existsb (fun p => str_eqb (fst p) t && existsb (fun q => str_eqb (fst q) k && str_eqb (snd q) v) (snd p))
                                c_csv_stamps in
   stamped s_number (s "decimalChar") (s ".") && stamped s_number (s "groupChar") [] && stamped s_number (s "bareNumber") s_True
   && stamped s_integer (s "bareNumber") s_True) = true.
Proof. vm_compute. repeat split; reflexivity. Qed.
Print Assumptions C03_csv_stamps_from_source.

(* the CSV layer on a table with quotes, delimiters and line breaks in cells *)
Example C03_csv_roundtrip_example :
  let recs := [[s "id"; s "note"]; [s "1"; s "a,b"]; [s "2"; s "say ""x"""]; [s "3"; app (s "l1") (10%Z :: s "l2")]; [s ""; s ""]] in
  read_csv (write_csv recs) = Ok recs.
Proof. vm_compute. reflexivity. Qed.

(* a file dumper lays a row out under the header by field name: the cells do not depend on the order of the row's keys
   (rows are dicts), and for a row in schema order they are its values; writing the values as they come is refuted *)
Theorem C03_cells_independent_of_row_key_order : forall headers r r',
  NoDup (rkeys r) -> Permutation r r' -> row_cells headers r = row_cells headers r'.
Proof. exact row_cells_perm. Qed.
Print Assumptions C03_cells_independent_of_row_key_order.

Theorem C03_cells_of_a_row_in_schema_order : forall r, NoDup (rkeys r) -> row_cells (rkeys r) r = row_values r.
Proof. exact row_cells_in_order. Qed.
Print Assumptions C03_cells_of_a_row_in_schema_order.

Theorem C03_csv_records_independent_of_key_order : forall headers rows rows',
  Forall2 (fun r r' => NoDup (rkeys r) /\ Permutation r r') rows rows' ->
  csv_records headers rows = csv_records headers rows'.
Proof. exact csv_records_perm. Qed.
Print Assumptions C03_csv_records_independent_of_key_order.

Theorem C03_positional_writing_refuted : exists headers r r',
  NoDup (rkeys r) /\ Permutation r r' /\ row_values r = row_cells headers r /\ row_values r' <> row_cells headers r'.
Proof. exact positional_cells_refuted. Qed.
Print Assumptions C03_positional_writing_refuted.
