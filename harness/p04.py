"""C04 A failing step never yields a successful run."""
import copy
from common import *
from tracelib import *

PROP = 'C04'
PROPS_V = 'Props/C04.v'
COQ_IMPORTS = ['Base.Str', 'Base.Value', 'Frame.Events']
RULE = ('cases = representative pipelines over user steps and built-ins (filter, add_field, set_type, printer, dump_to_path, stream, '
        'checkpoint, finalizer, parallelize, load) with a raising probe inserted at every position x phase (step start / row first, '
        'middle, last / exhaustion) x exception class (generic, AssertionError, dataflows ValidationError, tableschema CastError and '
        'UniqueKeyError, SourceLoadError, an already wrapped ProcessorError), observed through results(), process() and datastream(); '
        'plus failing sources (before and after the inference sample) and a failing package phase; non-trivial = always; '
        'distinct = (pipeline, fault coordinates)'
        '; round 7: a second attempt of the same Flow object after the caught failure must fail the same way'
        '; round 8: items that are not rows (a list or tuple among dicts, a string, a number, None) inside and past the inference sample')
TRUSTED = ['Coq 8.16.1 kernel + vm_compute', 'harness/tracelib.py probes and fault injector (user-level raising steps)',
           'the event semantics of generator chains (validated by trace correspondence)']
ASSUMES = ['row_func raising inside a parallelize worker is printed and the row delivered unprocessed (documented behaviour of work()); reported here as a finding if it loses the error']

DOWN = ['filter', 'add_field', 'printer', 'dump', 'stream', 'checkpoint', 'finalizer', 'probe_row', 'set_type']


def gen_cases(rng, tier):
    reps = {'quick': 70, 'thorough': 700, 'search': 300}[tier]
    cases = []
    for i in range(reps):
        n = rng.pick([3, 5, 120])
        pre = [{'t': rng.pick(['probe_row', 'add_field', 'filter'])} for _ in range(rng.randint(0, 2))]
        post = [{'t': rng.pick(DOWN)} for _ in range(rng.randint(1, 3))]
        for st in pre + post:
            if st['t'] == 'filter':
                st['mod'] = 7
        at = rng.pick(['open', 0, n // 2, n - 1, 'end'])
        if at == 0 and any(s.get('t') == 'filter' for s in pre):
            at = 1
        failing = {'t': rng.pick(['probe_rows', 'probe_rows', 'probe_row']) if isinstance(at, int) else 'probe_rows',
                   'fail': {'at': at, 'exc': rng.pick(['generic', 'assertion', 'validation', 'cast', 'cast_nested', 'stopiteration', 'unique', 'sourceload', 'processor'])}}
        cases.append({'kind': 'fault', 'n': n, 'steps': pre + [failing] + post, 'via': rng.pick(['results', 'process', 'datastream'])})
    # systematic part: every phase x every committing observer placed after the failing step
    excs = ['generic', 'assertion', 'validation', 'cast', 'cast_nested', 'stopiteration', 'unique', 'sourceload', 'processor']
    j = 0
    # row-level user steps (driven by the framework's default per-row loop) raising each class at a middle row
    for exc in excs:
        for via in ['results', 'process']:
            cases.append({'kind': 'fault', 'n': 6, 'steps': [{'t': 'probe_row', 'fail': {'at': 3, 'exc': exc}}, {'t': 'dump'}], 'via': via})
    for obs in ['dump', 'stream', 'checkpoint', 'finalizer']:
        for n in (4, 130):
            for at in ['open', 0, n // 2, n - 1, 'end']:
                for via in ['results', 'process']:
                    failing = {'t': 'probe_rows', 'fail': {'at': at, 'exc': excs[j % len(excs)]}}
                    j += 1
                    cases.append({'kind': 'fault', 'n': n, 'steps': [{'t': 'add_field'}, failing, {'t': obs}], 'via': via})
    # failures when the whole stream is exhausted: a package function raising after the last resource,
    # a finalizer whose callback raises
    for obs in ['dump', 'stream', 'checkpoint']:
        for n in (3, 120):
            for via in ['results', 'process', 'datastream']:
                for failing in ({'t': 'probe_pkg', 'fail': {'at': 'pkg_end', 'exc': excs[j % len(excs)]}},
                                {'t': 'finalizer', 'fail': {'at': 'callback', 'exc': excs[(j + 3) % len(excs)]}}):
                    j += 1
                    cases.append({'kind': 'fault', 'n': n, 'steps': [{'t': 'probe_row'}, failing, {'t': obs}], 'via': via})
    # a flow consumed by another flow: as a (descriptor, resources iterator) pair given to load, or through sources();
    # a failure anywhere in the inner flow, its very end included, must fail the outer run, and without a failure
    # the inner flow must complete (its dumper commits)
    for how in ('tuple', 'sources'):
        for n in (3, 130):
            for at in [None, 0, n - 1, 'end']:
                for nres in (1, 2):
                    cases.append({'kind': 'nested', 'how': how, 'n': n, 'at': at, 'nres': nres,
                                  'via': ['results', 'process'][(n + nres) % 2]})
    for i in range(max(4, reps // 10)):
        cases.append({'kind': 'source_fault', 'n': rng.pick([5, 150]), 'at': rng.pick([0, 3, 99, 100, 120]),
                      'via': rng.pick(['results', 'process']), 'parallel': rng.chance(0.4)})
    # an item that is not a row (a list or tuple among dict rows, a string, a number, None), inside and past the inference sample (round 8)
    for j, item in enumerate(('item_list', 'item_str', 'item_int', 'item_none', 'item_tuple')):
        for at in (0, 3, 99, 100, 140):
            cases.append({'kind': 'source_fault', 'n': 150, 'at': at, 'via': ['results', 'process'][(j + at) % 2], 'parallel': False, 'exc': item})
    # every exception class a source may raise, inside and past the inference sample
    for j, exc in enumerate(sorted(SRC_EXCS)):
        for at in (3, 99, 100, 140):
            cases.append({'kind': 'source_fault', 'n': 150, 'at': at, 'via': ['results', 'process'][(j + at) % 2], 'parallel': False, 'exc': exc})
    return cases


SRC_EXCS = {'runtime': lambda m: RuntimeError(m), 'unicode_decode': lambda m: UnicodeDecodeError('utf-8', b'\xff', 0, 1, m),
            'unicode_encode': lambda m: UnicodeEncodeError('ascii', '\xe9', 0, 1, m), 'unicode': lambda m: UnicodeError(m),
            'oserror': lambda m: OSError(5, m), 'keyerror': lambda m: KeyError(m), 'value': lambda m: ValueError(m),
            'eof': lambda m: EOFError(m), 'lookup': lambda m: LookupError(m), 'type': lambda m: TypeError(m)}


class FailingSource:
    def __init__(self, n, at, exc='runtime'):
        self.n, self.at, self.exc = n, at, exc

    def __iter__(self):
        for i in range(self.n):
            if i == self.at and self.exc.startswith('item_'):
                # an item of the wrong kind among the rows: the source link rejects it (an assertion), the run fails
                yield {'item_list': [i, i], 'item_str': 'row %d' % i, 'item_int': i, 'item_none': None, 'item_tuple': (i, i)}[self.exc]
                continue
            if i == self.at:
                raise SRC_EXCS[self.exc]('source failed at %d' % i)
            yield {'_i': i, 'v': i}


def _pf(row):
    row['v'] += 1


class _EndFail(DF.DataStreamProcessor):
    def process_resources(self, resources):
        yield from resources
        raise RuntimeError('inner flow failed at its end')


def _row_fail(at):
    def f(row):
        if row['_i'] == at:
            raise RuntimeError('inner flow failed at row %d' % at)
    return f


def run_nested(case, wd):
    shutil.rmtree(wd, ignore_errors=True)
    os.makedirs(wd)
    inner = [[{'_i': i, 'v': i} for i in range(case['n'])] for _ in range(case['nres'])]
    inner.append(DF.dump_to_path(os.path.join(wd, 'inner')))
    if case['at'] == 'end':
        inner.append(_EndFail())
    elif case['at'] is not None:
        inner.append(_row_fail(case['at']))
    out = {'outcome': 'returned'}
    try:
        with quiet():
            if case['how'] == 'tuple':
                ds = Flow(*inner).datastream()
                first = DF.load((ds.dp.descriptor, ds.res_iter))
            else:
                first = DF.sources(Flow(*inner))
            fl = Flow(first, DF.dump_to_path(os.path.join(wd, 'outer')))
            if case['via'] == 'results':
                r = fl.results()
                out['rows'] = [len(x) for x in r[0]]
            else:
                fl.process()
    except Exception as e:
        cause = getattr(e, 'cause', None)
        out['outcome'] = ['raised', type(e).__name__, type(cause).__name__ + ':' + str(cause)[:60]]
    out['inner_descriptor'] = os.path.exists(os.path.join(wd, 'inner', 'datapackage.json'))
    out['outer_descriptor'] = os.path.exists(os.path.join(wd, 'outer', 'datapackage.json'))
    shutil.rmtree(wd, ignore_errors=True)
    return out


def run_impl(case):
    wd = os.path.join(scratch(), 'c4_%s' % digest(case))
    if case['kind'] == 'nested':
        return run_nested(case, wd)
    if case['kind'] == 'source_fault':
        shutil.rmtree(wd, ignore_errors=True)
        os.makedirs(wd)
        steps = [FailingSource(case['n'], case['at'], case.get('exc', 'runtime'))]
        if case['parallel']:
            steps.append(DF.parallelize(_pf, num_processors=2))
        steps.append(DF.dump_to_path(os.path.join(wd, 'd')))
        out = {'outcome': 'returned'}
        try:
            with quiet():
                if case['via'] == 'results':
                    r = Flow(*steps).results()
                    out['rows'] = len(r[0][0]) if r[0] else 0
                else:
                    Flow(*steps).process()
        except Exception as e:
            cause = getattr(e, 'cause', None)
            chain, c = [], cause
            while c is not None and len(chain) < 5:
                chain.append(type(c).__name__ + ':' + str(c)[:160])
                c = c.__cause__ or getattr(c, 'cause', None)
            out['outcome'] = ['raised', type(e).__name__, chain]
        out['descriptor'] = os.path.exists(os.path.join(wd, 'd', 'datapackage.json'))
        shutil.rmtree(wd, ignore_errors=True)
        return out
    return run_pipeline(case['n'], case['steps'], wd, via=case['via'])


def fault_of(case):
    for k, st in enumerate(case['steps']):
        if st.get('fail'):
            return k, st['fail']
    return None, None


def oracle(case, out):
    if case['kind'] == 'nested':
        what = 'inner flow consumed through %s' % ('load((descriptor, resources))' if case['how'] == 'tuple' else 'sources()')
        if case['at'] is None:
            if out['outcome'] != 'returned':
                return '%s: run failed without a fault: %r' % (what, out['outcome'])
            if case['via'] == 'results' and out.get('rows') != [case['n']] * case['nres']:
                return '%s: rows %r, expected %r' % (what, out.get('rows'), [case['n']] * case['nres'])
            if not out['inner_descriptor']:
                return '%s: the outer run returned but the inner flow never completed (its dump descriptor was not written)' % what
            return None
        if out['outcome'] == 'returned':
            return '%s: a step of the inner flow raised at %r but %s() returned normally' % (what, case['at'], case['via'])
        if out['outcome'][1] != 'ProcessorError':
            return '%s: raised %s, not ProcessorError' % (what, out['outcome'][1])
        if 'inner flow failed' not in out['outcome'][2]:
            return '%s: the original exception is not the cause: %r' % (what, out['outcome'][2])
        if out['outer_descriptor']:      # the inner dumper sits before the failing step: its commit is not constrained
            return '%s: the dump descriptor positioned after the failing inner flow was committed' % what
        return None
    if case['kind'] == 'source_fault':
        fails = case['at'] < case['n']
        if not fails:
            return None if out['outcome'] == 'returned' else 'run failed without a fault: %r' % (out['outcome'],)
        if out['outcome'] == 'returned':
            return 'the source raised at row %d but the run returned normally (%r rows)' % (case['at'], out.get('rows'))
        if out['outcome'][1] != 'ProcessorError':
            return 'raised %s, not ProcessorError' % out['outcome'][1]
        if case.get('exc', '').startswith('item_'):
            if not out['outcome'][2] or not out['outcome'][2][0].startswith('AssertionError:'):
                return 'an item that is not a row (%s at %d): ProcessorError.cause is not the source link\'s AssertionError: cause chain %r' % (
                    case['exc'], case['at'], out['outcome'][2])
            return 'a dump descriptor positioned after the failing source was committed' if out['descriptor'] else None
        cls = type(SRC_EXCS[case.get('exc', 'runtime')]('x')).__name__
        if not out['outcome'][2] or not out['outcome'][2][0].startswith(cls + ':') or 'source failed' not in out['outcome'][2][0]:
            return 'ProcessorError.cause is not the exception the source raised: cause chain %r' % (out['outcome'][2],)
        if out['descriptor']:
            return 'a dump descriptor positioned after the failing source was committed'
        return None
    k, fail = fault_of(case)
    reached = True
    if isinstance(fail['at'], int):
        # the failing row must actually reach the probe
        reached = fail['at'] < case['n'] and not any(st['t'] == 'filter' and fail['at'] % st['mod'] == 0 for st in case['steps'][:k])
    if not reached:
        return None if out['outcome'] == 'returned' else 'run failed although the fault position is never reached'
    if out['outcome'] == 'returned':
        return 'step %d raised %s at %r but %s returned normally' % (k + 1, fail['exc'], fail['at'], case['via'])
    if case['via'] == 'datastream':
        return None      # raw iteration of datastream(): the exception surfaces unwrapped; only results()/process() wrap
    if out['outcome'][1] != 'ProcessorError':
        return 'raised %s instead of ProcessorError' % out['outcome'][1]
    want = {'generic': 'RuntimeError', 'assertion': 'AssertionError', 'validation': 'ValidationError', 'cast': 'CastError',
            'cast_nested': 'CastError', 'stopiteration': 'StopIteration',
            'unique': 'UniqueKeyError', 'sourceload': 'SourceLoadError', 'processor': 'RuntimeError'}[fail['exc']]
    if fail['exc'] == 'stopiteration':
        # Python turns a StopIteration escaping a generator into a RuntimeError whose cause it is
        if 'StopIteration' not in (out['outcome'][4] if len(out['outcome']) > 4 else [out['outcome'][2]]):
            return 'the StopIteration the step raised is not in the cause chain %r' % (out['outcome'][2:],)
    elif out['outcome'][2] != want:
        return 'ProcessorError.cause is %s, the step raised %s' % (out['outcome'][2], want)
    if fail['exc'] == 'cast_nested' and 'with nested errors' not in (out['outcome'][3] or ''):
        return 'ProcessorError.cause is %r, not the error the step raised (one of its nested errors took its place)' % (out['outcome'][3],)
    if out.get('second_attempt') == 'returned':
        return 'step %d raised %s at %r; a second attempt with the same checkpoint directory returned normally although the failure is still there' % (
            k + 1, fail['exc'], fail['at'])
    for name, a in out['artifacts'].items():
        pos = int(''.join(ch for ch in name if ch.isdigit()))
        if pos > k + 1 and (a.get('descriptor') or a.get('committed')):
            return '%s (positioned after the failing step %d) was committed' % (name, k + 1)
    return None


def coq_term(case, out):
    if case['kind'] != 'fault' or case['via'] != 'datastream' or case['n'] > 20:
        return None
    return coq_trace_term(case['n'], case['steps'], out)


def nontrivial(case, out):
    return True


def shrinks(case):
    if case['kind'] != 'fault':
        return
    for i in range(len(case['steps'])):
        if not case['steps'][i].get('fail') and len(case['steps']) > 1:
            c = copy.deepcopy(case)
            del c['steps'][i]
            yield c
