(* json.dumps(..., sort_keys=True) as stream.py's write() calls it: the members of every object are written in the
   order of their keys (Python compares str by code point; a dict has no two equal keys).  Until now the harness sorted
   the keys before handing a tree to the printer model; here the sorting is part of the model. *)
From Coq Require Import List ZArith Bool.
From DF Require Import Base.Str Base.Value IO.EJson IO.EJsonInst IO.JsonText.
Import ListNotations.
Open Scope Z_scope.

Section Ins.
  Variable A : Type.
  Fixpoint ins_member (kv : str * A) (l : list (str * A)) : list (str * A) :=
    match l with
    | [] => [kv]
    | kx :: r => if str_ltb (fst kv) (fst kx) then kv :: l else kx :: ins_member kv r
    end.
  Definition sort_members (l : list (str * A)) : list (str * A) := fold_right ins_member [] l.
End Ins.
Arguments ins_member {A}.
Arguments sort_members {A}.

Fixpoint jsort (j : json) : json :=
  match j with
  | JArr l => JArr (map jsort l)
  | JObj l => JObj (sort_members (map (fun kv => (fst kv, jsort (snd kv))) l))
  | _ => j
  end.

(* the text stream.py writes for a tree *)
Definition sorted_text (j : json) : str := jprint (jsort j).

(* what a value looks like after stream -> unstream, with the sorting the writer does in between (cf. rt_model) *)
Definition rt_sorted (v : value) : value :=
  decode real_keys c_dec_parse c_time_parse c_dt_parse c_date_parse c_dur_parse
         (jsort (encode real_keys c_dec_str c_time_str c_dt_str c_date_str c_dur_str v)).
