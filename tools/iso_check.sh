#!/bin/bash
# usage: tools/iso_check.sh <Cxx> [tier] [repo dir]  -- runs a check from a scratch copy of /verif (for use while another check runs in /verif)
PROP=$1; TIER=${2:-quick}; REPO=${3:-/repo}
HERE=$(cd "$(dirname "$0")/.." && pwd)
V=$(mktemp -d /var/tmp/vcopy_XXXXXX)
trap 'rm -rf "$V"' EXIT
rsync -a --exclude .git --exclude replays --exclude seeded "$HERE/" "$V/"
cd "$V"
VERIF_REPO="$REPO" ./check "$PROP" --tier "$TIER" 2>&1 | grep -v conda | tail -8
if ls "$V"/replays/"$PROP"/*.json >/dev/null 2>&1; then mkdir -p /var/tmp/iso_replays; cp "$V"/replays/"$PROP"/*.json /var/tmp/iso_replays/; fi
