"""C12 sort_rows emits a stable, correctly ordered permutation."""
import copy, struct, fractions
from common import *
from flowutil import *
import dataflows as DF

PROP = 'C12'
PROPS_V = 'Props/C12.v'
COQ_IMPORTS = ['Base.Str', 'Base.Value', 'Proc.RowOps', 'Proc.Sort']
RULE = ('cases = generated tables (0-40 rows, thorough: up to 12000 rows to exceed the 10240-entry cache) with duplicate keys, '
        'negative/fractional/huge numbers and text keys x key as field list / format string / callable x reverse x '
        'batch_size; non-trivial = at least two rows with a key comparison that matters (not already sorted, or ties); '
        'distinct = distinct case digest'
        '; round 4: numeric key fields declared any/integer/number/year'
        '; round 7: infinities of both signs and magnitudes up to 1e308 / down to 5e-324'
        "; round 8: format-string keys with literal text between the fields (':' and '!' included) and fields with a format specification next to bare ones"
        '; round 9: numbers that are IntEnum members or instances of user subclasses of int/Decimal; keys that agree in their first 1100 characters')
TRUSTED = ['Coq 8.16.1 kernel + vm_compute', 'harness/p12.py printers, oracle and finding recognisers',
           'KVFile (third party) is specified as an ordered map whose items() are ascending by key; exercised at several batch sizes and above its cache size',
           'order-preservation of the sign-flipped binary64 bit image is validated by correspondence, not proved (Proc/Sort.v dbl_bits)']
ASSUMES = ['numeric keys in the modelled domain are exactly representable doubles (others: known finding C12.inexact_double)',
           'fewer than 16^8 rows', 'C12_stable_sorted_permutation carries all_pfree: no key is a proper prefix of another']

TEXT_SAFE = ['apple', 'apric', 'banan', 'Apple', 'zebra', 'éclat', 'a☃bcd', 'aaaaa', 'aaaab']      # equal length => prefix-free
TEXT_PREFIX = ['a', 'a ', 'a!', 'ab', 'abc', 'a~', 'b']
NUMS = [0, 1, -1, 2, 10, -10, 3, 100, -100, 2 ** 53, -2 ** 53, 2 ** 40 + 1,
        decimal.Decimal('2.5'), decimal.Decimal('-0.25'), decimal.Decimal('1E+3'), decimal.Decimal('0.125'),
        decimal.Decimal('-7.75'), 1.5, -2.25, 1e300, -1e-300,
        # neighbours in binary64 (differ in the last mantissa bit), both signs
        2 ** 53 - 1, 2 ** 53 - 2, -(2 ** 53 - 1), -(2 ** 53 - 2), 1.0000000000000002, -1.0000000000000002, -1.0,
        -1.0000000000000004,
        # huge magnitudes of both signs (the first hex digit of the key changes, 0 included)
        -1e300, -1e200, -4e231, 1e200, -(2 ** 800), 2 ** 800, decimal.Decimal('-1E+250'), -1.7976931348623157e308, 5e-324, -5e-324,
        # the infinities, as floats and as decimals: above and below every finite number
        float('inf'), float('-inf'), decimal.Decimal('Infinity'), decimal.Decimal('-Infinity')]


def gen_rows(rng, n, cols):
    rows = []
    for i in range(n):
        r = {'i': i}
        for name, pool in cols.items():
            r[name] = rng.pick(pool)
        rows.append(r)
    return rows


def gen_cases(rng, tier):
    n = {'quick': 140, 'thorough': 1200, 'search': 600}[tier]
    cases = []
    for i in range(n):
        k = i % 7
        nrows = rng.randint(0, 40) if rng.chance(0.8) else rng.randint(0, 4)
        rev = rng.chance(0.4)
        bs = rng.pick([1000, 1000, 7, 1, 0, 3])
        if k == 0:
            cols = {'n': rng.sample(NUMS, rng.randint(2, 8)) if rng.chance(0.6) else NUMS[-8:]}
            key = ['list', ['n']]
        elif k == 1:
            cols = {'t': rng.sample(TEXT_SAFE, rng.randint(2, 6))}
            key = ['fmt', '{t}']
        elif k == 2:
            cols = {'n': rng.sample(NUMS, rng.randint(2, 5)), 't': rng.sample(TEXT_SAFE, rng.randint(2, 4))}
            key = rng.pick([['list', ['n', 't']], ['fmt', '{n}{t}'], ['list', ['n', 'n']]])
        elif k == 3:
            cols = {'t': rng.sample(TEXT_SAFE, rng.randint(2, 6))}
            key = ['callable', 't']
        elif k == 4:
            cols = {'n': [x for x in NUMS if isinstance(x, int)][:rng.randint(3, 9)], 'm': [0, 1, -1, 5]}
            # the documented format-string forms: literal text between the fields (':' and '!' included), and a field with a
            # format specification next to a bare one (a zero-padded non-negative integer orders as the number does)
            key = rng.pick([['list', ['n', 'm']], ['list', ['n', 'm']], ['fmt', '{n}:{m}'], ['fmt', '{n}!{m}'], ['fmt', '{n} / {m}'], ['fmt', '{n}{m:03}'],
                            ['fmt', '{m:03}:{n}']])
            if ':03' in key[1]:
                cols['m'] = [0, 1, 5, 12, 107]
        elif k == 5:
            cols = {'t': rng.sample(TEXT_PREFIX, rng.randint(2, 5))}
            key = rng.pick([['list', ['t']], ['fmt', '{t}']])
        else:
            cols = {'n': rng.sample(NUMS, rng.randint(2, 6)), 'z': ['x']}
            key = ['fmt', '{n}']
        cases.append({'kind': 'sort', 'rows': rows_enc(gen_rows(rng, nrows, cols)), 'key': key, 'reverse': rev,
                      'batch_size': bs, 'names': ['i'] + list(cols)})
        if k == 4 or all(isinstance(x, int) and not isinstance(x, bool) for x in cols.get('n', ['x'])):
            # the declared type of the numeric key field: numbers compare as numbers whatever the schema calls them
            cases[-1]['ntype'] = rng.pick(['any', 'integer', 'year', 'number', 'year'])
        if k in (0, 2, 4, 6) and rng.chance(0.3):
            cases[-1]['subclass'] = True        # numbers that are instances of subclasses of int / Decimal order as numbers
        if k in (0, 4) and rng.chance(0.5):
            cases[-1]['lead'] = rows_enc([dict([('i', j)] + [(c_, rng.pick(['x', 'b', 'x1'])) for c_ in cols]) for j in range(rng.randint(1, 3))])
    for fmt_key in ('{n}:{m}', '{n}!{m}', '{n}{m:03}', '{m:03}-{n}'):
        rows_ = [{'i': j, 'n': n_, 'm': m_} for j, (n_, m_) in enumerate([(10, 1), (-3, 5), (2, 12), (-20, 0), (2, 5), (100, 1), (-3, 1)])]
        for rev in (False, True):
            cases.append({'kind': 'sort', 'rows': rows_enc(rows_), 'key': ['fmt', fmt_key], 'reverse': rev, 'batch_size': 1000, 'names': ['i', 'n', 'm']})
    # numbers as IntEnum members and user subclasses, mixed with plain ones
    rows_ = [{'i': j, 'n': n_} for j, n_ in enumerate([10, 100, 5, -20, -5, 0, 7, 1000, decimal.Decimal('2.5'), -1000])]
    for key in (['list', ['n']], ['fmt', '{n}']):
        for rev in (False, True):
            cases.append({'kind': 'sort', 'rows': rows_enc(rows_), 'key': key, 'reverse': rev, 'batch_size': 1000, 'names': ['i', 'n'], 'subclass': True})
    # keys that agree in their first 1100 characters (long text; more than sixty-four numeric key fields)
    long_rows = [{'i': j, 't': 'k' * 1100 + suf} for j, suf in enumerate(['m', 'b', 'z', 'a', 'y'])]
    for key in (['list', ['t']], ['fmt', '{t}'], ['callable', 't']):
        cases.append({'kind': 'sort', 'rows': rows_enc(long_rows), 'key': key, 'reverse': key[0] == 'fmt', 'batch_size': 1000, 'names': ['i', 't']})
    wide = ['f%02d' % q for q in range(70)]
    wide_rows = [dict([('i', j)] + [(f, 1) for f in wide[:-1]] + [(wide[-1], last)]) for j, last in enumerate([5, 3, 9, 1])]
    cases.append({'kind': 'sort', 'rows': rows_enc(wide_rows), 'key': ['list', wide], 'reverse': False, 'batch_size': 1000, 'names': ['i'] + wide})
    # above the ordered store's 10240-entry cache (the result must not depend on fitting in it), both directions
    for big, rev in ([(10241, True)] if tier != 'thorough' else [(10241, True), (10241, False), (12000, True), (12000, False)]):
        cols = {'n': list(range(-50, 50))}
        cases.append({'kind': 'sort', 'rows': rows_enc(gen_rows(rng, big, cols)), 'key': ['list', ['n']],
                      'reverse': rev, 'batch_size': 1000, 'names': ['i', 'n'], 'big': True})
    return cases


def witnesses():
    def mk(rows, key, fid):
        return {'kind': 'sort', 'rows': rows_enc([dict(r, i=j) for j, r in enumerate(rows)]), 'key': key, 'reverse': False,
                'batch_size': 1000, 'names': ['i'] + [k for k in rows[0] if k != 'i'], 'witness_of': fid}
    return [
        mk([{'t': 'a'}, {'t': 'a '}, {'t': 'a!'}], ['list', ['t']], 'C12.text_prefix_keys'),
        mk([{'n': 2 ** 53 + 1}, {'n': 2 ** 53}], ['list', ['n']], 'C12.inexact_double'),
        mk([{'n': 0.0}, {'n': -1.0}, {'n': -0.0}], ['list', ['n']], 'regression: C12.negative_zero (fixed)'),
        mk([{'n': decimal.Decimal('-0')}, {'n': -1}, {'n': 0}, {'n': -0.0}, {'n': 1e-300}], ['list', ['n']], 'regression: C12.negative_zero (fixed)'),
        mk([{'a': 'x', 'b': 'yz'}, {'a': 'xy', 'b': 'a'}], ['list', ['a', 'b']], 'C12.multi_field_concat'),
    ]


def key_fields(case):
    k = case['key']
    if k[0] == 'list':
        return list(k[1])
    if k[0] == 'fmt':
        import re
        return re.findall(r'\{([^}:!]+)', k[1])
    return [k[1]]


def step_of(case):
    k = case['key']
    if k[0] == 'list':
        key = list(k[1])
    elif k[0] == 'fmt':
        key = k[1]
    else:
        f = k[1]
        key = lambda row: row[f]
    return DF.sort_rows(key, reverse=case['reverse'], batch_size=case['batch_size'])


class _MyInt(int):
    pass


class _MyDec(decimal.Decimal):
    pass


import enum
_Level = enum.IntEnum('_Level', dict(('L%d' % (i + 1000), i) for i in range(-1000, 1001)))


def _subclassed(v):
    """the same number as an instance of a subclass of its type (an IntEnum member, a user subclass of int or Decimal)"""
    if isinstance(v, bool):
        return v
    if isinstance(v, int):
        return _Level(v) if -1000 <= v <= 1000 and v % 2 == 0 else _MyInt(v)
    if isinstance(v, decimal.Decimal):
        return _MyDec(v)
    return v


def run_impl(case):
    rows = rows_dec(case['rows'])
    if case.get('subclass'):
        rows = [dict((k, _subclassed(v) if k in ('n', 'm') else v) for k, v in r.items()) for r in rows]
    res = mk_resource('t', case['names'], rows, types=dict((n, case.get('ntype', 'any') if n in ('n', 'm') else 'any') for n in case['names']))
    rs = [res]
    if case.get('lead'):
        # another resource sorted by the same step before this one, holding text in the key fields
        rs = [mk_resource('lead', case['names'], rows_dec(case['lead']), types=dict((n, 'any') for n in case['names'])), res]
    out = run_stream(rs, [step_of(case)])
    if 'error' in out:
        return {'error': out['error'], 'exc': out['exc']}
    got = out['rows'][-1]
    if case.get('big'):
        return {'order': [r['i'] for r in got], 'n': len(got)}
    return {'rows': rows_enc(got)}


def prop_key(case, r):
    out = []
    for f in key_fields(case):
        v = r[f]
        if isinstance(v, bool):
            v = int(v)
        if isinstance(v, (float, decimal.Decimal)) and v in (float('inf'), float('-inf')):
            out.append((0, fractions.Fraction(10) ** 400 * (1 if v > 0 else -1)))
        elif isinstance(v, (int, float, decimal.Decimal)):
            out.append((0, fractions.Fraction(v)))
        else:
            out.append((1, str(v)))
    return tuple(out)


def expected_order(case):
    rows = rows_dec(case['rows'])
    idx = sorted(range(len(rows)), key=lambda i: prop_key(case, rows[i]))
    if case['reverse']:
        idx = idx[::-1]
    return idx


def got_order(case, out):
    if 'order' in out:
        return out['order']
    return [r['i'] for r in rows_dec(out['rows'])]


def oracle(case, out):
    if out.get('error') is not None:
        return 'sort_rows failed: %s' % out.get('exc')
    rows = rows_dec(case['rows'])
    got = got_order(case, out)
    if sorted(got) != list(range(len(rows))):
        return 'output is not a permutation of the input (%d rows in, %d out)' % (len(rows), len(got))
    if 'rows' in out and any(dict(r) != rows[r['i']] for r in rows_dec(out['rows'])):
        return 'a row was altered by sorting'
    exp = expected_order(case)
    if got != exp:
        # where does it first differ
        j = next(i for i in range(len(exp)) if got[i] != exp[i])
        return 'order differs from the stable sort by key at output position %d (reverse=%s, batch_size=%s)' % (
            j, case['reverse'], case['batch_size'])
    return None


# ---- faithful prediction (what the unchanged code is known to do), used only to recognise known findings
def enc_num(v):
    f = float(v)
    if f == 0:
        f = 0.0           # -0.0 is zero (repaired by fix 'sort_rows gives -0.0 the key of 0')
    b = struct.unpack('>Q', struct.pack('>d', f))[0]
    b ^= 1 << 63
    if v < 0:
        b ^= (1 << 63) - 1
    return '%016x' % b


def predict_order(case):
    rows = rows_dec(case['rows'])
    keys = []
    for i, r in enumerate(rows):
        k = ''
        for f in key_fields(case):
            v = r[f]
            k += enc_num(v) if isinstance(v, (int, float, decimal.Decimal)) else str(v)
        keys.append(k + '%08x' % i)
    idx = sorted(range(len(rows)), key=lambda i: keys[i])
    return idx[::-1] if case['reverse'] else idx


def finding(case, out, failure):
    if out.get('error') is not None:
        return None
    if got_order(case, out) != predict_order(case):
        return None           # not the known behaviour: a different violation
    rows = rows_dec(case['rows'])
    fields = key_fields(case)
    vals = [[r[f] for f in fields] for r in rows]
    flat = [v for vs in vals for v in vs]
    if any(isinstance(v, (int, decimal.Decimal)) and not isinstance(v, bool) and fractions.Fraction(float(v)) != fractions.Fraction(v) for v in flat):
        return 'C12.inexact_double'
    texts = [[str(v) for v in vs] for vs in vals]
    if len(fields) == 1:
        ks = set(t[0] for t in texts if not isinstance(vals[0][0], (int, float, decimal.Decimal)))
        if any(a != b and b.startswith(a) for a in ks for b in ks):
            return 'C12.text_prefix_keys'
    else:
        for j in range(len(fields) - 1):
            ks = set(t[j] for t, vs in zip(texts, vals) if not isinstance(vs[j], (int, float, decimal.Decimal)))
            if any(a != b and b.startswith(a) for a in ks for b in ks):
                return 'C12.multi_field_concat'
        ks = set(t[-1] for t, vs in zip(texts, vals) if not isinstance(vs[-1], (int, float, decimal.Decimal)))
        if any(a != b and b.startswith(a) for a in ks for b in ks):
            return 'C12.text_prefix_keys'
    return None


def coq_term(case, out):
    if case.get('big') or out.get('error') is not None:
        return None
    rows = rows_dec(case['rows'])
    flat = [r[f] for r in rows for f in key_fields(case)]
    for v in flat:
        if isinstance(v, (float, decimal.Decimal)) and v in (float('inf'), float('-inf')):
            return None           # the infinities are outside the binary64 model's finite values (decided by the oracle)
        if isinstance(v, (int, decimal.Decimal)) and not isinstance(v, bool) and fractions.Fraction(float(v)) != fractions.Fraction(v):
            return None
        if isinstance(v, (float, decimal.Decimal)) and v != 0 and not (1e-290 < abs(float(v)) < 1e305):
            return None
    return 'res_eqb rows_eqb (sorter 8 (key_calc %s) %s %s) (Ok %s)' % (
        cstrs(key_fields(case)), cbool(case['reverse']), crows(rows), crows(rows_dec(out['rows'])))


def coq_model_term(case):
    return 'sorter 8 (key_calc %s) %s %s' % (cstrs(key_fields(case)), cbool(case['reverse']), crows(rows_dec(case['rows'])))


def nontrivial(case, out):
    rows = rows_dec(case['rows'])
    if len(rows) < 2:
        return False
    return expected_order(case) != list(range(len(rows))) or len(set(prop_key(case, r) for r in rows)) < len(rows)


def shrinks(case):
    if case.get('big'):
        return
    for i in range(len(case['rows'])):
        c = copy.deepcopy(case)
        del c['rows'][i]
        for j, r in enumerate(c['rows']):
            for kv in r['$obj']:
                if kv[0] == 'i':
                    kv[1] = j
        yield c
