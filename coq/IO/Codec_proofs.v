From Coq Require Import List ZArith Bool Lia.
From DF Require Import Base.Str Base.Str_proofs Base.Lits Base.Value Base.Value_proofs IO.Csv IO.Csv_proofs IO.Codec.
Import ListNotations.
Open Scope Z_scope.

Section P.
  Variable int_str : Z -> str.                 Variable int_parse : str -> option Z.
  Variable dec_str : Z -> Z -> str.            Variable dec_parse : str -> option (Z * Z).
  Variable date_str : Z -> Z -> Z -> str.      Variable date_parse : str -> option (Z * Z * Z).
  Variable time_str : Z -> Z -> Z -> str.      Variable time_parse : str -> option (Z * Z * Z).
  Variable dt_str : Z -> Z -> Z -> Z -> Z -> Z -> str.
  Variable dt_parse : str -> option (Z * Z * Z * Z * Z * Z).
  Variable year_str : Z -> str.                Variable year_parse : str -> option Z.
  Variable json_str : value -> str.            Variable json_parse : str -> option value.

  (* Python's scalar text codecs: parse (print x) = x and printed text is never empty *)
  Hypothesis int_rt : forall z, int_parse (int_str z) = Some z.
  Hypothesis dec_rt : forall m e, dec_parse (dec_str m e) = Some (m, e).
  Hypothesis date_rt : forall y m d, date_parse (date_str y m d) = Some (y, m, d).
  Hypothesis time_rt : forall h mi sc, time_parse (time_str h mi sc) = Some (h, mi, sc).
  Hypothesis dt_rt : forall y mo d h mi sc, dt_parse (dt_str y mo d h mi sc) = Some (y, mo, d, h, mi, sc).
  Hypothesis year_rt : forall z, year_parse (year_str z) = Some z.
  Hypothesis json_rt : forall v, json_parse (json_str v) = Some v.
  Hypothesis int_ne : forall z, int_str z <> [].
  Hypothesis dec_ne : forall m e, dec_str m e <> [].
  Hypothesis date_ne : forall y m d, date_str y m d <> [].
  Hypothesis time_ne : forall h mi sc, time_str h mi sc <> [].
  Hypothesis dt_ne : forall y mo d h mi sc, dt_str y mo d h mi sc <> [].
  Hypothesis year_ne : forall z, year_str z <> [].
  Hypothesis json_ne : forall v, json_str v <> [].

  Notation serialise := (serialise int_str dec_str date_str time_str dt_str year_str json_str).
  Notation cast_cell := (cast_cell int_parse dec_parse date_parse time_parse dt_parse year_parse json_parse).
  Notation serialise_row := (serialise_row int_str dec_str date_str time_str dt_str year_str json_str).
  Notation cast_row_cells := (cast_row_cells int_parse dec_parse date_parse time_parse dt_parse year_parse json_parse).

  Lemma cast_nonempty t x : x <> [] -> forall v,
    (match t with
     | TString => Some (VStr x)
     | TInteger => match int_parse x with Some z => Some (VInt z) | None => None end
     | TNumber => match dec_parse x with Some (m, e) => Some (VDec m e) | None => None end
     | TBoolean => if str_eqb x s_True then Some (VBool true) else if str_eqb x s_False then Some (VBool false) else None
     | TDate => match date_parse x with Some (y, m, d) => Some (VDate y m d) | None => None end
     | TTime => match time_parse x with Some (h, mi, sc) => Some (VTime h mi sc 0) | None => None end
     | TDateTime => match dt_parse x with Some (y, mo, d, h, mi, sc) => Some (VDT y mo d h mi sc 0 None) | None => None end
     | TYear => match year_parse x with Some z => Some (VInt z) | None => None end
     | TArray | TObject => json_parse x
     end) = v -> cast_cell t x = v.
  Proof. intros N v H. unfold Codec.cast_cell. destruct x; [contradiction|exact H]. Qed.

  (* every typed value of every listed type survives serialise -> cast with the recorded field properties *)
  Theorem field_codec t v c : typed t v = true -> serialise t v = Some c -> cast_cell t c = Some v.
  Proof.
    intros T S. destruct v.
    - simpl in S. injection S as <-. reflexivity.
    - destruct t; simpl in T, S; try discriminate. injection S as <-.
      destruct b; apply cast_nonempty; try discriminate; reflexivity.
    - destruct t; simpl in T, S; try discriminate; injection S as <-.
      + apply cast_nonempty; [apply int_ne|]. rewrite int_rt. reflexivity.
      + apply cast_nonempty; [apply year_ne|]. rewrite year_rt. reflexivity.
    - destruct t; simpl in T, S; try discriminate. injection S as <-.
      apply cast_nonempty; [apply dec_ne|]. rewrite dec_rt. reflexivity.
    - destruct t; simpl in T, S; discriminate.
    - destruct t; simpl in T, S; try discriminate. destruct x; [discriminate|]. injection S as <-. reflexivity.
    - destruct t; simpl in T, S; try discriminate. injection S as <-.
      apply cast_nonempty; [apply date_ne|]. rewrite date_rt. reflexivity.
    - destruct t; simpl in T, S; try discriminate. injection S as <-. apply Z.eqb_eq in T. subst.
      apply cast_nonempty; [apply time_ne|]. rewrite time_rt. reflexivity.
    - destruct t; simpl in T, S; try discriminate. injection S as <-.
      apply andb_true_iff in T as [T1 T2]. apply Z.eqb_eq in T1. subst.
      destruct tz; [discriminate|]. apply cast_nonempty; [apply dt_ne|]. rewrite dt_rt. reflexivity.
    - destruct t; simpl in T, S; discriminate.
    - destruct t; simpl in T, S; try discriminate. injection S as <-.
      apply cast_nonempty; [apply json_ne|]. apply json_rt.
    - destruct t; simpl in T, S; try discriminate. injection S as <-.
      apply cast_nonempty; [apply json_ne|]. apply json_rt.
  Qed.

  Theorem null_codec t : serialise t VNull = Some [] /\ cast_cell t [] = Some VNull.
  Proof. split; reflexivity. Qed.

  (* row level: a row with exactly the schema's keys, all values typed, comes back identical *)
  Theorem row_codec schema : forall r cells,
    rkeys r = map fst schema -> NoDup (map fst schema) ->
    (forall n t, In (n, t) schema -> typed t (rget0 r n) = true) ->
    serialise_row schema r = Some cells ->
    cast_row_cells schema cells = Some r.
  Proof.
    induction schema as [|[n t] rest IH]; intros r cells K ND T S; simpl in *.
    - injection S as <-. destruct r; [reflexivity|discriminate].
    - destruct r as [|[k v] r]; [discriminate|]. simpl in K. injection K as -> K.
      destruct (serialise t (rget0 ((n, v) :: r) n)) as [c|] eqn:S1; [|discriminate].
      destruct (serialise_row rest ((n, v) :: r)) as [cs|] eqn:S2; [|discriminate].
      injection S as <-. inversion ND as [|? ? Hn ND']; subst.
      assert (G : rget0 ((n, v) :: r) n = v) by (unfold rget0; simpl; rewrite str_eqb_refl; reflexivity).
      rewrite G in S1. rewrite (field_codec t v c); [|rewrite <- G; apply T; left; reflexivity|exact S1].
      (* the remaining fields do not look at the first key *)
      assert (E : forall sch, ~ In n (map fst sch) -> serialise_row sch ((n, v) :: r) = serialise_row sch r).
      { induction sch as [|[n2 t2] sch IHs]; intros N2; simpl; [reflexivity|].
        assert (n2 <> n) by (intros ->; apply N2; left; reflexivity).
        unfold rget0 at 1. simpl. apply str_eqb_neq in H. rewrite H. fold (rget0 r n2).
        rewrite IHs by (intros X; apply N2; right; exact X). reflexivity. }
      rewrite E in S2 by exact Hn. rewrite (IH r cs K ND'); [reflexivity| |exact S2].
      intros n2 t2 Hin. specialize (T n2 t2 (or_intror Hin)).
      assert (n2 <> n) by (intros ->; apply Hn; apply in_map_iff; exists (n, t2); auto).
      unfold rget0 in T. simpl in T. apply str_eqb_neq in H. rewrite H in T. exact T.
  Qed.

  (* file level: given that the CSV layer round-trips the cell texts (IO/Csv.v model of Python's csv;
     premise Hcsv), a dumped table loads back to the same typed rows, in order *)
  Fixpoint serialise_rows schema (rows : list row) : option (list (list str)) :=
    match rows with
    | [] => Some []
    | r :: rs => match serialise_row schema r, serialise_rows schema rs with
                 | Some c, Some cs => Some (c :: cs) | _, _ => None end
    end.
  Fixpoint cast_rows schema (recs : list (list str)) : option (list row) :=
    match recs with
    | [] => Some []
    | c :: cs => match cast_row_cells schema c, cast_rows schema cs with
                 | Some r, Some rs => Some (r :: rs) | _, _ => None end
    end.

  Theorem rows_codec schema rows : forall recs,
    NoDup (map fst schema) ->
    (forall r, In r rows -> rkeys r = map fst schema /\ forall n t, In (n, t) schema -> typed t (rget0 r n) = true) ->
    serialise_rows schema rows = Some recs -> cast_rows schema recs = Some rows.
  Proof.
    induction rows as [|r rs IH]; intros recs ND Hrows S; simpl in *.
    - injection S as <-. reflexivity.
    - destruct (serialise_row schema r) as [c|] eqn:S1; [|discriminate].
      destruct (serialise_rows schema rs) as [cs|] eqn:S2; [|discriminate].
      injection S as <-. simpl.
      destruct (Hrows r (or_introl eq_refl)) as [K T].
      rewrite (row_codec schema r c K ND T S1).
      rewrite (IH cs ND (fun x Hx => Hrows x (or_intror Hx)) eq_refl). reflexivity.
  Qed.

  (* file level: whenever the CSV layer returns the written cell texts (premise Hcsv: the round trip of
     IO/Csv.v's model of Python's csv on this text), the dumped table loads back to the same header and the
     same typed rows, in order *)
  Theorem dump_load_csv schema rows recs :
    NoDup (map fst schema) ->
    (forall r, In r rows -> rkeys r = map fst schema /\ forall n t, In (n, t) schema -> typed t (rget0 r n) = true) ->
    serialise_rows schema rows = Some recs ->
    read_csv (write_csv (map fst schema :: recs)) = Ok (map fst schema :: recs) ->
    exists body, read_csv (write_csv (map fst schema :: recs)) = Ok (map fst schema :: body)
                 /\ cast_rows schema body = Some rows.
  Proof.
    intros ND Hrows S Hcsv. exists recs. split; [exact Hcsv|]. eapply rows_codec; eassumption.
  Qed.

  (* the same without the premise: the CSV layer round-trips every table (IO/Csv_proofs.v) *)
  Theorem dump_load_csv_total schema rows recs :
    NoDup (map fst schema) ->
    (forall r, In r rows -> rkeys r = map fst schema /\ forall n t, In (n, t) schema -> typed t (rget0 r n) = true) ->
    serialise_rows schema rows = Some recs ->
    exists body, read_csv (write_csv (map fst schema :: recs)) = Ok (map fst schema :: body)
                 /\ cast_rows schema body = Some rows.
  Proof.
    intros ND Hrows S. apply dump_load_csv; try assumption. apply csv_roundtrip.
  Qed.
End P.
