(* join, full-outer mode: the row emitted for a source key no target row matched carries the source's key values under
   the target's key fields, position by position (first source key field -> first target key field, ...), and the
   aggregates elsewhere. *)
From Coq Require Import List ZArith Bool Lia.
From DF Require Import Base.Str Base.Str_proofs Base.Value Base.Value_proofs Proc.RowOps Proc.Join.
Import ListNotations.
Open Scope Z_scope.

Lemma rkeys_combine (ks : list str) (vs : list value) : length ks = length vs -> rkeys (combine ks vs) = ks.
Proof.
  revert vs. induction ks as [|k r IH]; intros [|v vs] H; simpl in *; try discriminate; [reflexivity|].
  f_equal. apply IH. lia.
Qed.

Lemma rget_combine_nth (ks : list str) : forall (vs : list value) i k v,
  NoDup ks -> nth_error ks i = Some k -> nth_error vs i = Some v -> rget (combine ks vs) k = Some v.
Proof.
  induction ks as [|a r IH]; intros vs i k v ND Hk Hv; [destruct i; discriminate|].
  destruct vs as [|b vs]; [destruct i; discriminate|]. inversion ND as [|? ? Hn ND']; subst. simpl.
  destruct i as [|i]; simpl in *.
  - injection Hk as ->. injection Hv as ->. rewrite str_eqb_refl. reflexivity.
  - destruct (str_eqb k a) eqn:E.
    + apply str_eqb_eq in E. subst a. exfalso. apply Hn. eapply nth_error_In. exact Hk.
    + eapply IH; eassumption.
Qed.

Theorem extra_row_keys fs tkl e extra kv kvs r :
  finalise_list fs (e_fields e) = Ok extra ->
  e_key e = Some (kv :: kvs) ->
  create_extra fs tkl e = Ok r ->
  NoDup tkl -> length tkl = length (kv :: kvs) ->
  (forall i k v, nth_error tkl i = Some k -> nth_error (kv :: kvs) i = Some v -> rget r k = Some v) /\
  (forall k, ~ In k tkl -> rget r k = rget extra k).
Proof.
  intros F K C ND L. unfold create_extra in C. rewrite F, K in C. injection C as <-. split.
  - intros i k v Hk Hv. apply rget_rupdate_in.
    + rewrite rkeys_combine by exact L. exact ND.
    + eapply rget_combine_nth; eassumption.
  - intros k N. apply rget_rupdate_notin. rewrite rkeys_combine by exact L. exact N.
Qed.
