"""Shared machinery of the /verif checks: Coq literal printing, running case
files through coqc, building the proof cone, verdict logic, evidence."""
import os, sys, re, json, time, subprocess, hashlib, random, datetime, decimal, shutil, tempfile, traceback
from concurrent.futures import ThreadPoolExecutor

VERIF = os.path.dirname(os.path.dirname(os.path.abspath(__file__)))
COQ = os.path.join(VERIF, 'coq')
REPO = os.environ.get('VERIF_REPO', '/repo')
SCRATCH_BASE = os.environ.get('VERIF_SCRATCH', '/var/tmp')
PY = '/venv/bin/python'


# ----------------------------------------------------------------------------
# scratch
_scratch = None


def scratch():
    global _scratch
    if _scratch is None:
        _scratch = tempfile.mkdtemp(prefix='verif_', dir=SCRATCH_BASE)
    return _scratch


def cleanup_scratch():
    global _scratch
    if _scratch and os.path.isdir(_scratch):
        shutil.rmtree(_scratch, ignore_errors=True)
    _scratch = None


# ----------------------------------------------------------------------------
# JSON encoding of Python values for replay files
def enc(v):
    if v is None or isinstance(v, (bool, int, str)):
        return v
    if isinstance(v, float):
        return {'$float': v.hex()}
    if isinstance(v, decimal.Decimal):
        return {'$dec': str(v)}
    if isinstance(v, datetime.datetime):
        off = v.utcoffset()
        return {'$datetime': v.replace(tzinfo=None).isoformat(),
                '$tz': None if off is None else [off.days * 86400 + off.seconds, v.tzname()]}
    if isinstance(v, datetime.date):
        return {'$date': v.isoformat()}
    if isinstance(v, datetime.time):
        return {'$time': v.isoformat()}
    if isinstance(v, datetime.timedelta):
        return {'$dur': [v.days, v.seconds, v.microseconds]}
    if isinstance(v, (list, tuple)):
        return [enc(x) for x in v]
    if isinstance(v, (set, frozenset)):
        return {'$set': sorted([enc(x) for x in v], key=lambda x: json.dumps(x, sort_keys=True))}
    if isinstance(v, dict):
        return {'$obj': [[k, enc(x)] for k, x in v.items()]}
    return {'$repr': repr(v)}


def dec(v):
    if isinstance(v, list):
        return [dec(x) for x in v]
    if isinstance(v, dict):
        if '$float' in v:
            return float.fromhex(v['$float'])
        if '$dec' in v:
            return decimal.Decimal(v['$dec'])
        if '$datetime' in v:
            d = datetime.datetime.fromisoformat(v['$datetime'])
            if v.get('$tz') is not None:
                ofs, name = v['$tz']
                d = d.replace(tzinfo=datetime.timezone(datetime.timedelta(seconds=ofs), name))
            return d
        if '$date' in v:
            return datetime.date.fromisoformat(v['$date'])
        if '$time' in v:
            return datetime.time.fromisoformat(v['$time'])
        if '$dur' in v:
            return datetime.timedelta(days=v['$dur'][0], seconds=v['$dur'][1], microseconds=v['$dur'][2])
        if '$set' in v:
            return set(dec(x) for x in v['$set'])
        if '$obj' in v:
            return dict((k, dec(x)) for k, x in v['$obj'])
        if '$repr' in v:
            return v
        return dict((k, dec(x)) for k, x in v.items())
    return v


# ----------------------------------------------------------------------------
# Gallina literal printing
def cZ(n):
    n = int(n)
    return '(%d)' % n if n < 0 else '%d' % n


def cnat(n):
    return '%d%%nat' % int(n)


def cbool(b):
    return 'true' if b else 'false'


def cstr(x):
    """Python str -> Gallina term of type str (list Z of code points)."""
    if all(32 <= ord(c) <= 126 for c in x) and len(x) > 0:
        return '(s "%s")' % x.replace('"', '""')
    return '[' + '; '.join(str(ord(c)) for c in x) + ']'


def clist(items):
    return '[' + '; '.join(items) + ']'


def copt(x, f):
    return 'None' if x is None else '(Some %s)' % f(x)


def cpair(a, b):
    return '(%s, %s)' % (a, b)


class Unrepresentable(Exception):
    pass


def cval(v):
    """Python value -> Gallina term of type value."""
    if v is None:
        return 'VNull'
    if isinstance(v, bool):
        return '(VBool %s)' % cbool(v)
    if isinstance(v, int):
        return '(VInt %s)' % cZ(v)
    if isinstance(v, decimal.Decimal):
        if not v.is_finite():
            raise Unrepresentable(repr(v))
        sign, digits, exp = v.as_tuple()
        m = int(''.join(map(str, digits)) or '0')
        if sign:
            m = -m
        return '(VDec %s %s)' % (cZ(m), cZ(exp))
    if isinstance(v, float):
        if v != v or v in (float('inf'), float('-inf')):
            raise Unrepresentable(repr(v))
        num, den = v.as_integer_ratio()
        e = -(den.bit_length() - 1)
        if e == 0 and num != 0:
            while num % 2 == 0:
                num //= 2
                e += 1
        return '(VFlt %s %s)' % (cZ(num), cZ(e))
    if isinstance(v, str):
        return '(VStr %s)' % cstr(v)
    if isinstance(v, datetime.datetime):
        off = v.utcoffset()
        if off is None:
            tz = 'None'
        else:
            name = v.tzname()
            tz = '(Some (%s, %s))' % (cZ(off.days * 86400 + off.seconds), copt(name, cstr))
        return '(VDT %s %s %s %s %s %s %s %s)' % (cZ(v.year), cZ(v.month), cZ(v.day), cZ(v.hour),
                                                 cZ(v.minute), cZ(v.second), cZ(v.microsecond), tz)
    if isinstance(v, datetime.date):
        return '(VDate %s %s %s)' % (cZ(v.year), cZ(v.month), cZ(v.day))
    if isinstance(v, datetime.time):
        if v.tzinfo is not None:
            raise Unrepresentable(repr(v))
        return '(VTime %s %s %s %s)' % (cZ(v.hour), cZ(v.minute), cZ(v.second), cZ(v.microsecond))
    if isinstance(v, datetime.timedelta):
        return '(VDur %s %s %s)' % (cZ(v.days), cZ(v.seconds), cZ(v.microseconds))
    if isinstance(v, (list, tuple)):
        return '(VList %s)' % clist([cval(x) for x in v])
    if isinstance(v, dict):
        return '(VObj %s)' % clist([cpair(cstr(k), cval(x)) for k, x in v.items()])
    raise Unrepresentable(repr(v))


def crow(r):
    return clist([cpair(cstr(k), cval(v)) for k, v in r.items()])


def crows(rows):
    return clist([crow(r) for r in rows])


def cstrs(l):
    return clist([cstr(x) for x in l])


def cjson(t):
    """Gallina literal of a parsed JSON text (objects as ('obj', pairs)); None if it holds a float"""
    if t is None:
        return 'JNull'
    if isinstance(t, bool):
        return '(JBool %s)' % cbool(t)
    if isinstance(t, int):
        return '(JInt %s)' % cZ(t)
    if isinstance(t, float):
        return None
    if isinstance(t, str):
        return '(JStr %s)' % cstr(t)
    if isinstance(t, list):
        xs = [cjson(x) for x in t]
        return None if any(x is None for x in xs) else '(JArr %s)' % clist(xs)
    if isinstance(t, tuple) and t[0] == 'obj':
        xs = [(k, cjson(x)) for k, x in t[1]]
        return None if any(x is None for _, x in xs) else '(JObj %s)' % clist([cpair(cstr(k), x) for k, x in xs])
    return None


def cres(x, f):
    """x is ('ok', payload) or ('err', code)"""
    if x[0] == 'ok':
        return '(Ok %s)' % f(x[1])
    return '(Err %s)' % cZ(x[1])


# error classes -> model error codes (RowOps.v E_*)
E_KEY, E_TYPE, E_ASSERT, E_VALUE, E_OTHER = 1, 2, 3, 4, 9


def err_code(exc):
    c = exc
    # unwrap ProcessorError
    while hasattr(c, 'cause') and c.cause is not None and type(c).__name__ == 'ProcessorError':
        c = c.cause
    if isinstance(c, KeyError):
        return E_KEY
    if isinstance(c, TypeError):
        return E_TYPE
    if isinstance(c, AssertionError):
        return E_ASSERT
    if isinstance(c, ValueError):
        return E_VALUE
    return E_OTHER


# ----------------------------------------------------------------------------
# Coq build and case evaluation
def sh(cmd, timeout=600, cwd=None, env=None):
    try:
        p = subprocess.run(cmd, shell=isinstance(cmd, str), cwd=cwd, env=env, timeout=timeout,
                           stdout=subprocess.PIPE, stderr=subprocess.STDOUT, text=True)
        return p.returncode, p.stdout
    except subprocess.TimeoutExpired as e:
        return 124, (e.stdout or '') + '\nTIMEOUT'


def gen_consts():
    rc, out = sh([PY, os.path.join(VERIF, 'harness', 'gen_consts.py')], cwd=COQ,
                 env=dict(os.environ, PYTHONPATH=REPO, PYTHONHASHSEED='0'))
    return rc == 0, out


def ensure_makefile():
    mk = os.path.join(COQ, 'Makefile.coq')
    if (not os.path.exists(mk)) or os.path.getmtime(mk) < os.path.getmtime(os.path.join(COQ, '_CoqProject')):
        sh('coq_makefile -f _CoqProject -o Makefile.coq', cwd=COQ)


_DEPS = None


def dep_graph():
    global _DEPS
    if _DEPS is None:
        rc, out = sh('coqdep -Q . DF $(grep "\\.v$" _CoqProject)', cwd=COQ)
        deps = {}
        for line in out.splitlines():
            if ':' not in line:
                continue
            lhs, rhs = line.split(':', 1)
            tgt = [t for t in lhs.split() if t.endswith('.vo')]
            if not tgt:
                continue
            src = tgt[0][:-1]
            deps[src] = [d[:-1] for d in rhs.split() if d.endswith('.vo')]
        _DEPS = deps
    return _DEPS


def cone_of(vfile):
    """transitive dependency cone (list of .v files, relative to COQ) of a .v file"""
    deps = dep_graph()
    seen, todo = [], [vfile]
    while todo:
        f = todo.pop()
        if f in seen:
            continue
        seen.append(f)
        todo.extend(deps.get(f, []))
    return sorted(seen)


def up_to_date(vfile):
    """the .vo exists and is newer than every source in the file's own cone"""
    vo = os.path.join(COQ, vfile + 'o')
    if not os.path.exists(vo):
        return False
    t = os.path.getmtime(vo)
    for f in cone_of(vfile):
        p = os.path.join(COQ, f)
        if os.path.exists(p) and os.path.getmtime(p) > t + 1e-6:
            return False
    return True


STMT_RE = re.compile(r'^\s*(?:Local\s+|Global\s+)?(Theorem|Lemma|Corollary|Example|Fact|Remark|Proposition)\s+([A-Za-z0-9_\']+)', re.M)
FORBIDDEN = re.compile(r'\b(Admitted|admit|Axiom|Parameter|Conjecture|bypass_check|Admit Obligations)\b|Unset Guard|type-in-type|impredicative-set|Unset Universe|Unset Positivity')


def strip_comments(text):
    out, depth, i = [], 0, 0
    while i < len(text):
        if text.startswith('(*', i):
            depth += 1
            i += 2
        elif text.startswith('*)', i) and depth > 0:
            depth -= 1
            i += 2
        else:
            if depth == 0:
                out.append(text[i])
            i += 1
    return ''.join(out)


def build_cone(props_v, timeout=1500):
    """Builds Props/Cxx.vo and everything it depends on.  Returns a dict with
    obligations/discharged counts, assumptions text, failure info."""
    t0 = time.time()
    ok_c, out_c = gen_consts()
    ensure_makefile()
    target = props_v[:-2] + '.vo'
    cmd = 'timeout %d make -f Makefile.coq -j16 %s' % (timeout, target)
    rc, out = sh(cmd, cwd=COQ, timeout=timeout + 30)
    cone = cone_of(props_v)
    obligations, discharged, names, forbidden = 0, 0, [], []
    for f in cone:
        p = os.path.join(COQ, f)
        if not os.path.exists(p):
            continue
        text = strip_comments(open(p).read())
        for m in FORBIDDEN.finditer(text):
            forbidden.append('%s: %s' % (f, m.group(0)))
        stm = STMT_RE.findall(text)
        obligations += len(stm)
        if up_to_date(f):
            discharged += len(stm)
            if f == props_v:
                names = [n for _, n in stm]
    failed = None
    m = re.search(r'File "\./([^"]+)", line (\d+)[^\n]*\n(Error:?[^\n]*(?:\n[^\n]+){0,6})', out)
    if rc != 0:
        failed = {'file': m.group(1) if m else '?', 'line': int(m.group(2)) if m else 0,
                  'message': (m.group(3) if m else out[-1500:])[:1500]}
    # Print Assumptions output of the property file (re-run the single file to capture it)
    assumptions = []
    if rc == 0:
        rc2, out2 = sh('coqc -Q . DF %s' % props_v, cwd=COQ, timeout=600)
        cur = []
        for line in out2.splitlines():
            if line.startswith('Closed under the global context'):
                assumptions.append('closed')
            elif line.startswith('Axioms:'):
                cur = ['Axioms:']
                assumptions.append(cur)
            elif cur and line.strip():
                cur.append(line.strip())
        assumptions = [a if isinstance(a, str) else ' '.join(a) for a in assumptions]
    if forbidden:
        rc = rc or 3
        failed = failed or {'file': forbidden[0], 'line': 0, 'message': 'forbidden construct: ' + '; '.join(forbidden)}
    return {'ok': rc == 0 and ok_c, 'consts_ok': ok_c, 'consts_log': '' if ok_c else out_c[-1500:],
            'checker_cmd': 'cd /verif/coq && ' + cmd, 'cone': cone, 'obligations': obligations,
            'discharged': discharged, 'theorems': names, 'assumptions': assumptions, 'failed': failed,
            'wall_s': round(time.time() - t0, 1)}


BAD_RE = re.compile(r'(\d+)%nat')


def run_cases(tag, imports, items, shard=400, timeout=900, prelude=''):
    """items: list of (id:int, gallina bool term).  Returns (set of ids whose term
    evaluated to false, error text or None)."""
    if not items:
        return set(), None
    d = os.path.join(COQ, 'cases')
    os.makedirs(d, exist_ok=True)
    for f in os.listdir(d):
        if f.startswith(tag + '_'):
            os.remove(os.path.join(d, f))
    files = []
    for si in range(0, len(items), shard):
        chunk = items[si:si + shard]
        name = '%s_%d' % (tag, si // shard)
        body = ['From Coq Require Import List ZArith Bool String.',
                'From DF Require Import %s.' % ' '.join(imports),
                'Import ListNotations.', 'Open Scope Z_scope.', prelude,
                'Definition cases : list (nat * bool) := [']
        body.append(';\n'.join('  (%d%%nat, %s)' % (i, t) for i, t in chunk))
        body.append('].')
        body.append('Definition bad := map fst (filter (fun p => negb (snd p)) cases).')
        body.append('Eval vm_compute in bad.')
        p = os.path.join(d, name + '.v')
        open(p, 'w').write('\n'.join(body) + '\n')
        files.append((name, [i for i, _ in chunk]))

    def one(nf):
        name, ids = nf
        rc, out = sh('ulimit -s unlimited 2>/dev/null; timeout %d coqc -Q . DF cases/%s.v' % (timeout, name), cwd=COQ, timeout=timeout + 30)
        return name, ids, rc, out
    bad, err = set(), None
    with ThreadPoolExecutor(max_workers=14) as ex:
        for name, ids, rc, out in ex.map(one, files):
            if rc != 0:
                err = (err or '') + '\n[%s] rc=%d\n%s' % (name, rc, out[-2000:])
                continue
            m = re.search(r'=\s*\[(.*?)\]\s*:\s*list nat', out, re.S)
            if not m:
                err = (err or '') + '\n[%s] unparseable output\n%s' % (name, out[-1000:])
                continue
            bad.update(int(x) for x in BAD_RE.findall(m.group(1)))
    for f in os.listdir(d):
        if f.startswith(tag + '_') and not f.endswith('.v'):
            try:
                os.remove(os.path.join(d, f))
            except OSError:
                pass
    return bad, err


def eval_terms(tag, imports, terms, timeout=300, prelude=''):
    """Evaluate Gallina terms with vm_compute and return coqc's printed text (replay mode)."""
    d = os.path.join(COQ, 'cases')
    os.makedirs(d, exist_ok=True)
    body = ['From Coq Require Import List ZArith Bool String.',
            'From DF Require Import %s.' % ' '.join(imports),
            'Import ListNotations.', 'Open Scope Z_scope.', prelude]
    for t in terms:
        body.append('Eval vm_compute in (%s).' % t)
    p = os.path.join(d, tag + '_eval.v')
    open(p, 'w').write('\n'.join(body) + '\n')
    rc, out = sh('timeout %d coqc -Q . DF cases/%s_eval.v' % (timeout, tag), cwd=COQ, timeout=timeout + 30)
    return rc, out


# ----------------------------------------------------------------------------
# known findings
def load_findings():
    p = os.path.join(VERIF, 'known_findings.json')
    if not os.path.exists(p):
        return []
    return json.load(open(p))['findings']


def open_findings(prop):
    return {f['id']: f for f in load_findings() if f['property'] == prop and f['status'] == 'open'}


# ----------------------------------------------------------------------------
def digest(obj):
    return hashlib.sha1(json.dumps(obj, sort_keys=True, default=str).encode()).hexdigest()[:12]


def write_replay(prop, payload):
    d = os.path.join(VERIF, 'replays', prop)
    os.makedirs(d, exist_ok=True)
    p = os.path.join(d, digest(payload) + '.json')
    json.dump(payload, open(p, 'w'), indent=1, default=str)
    return p


def write_evidence(prop, ev):
    d = os.path.join(VERIF, 'evidence')
    os.makedirs(d, exist_ok=True)
    json.dump(ev, open(os.path.join(d, prop + '.json'), 'w'), indent=1, default=str)


class Rng(random.Random):
    def pick(self, seq):
        return seq[self.randrange(len(seq))]

    def chance(self, p):
        return self.random() < p


# ----------------------------------------------------------------------------
def fork_map(fn, args, workers=12, timeout=120):
    """Run fn(arg) in forked children of this (already initialised) process; the child's
    JSON-serialisable return value comes back through a pipe.  A child that exits early
    (e.g. os._exit at an injected kill point) yields (exit_code, None)."""
    import select
    results = [None] * len(args)
    pending = list(enumerate(args))
    running = {}          # pid -> (index, read fd, buffer, start time)
    while pending or running:
        while pending and len(running) < workers:
            i, a = pending.pop(0)
            r, w = os.pipe()
            sys.stdout.flush()
            pid = os.fork()
            if pid == 0:
                code = 0
                try:
                    os.close(r)
                    res = fn(a)
                    os.write(w, json.dumps(res, default=str).encode())
                except SystemExit as e:
                    code = int(e.code or 0)
                except BaseException as e:
                    try:
                        os.write(w, json.dumps({'child_exception': '%s: %s' % (type(e).__name__, e)}).encode())
                    except Exception:
                        pass
                    code = 3
                finally:
                    os._exit(code)
            os.close(w)
            running[pid] = (i, r, [], time.time())
        # drain pipes
        fds = [v[1] for v in running.values()]
        ready, _, _ = select.select(fds, [], [], 0.05)
        for pid, (i, r, buf, t0) in list(running.items()):
            if r in ready:
                data = os.read(r, 1 << 16)
                if data:
                    buf.append(data)
                    continue
                # EOF
                os.close(r)
                _, status = os.waitpid(pid, 0)
                code = os.waitstatus_to_exitcode(status)
                text = b''.join(buf).decode() if buf else ''
                results[i] = (code, json.loads(text) if text else None)
                del running[pid]
            elif time.time() - t0 > timeout:
                try:
                    os.kill(pid, 9)
                except OSError:
                    pass
                os.close(r)
                os.waitpid(pid, 0)
                results[i] = (124, None)
                del running[pid]
    return results
