(* C05: observers are transparent and capture the complete stream at their position. *)
From Coq Require Import List ZArith Bool.
From DF Require Import Base.Str Base.Value Frame.Events Frame.Events_proofs.
Import ListNotations.
Local Open Scope nat_scope.

Theorem C05_observer_rows_transparent : forall k s, rows_of (lmap (g_observe k) s) = rows_of s.
Proof. exact observer_rows_transparent. Qed.
Print Assumptions C05_observer_rows_transparent.

Theorem C05_committing_observer_transparent : forall k s, rows_of (committing k s) = rows_of s.
Proof. exact committing_rows_transparent. Qed.
Print Assumptions C05_committing_observer_transparent.

Theorem C05_finalizer_transparent : forall k s, rows_of (finalizing k s) = rows_of s.
Proof. exact finalizing_rows_transparent. Qed.
Print Assumptions C05_finalizer_transparent.

(* what the observer records is the full stream at its position: one record per row that reaches it *)
Theorem C05_observer_complete : forall k s,
  (forall e, In e s -> match e with EEff k' _ => k' <> k | _ => True end) ->
  records k (lmap (g_observe k) s) = length (rows_of s).
Proof. exact observer_complete. Qed.
Print Assumptions C05_observer_complete.

(* a finalizer fires exactly once, after the last row has passed it *)
Theorem C05_finalizer_once_after_last : forall k s, finalizing k s = s ++ [EEff k 5].
Proof. exact finalizer_once_after_last. Qed.
Print Assumptions C05_finalizer_once_after_last.

(* ... and not at all when the run fails while rows are still flowing: the callback is not among the things that happen *)
Theorem C05_finalizer_silent_when_run_fails : forall kf a k x b,
  no_fail a -> drive (finalizing kf (a ++ EFail k x :: b)) = (a, Raised k x).
Proof. exact finalizer_silent_on_failure. Qed.
Print Assumptions C05_finalizer_silent_when_run_fails.

(* the commit of an observer happens once, at the end, when nothing fails *)
Theorem C05_commit_at_end : forall kc s,
  no_fail s -> drive (committing kc s) = (lmap (g_observe kc) s ++ [EEff kc 4], Returned).
Proof. exact commit_at_end. Qed.
Print Assumptions C05_commit_at_end.
