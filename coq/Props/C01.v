(* C01: lazy chained execution equals step-by-step evaluation of the same steps. *)
From Coq Require Import List ZArith Bool.
From DF Require Import Base.Str Base.Value Frame.Events Frame.Events_proofs.
Import ListNotations.
Local Open Scope nat_scope.

(* the outcome does not depend on how the steps are grouped into nested Flows or wrapped in
   always-true conditionals: any link list behaves like its flattening *)
Theorem C01_chain_flatten : forall ls s, chain ls s = chain (flatten ls) s.
Proof. exact chain_flatten. Qed.
Print Assumptions C01_chain_flatten.

Theorem C01_nested_flow_is_inline : forall ls s, chain_link (LFlow ls) s = chain ls s.
Proof. exact chain_link_flow. Qed.
Print Assumptions C01_nested_flow_is_inline.

Theorem C01_true_conditional_is_inline : forall ls s, chain_link (LCond true ls) s = chain ls s.
Proof. exact chain_link_cond_true. Qed.
Print Assumptions C01_true_conditional_is_inline.

Theorem C01_split_anywhere : forall a b s, chain (a ++ b) s = chain b (chain a s).
Proof. exact chain_app. Qed.
Print Assumptions C01_split_anywhere.

(* a link the framework cannot interpret is rejected, at any nesting depth, never silently skipped *)
Theorem C01_uninterpretable_link_rejected : forall ls s, In LBad (flatten ls) -> chain ls s = None.
Proof. exact bad_link_rejected. Qed.
Print Assumptions C01_uninterpretable_link_rejected.

(* the rows leaving a lazily evaluated row-wise step are the step's pure function applied to the
   fully materialised rows that enter it -- for every stream, whatever effects are interleaved *)
Theorem C01_lazy_row_step : forall k f s, rows_of (lmap (g_row k f) s) = map f (rows_of s).
Proof. exact lazy_row_step. Qed.
Print Assumptions C01_lazy_row_step.
Theorem C01_lazy_filter_step : forall k c s, rows_of (lmap (g_filter k c) s) = filter c (rows_of s).
Proof. exact lazy_filter_step. Qed.
Print Assumptions C01_lazy_filter_step.
Theorem C01_lazy_expanding_step : forall k f s, rows_of (lmap (g_many k f) s) = flat_map f (rows_of s).
Proof. exact lazy_many_step. Qed.
Print Assumptions C01_lazy_expanding_step.
