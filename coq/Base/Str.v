(* Strings as lists of Unicode code points (Z).  Python's str comparison is
   lexicographic by code point; that is [str_ltb]. *)
From Coq Require Import List ZArith Bool Lia String Ascii.
Import ListNotations.
Open Scope Z_scope.

Definition str := list Z.

Fixpoint str_eqb (a b : str) : bool :=
  match a, b with
  | [], [] => true
  | x :: a', y :: b' => (x =? y) && str_eqb a' b'
  | _, _ => false
  end.

Fixpoint str_ltb (a b : str) : bool :=
  match a, b with
  | [], [] => false
  | [], _ :: _ => true
  | _ :: _, [] => false
  | x :: a', y :: b' => (x <? y) || ((x =? y) && str_ltb a' b')
  end.

Definition str_leb (a b : str) : bool := negb (str_ltb b a).

(* ASCII literal helper used by the generated case files: [s "abc"]. *)
Fixpoint s (x : string) : str :=
  match x with
  | EmptyString => []
  | String c r => Z.of_nat (nat_of_ascii c) :: s r
  end.

Fixpoint is_prefix (a b : str) : bool :=
  match a, b with
  | [], _ => true
  | x :: a', y :: b' => (x =? y) && is_prefix a' b'
  | _ :: _, [] => false
  end.

Definition str_in (x : str) (l : list str) : bool := existsb (str_eqb x) l.

Fixpoint str_nodup (l : list str) : bool :=
  match l with
  | [] => true
  | x :: r => negb (str_in x r) && str_nodup r
  end.

(* hexadecimal, fixed width: Python's '{:08x}'.format(n) for 0 <= n < 16^w *)
Definition hex_digit (d : Z) : Z := if d <? 10 then 48 + d else 87 + d.

Fixpoint hexw (w : nat) (n : Z) : str :=
  match w with
  | O => []
  | S w' => hexw w' (n / 16) ++ [hex_digit (n mod 16)]
  end.

(* decimal rendering of a non-negative integer with fuel; [str(int)] *)
Fixpoint dec_digits (fuel : nat) (n : Z) (acc : str) : str :=
  match fuel with
  | O => acc
  | S f => if n <? 10 then (48 + n) :: acc
           else dec_digits f (n / 10) ((48 + n mod 10) :: acc)
  end.

Definition str_of_Z (z : Z) : str :=
  if z <? 0 then 45 :: dec_digits (S (Z.to_nat (Z.log2 (- z)))) (- z) []
  else dec_digits (S (Z.to_nat (Z.log2 z))) z [].
