"""Regular expressions of the modelled fragment: pattern text -> AST -> Gallina (Base/Regex.v).
Used to let the Coq matcher itself (proved to decide the language, Base/Regex_proofs.v) take the place of match
tables computed by Python's re wherever the pattern lies in the fragment."""
import re
from common import cbool, clist


class Unsupported(Exception):
    pass


def parse(p):
    pos = [0]

    def peek():
        return p[pos[0]] if pos[0] < len(p) else None

    def alt():
        left = seq()
        while peek() == '|':
            pos[0] += 1
            left = ['alt', left, seq()]
        return left

    def seq():
        items = []
        while peek() is not None and peek() not in '|)':
            items.append(post())
        if not items:
            return ['eps']
        out = items[-1]
        for it in reversed(items[:-1]):
            out = ['seq', it, out]
        return out

    def post():
        a = atom()
        while peek() is not None and peek() in '*+?':
            op = peek()
            pos[0] += 1
            if peek() in ('?', '+'):
                raise Unsupported('lazy/possessive quantifier')
            a = [{'*': 'star', '+': 'plus', '?': 'opt'}[op], a]
        return a

    def atom():
        c = peek()
        pos[0] += 1
        if c == '.':
            return ['any']
        if c == '(':
            if peek() == '?':
                raise Unsupported('group extension')
            a = alt()
            if peek() != ')':
                raise Unsupported('unbalanced')
            pos[0] += 1
            return a
        if c == '[':
            neg = peek() == '^'
            if neg:
                pos[0] += 1
            rs = []
            first = True
            while peek() is not None and (peek() != ']' or first):
                a = peek()
                if a == '\\' or a == '[':
                    raise Unsupported('escape in class')
                first = False
                if pos[0] + 2 < len(p) and p[pos[0] + 1] == '-' and p[pos[0] + 2] != ']':
                    rs.append([ord(a), ord(p[pos[0] + 2])])
                    pos[0] += 3
                else:
                    rs.append([ord(a), ord(a)])
                    pos[0] += 1
            if peek() != ']':
                raise Unsupported('unbalanced class')
            pos[0] += 1
            return ['class', neg, rs]
        if c == '\\':
            e = peek()
            pos[0] += 1
            if e == 'd':
                return ['class', False, [[48, 57]]]
            if e is not None and not e.isalnum():
                return ['chr', ord(e)]
            raise Unsupported('escape \\%s' % e)
        if c in '{}^$*+?)':
            raise Unsupported('metacharacter %r' % c)
        return ['chr', ord(c)]

    a = alt()
    if pos[0] != len(p):
        raise Unsupported('trailing input')
    return a


def coq(a):
    t = a[0]
    if t == 'eps':
        return 'REps'
    if t == 'chr':
        return '(RChr %d)' % a[1]
    if t == 'any':
        return 'RAny'
    if t == 'class':
        return '(RClass %s %s)' % (cbool(a[1]), clist(['(%d, %d)' % (x, y) for x, y in a[2]]))
    if t in ('seq', 'alt'):
        return '(%s %s %s)' % ('RSeq' if t == 'seq' else 'RAlt', coq(a[1]), coq(a[2]))
    return '(%s %s)' % ({'star': 'RStar', 'plus': 'RPlus', 'opt': 'ROpt'}[t], coq(a[1]))


def matcher_term(p):
    """Gallina predicate str -> bool deciding re.fullmatch(p, .), or None if p lies outside the fragment"""
    try:
        return '(fullmatch %s)' % coq(parse(p))
    except (Unsupported, IndexError, TypeError):
        return None
