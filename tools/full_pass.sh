#!/bin/bash
# runs every quick check on the current tree; prints one line per property
cd "$(dirname "$0")/.."
for i in 01 02 03 04 05 06 07 08 09 10 11 12 13 14 15 16 17 18 19 20; do
  s=$(date +%s)
  out=$(VERIF_SEED=${VERIF_SEED:-1} ./check C$i --tier ${1:-quick} 2>&1 | grep -v conda)
  rc=$?
  e=$(( $(date +%s) - s ))
  v=$(echo "$out" | grep -c "^VIOLATION")
  k=$(echo "$out" | grep -c "^KNOWN-FINDING")
  echo "C$i rc=$(echo "$out" | tail -1 | grep -q . && echo ${PIPESTATUS[0]}) violations=$v known=$k ${e}s :: $(echo "$out" | tail -1 | cut -c1-150)"
done
