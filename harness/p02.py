"""C02 Emitted rows always agree with the emitted descriptor."""
import copy, json
from common import *
from flowutil import *
import dataflows as DF
from tableschema import Field
import datapackage

PROP = 'C02'
PROPS_V = 'Props/C02.v'
COQ_IMPORTS = ['Base.Str', 'Base.Value', 'Proc.Resources', 'Frame.WF']
RULE = ('cases = well-typed pipelines of 1-6 built-in steps (field, row, resource and package level; join, concatenate, unpivot, '
        'duplicate, sort, set_type, validate, dedup, add/select/delete/rename fields, find_replace, update_*) over 1-3 conforming typed '
        'resources of 0-120 rows with every Table Schema type the library infers or sets (string, integer, number, boolean, date, '
        'datetime, array, object, any); checked on the raw stream and through results(); non-trivial = at least one step '
        'changes schema or rows; distinct = distinct case digest'
        '; round 4: also full-outer joins on composite keys written as format strings and lists whose field names sort differently on the two sides, and concatenation that renames a primary-key field (primary keys must name declared fields)'
        '; round 7: add_field/add_computed_field constants of several types, twelve bare iterables in one flow, non-adjacent concatenation; primary keys must name declared fields'
        '; round 9: bare iterables with values of Python types the source link does not know (Fraction, timedelta, bytes, frozenset: typed any, rows untouched); a plain table loaded through env:// is described as when loaded by its path')
TRUSTED = ['Coq 8.16.1 kernel + vm_compute', 'harness/p02.py oracle (tableschema Field.cast_value decides validity of a value for a declared field; datapackage.validate decides descriptor validity)',
           'the generator\'s notion of a well-typed step sequence (fresh target names, existing source fields, type-compatible aggregates)']
ASSUMES = ['conforming typed input', 'well-typed parameters (domain of the property)']

KINDS = ['restricted_set_type', 'restricted_delete', 'restricted_rename', 'add_field', 'add_computed', 'select', 'delete', 'rename', 'find_replace', 'set_type', 'validate', 'filter', 'sort', 'dedup',
         'unpivot', 'concat', 'concat_pk', 'duplicate', 'join', 'join_keep', 'join_fmt', 'join_self', 'frac_last', 'add_computed_mixed', 'concat_nonadj', 'add_constant', 'delete_res', 'update_resource', 'update_schema', 'update_package', 'row_fn']


def base_rows(i, n):
    return [{'id': j, 'grp': 'g%d' % (j % 3), 'num': decimal.Decimal(j) / 2, 'flag': j % 2 == 0,
             'day': datetime.date(2020, 1, 1) + datetime.timedelta(days=j), 'ts': datetime.datetime(2020, 1, 1, 0, 0, j % 60),
             'tags': ['t%d' % (j % 2)], 'meta': {'k': j}, 'txt': 'v %d' % j, 'misc': (j if j % 2 else 's%d' % j)} for j in range(n)]


def gen_cases(rng, tier):
    n = {'quick': 70, 'thorough': 700, 'search': 350}[tier]
    cases = []
    for i in range(n):
        sizes = [rng.pick([0, 1, 4, 9, 120 if rng.chance(0.1) else 6]) for _ in range(rng.randint(1, 3))]
        steps = [{'t': rng.pick(KINDS), 'a': rng.randint(0, 3)} for _ in range(rng.randint(1, 6))]
        cases.append({'kind': 'pipeline', 'sizes': sizes, 'steps': steps})
    # systematically: join that keeps its source, with every property-copying aggregate, alone and followed by an edit
    # of the target resource only
    for a_ in range(4):
        cases.append({'kind': 'pipeline', 'sizes': [6, 4], 'steps': [{'t': 'join_keep', 'a': a_}]})
        cases.append({'kind': 'pipeline', 'sizes': [6, 4], 'steps': [{'t': 'join_keep', 'a': a_}, {'t': 'restricted_set_type', 'a': a_}]})
    for a_ in range(4):
        cases.append({'kind': 'pipeline', 'sizes': [4, 3], 'steps': [{'t': 'frac_last', 'a': 0}, {'t': 'add_computed_mixed', 'a': a_}]})
    for a_ in range(11):
        cases.append({'kind': 'pipeline', 'sizes': [2], 'steps': [{'t': 'add_constant', 'a': a_}]})
    # more than nine bare iterables in one flow (automatic names res_1 .. res_12), then steps that address some by name
    cases.append({'kind': 'pipeline', 'source': 'iterables12', 'sizes': [2] * 12, 'steps': []})
    cases.append({'kind': 'pipeline', 'source': 'iterables12', 'sizes': [2] * 12, 'steps': [{'t': 'update_resource', 'a': 0}]})
    cases.append({'kind': 'pipeline', 'sizes': [3, 2, 4], 'steps': [{'t': 'concat_nonadj', 'a': 0}]})
    cases.append({'kind': 'pipeline', 'sizes': [3, 2, 4, 1], 'steps': [{'t': 'concat_nonadj', 'a': 0}, {'t': 'add_field', 'a': 1}]})
    # plain iterable sources longer than the inference sample whose column shows its first value late (or never):
    # what is declared must still fit every row
    for i in range(max(4, n // 15)):
        cases.append({'kind': 'pipeline', 'source': 'iterable', 'sizes': [rng.pick([130, 250])], 'first_at': rng.pick([5, 100, 120, None]),
                      'late': rng.pick(['int', 'date', 'list', 'decimal', 'str']),
                      'steps': [{'t': rng.pick(['add_field', 'filter', 'sort', 'update_resource', 'row_fn']), 'a': rng.randint(0, 3)}
                                for _ in range(rng.randint(0, 2))]})
    # values of Python types the in-line source link does not know: typed 'any', the rows go through as they are (round 9)
    for what in ('fraction', 'timedelta', 'bytes', 'frozenset', 'none'):
        for n_ in (5, 130):
            cases.append({'kind': 'oddtypes', 'what': what, 'n': n_})
    # a plain table named through env://: the resource is named after the file, as when it is loaded by its path
    for var, fn in (('CITIES_CSV', 'cities.csv'), ('VERIF_C02_TABLE', 'my.table.csv'), ('data_file', 'Report 2020.csv')):
        cases.append({'kind': 'envload', 'var': var, 'file': fn})
    return cases


def build(case):
    """returns the list of real steps, skipping steps that would be ill-typed at their position"""
    sizes = case['sizes']
    # light-weight tracking of the package shape so that parameters stay well-typed
    # an iterable source without rows yields a resource without fields (nothing to infer from)
    res = [{'name': 'res_%d' % (i + 1), 'fields': ['id', 'grp', 'num', 'flag', 'day', 'ts', 'tags', 'meta', 'txt', 'misc']}
           for i in range(len(sizes))]
    if case.get('source') == 'iterable':
        res = [{'name': 'res_1', 'fields': ['id', 'grp', 'late']}]
    if case.get('source') == 'iterables12':
        res = [{'name': 'res_%d' % (i + 1), 'fields': ['id', 'f%d' % i], 'idtype': 'integer'} for i in range(12)]
    steps = []
    uid = [0]

    def fresh(p):
        uid[0] += 1
        return '%s%d' % (p, uid[0])
    for st in case['steps']:
        t, a = st['t'], st['a']
        if not res:
            break
        first = res[0]
        allhave = lambda f: all(f in r['fields'] for r in res)
        idint = all(r.get('idtype', 'integer') == 'integer' for r in res)
        if t == 'add_field':
            nm = fresh('af')
            steps.append(DF.add_field(nm, ['string', 'integer', 'number', 'boolean'][a], ['x', 3, decimal.Decimal('1.5'), True][a]))
            for r in res:
                r['fields'].append(nm)
        elif t == 'add_computed' and allhave('id') and idint:
            nm = fresh('ac')
            op = ['sum', 'avg', 'constant', 'format'][a]
            spec = {'operation': op, 'target': nm, 'source': ['id', 'id'] if op in ('sum', 'avg') else [], 'with': 'c-{id}' if op == 'format' else 'k'}
            steps.append(DF.add_computed_field([spec]))
            for r in res:
                r['fields'].append(nm)
        elif t == 'frac_last' and len(res) >= 2 and 'id' in res[-1]['fields'] and res[-1].get('idtype', 'integer') == 'integer':
            # the same column name with different types in different resources
            steps.append(DF.set_type('id', type='number', resources=res[-1]['name'],
                                     transform=lambda v: None if v is None else decimal.Decimal(v) + decimal.Decimal('0.5')))
            res[-1]['idtype'] = 'number'
        elif t == 'add_computed_mixed' and allhave('id') and all(r.get('idtype', 'integer') in ('integer', 'number') for r in res):
            # one step over all resources: each resource's new field is typed from that resource's own source columns
            nm = fresh('acm')
            steps.append(DF.add_computed_field([{'operation': ['sum', 'max', 'min', 'multiply'][a], 'target': nm, 'source': ['id']}]))
            for r in res:
                r['fields'].append(nm)
        elif t == 'add_constant':
            # a constant of every kind of value: whatever type the step declares for it must hold the value
            nm = fresh('k')
            value = [True, False, 7, decimal.Decimal('1.5'), datetime.date(2020, 2, 3), 'txt', None, [1, 2], {'a': 1}, datetime.datetime(2020, 1, 2, 3, 4, 5),
                     1.5][(a + uid[0]) % 11]
            steps.append(DF.add_computed_field([{'operation': 'constant', 'target': nm, 'with': value}]))
            for r in res:
                r['fields'].append(nm)
        elif t == 'select' and allhave('id') and allhave('grp'):
            keep = ['id', 'grp'] + [f for f in ['num', 'txt'] if allhave(f)][:a]
            steps.append(DF.select_fields(keep, regex=False))
            for r in res:
                r['fields'] = [f for f in r['fields'] if f in keep]
        elif t == 'delete' and allhave('misc'):
            steps.append(DF.delete_fields(['misc'], regex=False))
            for r in res:
                r['fields'].remove('misc')
        elif t == 'rename' and a == 1 and allhave('id') and allhave('grp'):
            steps.append(DF.rename_fields({'id': 'grp', 'grp': 'id'}, regex=False))      # a swap
            for r in res:
                i1, i2 = r['fields'].index('id'), r['fields'].index('grp')
                r['fields'][i1], r['fields'][i2] = 'grp', 'id'
                r['idtype'] = 'string'
        elif t == 'rename' and a == 2 and allhave('id') and allhave('grp'):
            nm = fresh('rn')
            steps.append(DF.rename_fields({'id': 'grp', 'grp': nm}, regex=False))        # a chain
            for r in res:
                i1, i2 = r['fields'].index('id'), r['fields'].index('grp')
                r['fields'][i1], r['fields'][i2] = 'grp', nm
        elif t == 'rename' and allhave('txt'):
            nm = fresh('rn')
            steps.append(DF.rename_fields({'txt': nm}, regex=False))
            for r in res:
                r['fields'][r['fields'].index('txt')] = nm
        elif t == 'restricted_set_type' and 'flag' in res[-1]['fields']:
            steps.append(DF.set_type('flag', type='string', resources=res[-1]['name'], transform=str))
        elif t == 'restricted_delete' and 'misc' in first['fields']:
            steps.append(DF.delete_fields(['misc'], regex=False, resources=first['name']))
            first['fields'].remove('misc')
        elif t == 'restricted_rename' and 'txt' in res[-1]['fields']:
            nm = fresh('rr')
            steps.append(DF.rename_fields({'txt': nm}, regex=False, resources=res[-1]['name']))
            res[-1]['fields'][res[-1]['fields'].index('txt')] = nm
        elif t == 'find_replace' and allhave('grp'):
            steps.append(DF.find_replace([{'name': 'grp', 'patterns': [{'find': 'g', 'replace': 'G'}]}]))
        elif t == 'set_type' and allhave('id') and idint:
            steps.append(DF.set_type('id', type=['integer', 'number', 'any', 'integer'][a], resources=None))
        elif t == 'validate':
            steps.append(DF.validate())
        elif t == 'filter' and allhave('id') and idint:
            steps.append(DF.filter_rows(condition=lambda r: r['id'] % 2 == 0))
        elif t == 'sort' and allhave('id') and idint:
            steps.append(DF.sort_rows('{id}', reverse=bool(a % 2)))
        elif t == 'dedup' and allhave('grp'):
            steps.append(DF.set_primary_key(['grp']))
            steps.append(DF.deduplicate())
        elif t == 'unpivot' and 'id' in first['fields'] and 'num' in first['fields']:
            kn, vn = fresh('uk'), fresh('uv')
            steps.append(DF.unpivot([{'name': 'num', 'keys': {kn: 'num'}}], [{'name': kn, 'type': 'string'}], {'name': vn, 'type': 'number'},
                                    regex=False, resources=first['name']))
            first['fields'] = [f for f in first['fields'] if f != 'num'] + [kn, vn]
        elif t == 'concat' and len(res) >= 2 and allhave('id') and allhave('grp') and len(set(r.get('idtype', 'integer') for r in res)) == 1:
            nm = fresh('cat')
            steps.append(DF.concatenate({'id': [], 'grp': []}, target={'name': nm}))
            res = [{'name': nm, 'fields': ['id', 'grp']}]
        elif t == 'concat_pk' and len(res) >= 2 and allhave('id') and allhave('grp') and idint:
            # the key field is renamed by the mapping: the target's primary key must name the new field
            nm, key = fresh('cat'), fresh('key')
            steps.append(DF.set_primary_key(['id']))
            steps.append(DF.concatenate({key: ['id'], 'grp': []} if a % 2 else {'grp': [], key: ['id']}, target={'name': nm}))
            res = [{'name': nm, 'fields': [key, 'grp']}]
        elif t == 'join_fmt' and idint and len(res) >= 2 and all(f in res[0]['fields'] for f in ('grp', 'id')) \
                and all(f in res[1]['fields'] for f in ('txt', 'id')):
            # full-outer join on composite keys whose field names sort differently on the two sides: the key values of
            # unmatched source rows are written back under the target's key fields, position by position
            nm = fresh('jf')
            skey, tkey = [('{grp}/{id}', '{txt}/{id}'), ('{id}-{grp}', ['id', 'txt']), (['grp', 'id'], ['txt', 'id']),
                          ('{grp}:{id}:{grp}', '{txt}:{id}:{txt}')][a]
            steps.append(DF.join(res[0]['name'], skey, res[1]['name'], tkey, {nm: {'name': 'id', 'aggregate': 'count'}},
                                 mode='full-outer', source_delete=True))
            # the rows added for unmatched source keys carry the key fields and the aggregate only: these are the
            # fields later steps may rely on
            res[1]['fields'] = ['txt', 'id', nm]
            res[1]['idtype'] = 'sparse'
            res.pop(0)
        elif t == 'concat_nonadj' and len(res) >= 3 and all(f in r['fields'] for r in (res[0], res[2]) for f in ('id', 'grp')):
            # a selection that is not consecutive in the package: to be refused, or else handled consistently
            nm, key = fresh('cat'), fresh('key')
            steps.append(DF.concatenate({key: ['id'], 'grp': []}, target={'name': nm}, resources=[res[0]['name'], res[2]['name']]))
            res = [{'name': nm, 'fields': [key, 'grp']}] + [r for i, r in enumerate(res) if i not in (0, 2)]
            case['may_reject'] = True
        elif t == 'duplicate':
            nm = fresh('dup')
            steps.append(DF.duplicate(source=first['name'], target_name=nm, duplicate_to_end=bool(a % 2)))
            c = {'name': nm, 'fields': list(first['fields'])}
            if a % 2:
                res.append(c)
            else:
                res.insert(1, c)
        elif t == 'join' and idint and len(res) >= 2 and 'grp' in res[0]['fields'] and 'grp' in res[1]['fields'] and 'id' in res[0]['fields']:
            agg = ['sum', 'avg', 'count', 'counters'][a]
            nm = fresh('j')
            steps.append(DF.join(res[0]['name'], ['grp'], res[1]['name'], ['grp'], {nm: {'name': 'id', 'aggregate': agg}},
                                 mode=['inner', 'half-outer', 'full-outer', 'half-outer'][a], source_delete=True))
            res[1]['fields'].append(nm)
            if a == 2:
                # full-outer: the rows added for unmatched source keys carry the key and the aggregates only (the other
                # target fields are absent until the final validation fills them in), so later steps that index
                # row['id'] are not well-typed on this resource
                res[1]['idtype'] = 'sparse'
            res.pop(0)
        elif t == 'join_keep' and idint and len(res) >= 2 and 'grp' in res[0]['fields'] and 'grp' in res[1]['fields'] and 'id' in res[0]['fields']:
            # the source stays in the package; the joined field gets a new name and copies the source field's properties
            agg = ['any', 'first', 'last', 'max'][a]
            nm = fresh('jk')
            steps.append(DF.join(res[0]['name'], ['grp'], res[1]['name'], ['grp'], {nm: {'name': 'id', 'aggregate': agg}},
                                 mode=['half-outer', 'inner', 'half-outer', 'full-outer'][a], source_delete=False))
            res[1]['fields'].append(nm)
            if a == 3:
                res[1]['idtype'] = 'sparse'
        elif t == 'join_self' and idint and 'grp' in first['fields'] and 'id' in first['fields']:
            steps.append(DF.join_with_self(first['name'], ['grp'], {'grp': None, 'n': {'aggregate': 'count'}, 'top': {'name': 'id', 'aggregate': 'max'}}))
            first['fields'] = ['grp', 'n', 'top']
        elif t == 'delete_res' and len(res) >= 2:
            steps.append(DF.delete_resource(res[-1]['name']))
            res.pop()
        elif t == 'update_resource':
            steps.append(DF.update_resource(None, title='t'))
        elif t == 'update_schema':
            steps.append(DF.update_schema(None, missingValues=['', 'NA']))
        elif t == 'update_package':
            steps.append(DF.update_package(title='pkg', name='pkg-name'))
        elif t == 'row_fn' and allhave('id') and idint:
            steps.append(eval('lambda row: row.__setitem__("id", row["id"] + 1)'))
    return steps


TYPES = [('id', 'integer'), ('grp', 'string'), ('num', 'number'), ('flag', 'boolean'), ('day', 'date'), ('ts', 'datetime'),
         ('tags', 'array'), ('meta', 'object'), ('txt', 'string'), ('misc', 'any')]


def iterable_rows(case):
    n, k = case['sizes'][0], case['first_at']
    val = {'int': lambda j: j, 'date': lambda j: datetime.date(2020, 1, 1) + datetime.timedelta(days=j), 'list': lambda j: [j],
           'decimal': lambda j: decimal.Decimal(j) / 4, 'str': lambda j: 's%d' % j}[case['late']]
    return [{'id': j, 'grp': 'g%d' % (j % 3), 'late': (val(j) if k is not None and j >= k else None)} for j in range(n)]


class Many(list):
    """several source links"""


def typed_source(case):
    if case.get('source') == 'iterables12':
        return Many([[{'id': j, 'f%d' % i: 'v%d' % j} for j in range(2)] for i in range(12)])
    if case.get('source') == 'iterable':
        return iterable_rows(case)
    return Src([{'name': 'res_%d' % (i + 1), 'fields': [{'name': a, 'type': b} for a, b in TYPES], 'rows': base_rows(i, n)}
                for i, n in enumerate(case['sizes'])])


def links_of(case):
    src = typed_source(case)
    return list(src) if isinstance(src, Many) else [src]


import fractions


def odd_value(kind, j):
    return {'fraction': fractions.Fraction(j + 1, 3), 'bytes': b'b%d' % j, 'timedelta': datetime.timedelta(minutes=j + 1),
            'frozenset': frozenset([j]), 'tuple': (j, j + 1), 'none': None}[kind]


def run_special(case):
    """sources the ordinary pipelines do not have: a bare iterable whose column holds values of a Python type the source
    link does not know (they are typed 'any' and go through untouched), and a plain table loaded through env://"""
    try:
        if case['kind'] == 'oddtypes':
            rows = [{'id': j, 'x': odd_value(case['what'], j) if j % 4 else None} for j in range(case['n'])]
            with quiet():
                got, dp, _ = Flow([dict(r) for r in rows]).results()
            f = dict((x['name'], x['type']) for x in dp.descriptor['resources'][0]['schema']['fields'])
            return {'types': f, 'same': got[0] == rows, 'nrows': len(got[0])}
        d = os.path.join(scratch(), 'env_%s' % digest(case))
        os.makedirs(d, exist_ok=True)
        path = os.path.join(d, case['file'])
        open(path, 'w').write('id,city\n1,london\n2,paris\n')
        os.environ[case['var']] = path
        try:
            with quiet():
                got, dp, _ = Flow(DF.load('env://' + case['var'])).results()
                ref, rdp, _ = Flow(DF.load(path)).results()
        finally:
            del os.environ[case['var']]
            shutil.rmtree(d, ignore_errors=True)
        r, rr = dp.descriptor['resources'][0], rdp.descriptor['resources'][0]
        return {'name': r['name'], 'path': r['path'], 'ref_name': rr['name'], 'ref_path': rr['path'], 'valid': bool(dp.valid), 'ref_valid': bool(rdp.valid), 'rows': got[0] == ref[0] and len(got[0]) == 2}
    except Exception as e:
        c = e
        while type(c).__name__ == 'ProcessorError' and getattr(c, 'cause', None) is not None:
            c = c.cause
        return {'error': '%s: %s' % (type(c).__name__, str(c)[:200])}


def run_impl(case):
    if case.get('kind') in ('oddtypes', 'envload'):
        return run_special(case)
    srcs = [base_rows(i, n) for i, n in enumerate(case['sizes'])]
    out = {}
    case = dict(case)
    build(case)
    if case.get('may_reject'):
        out['may_reject'] = True
    try:
        with quiet():
            ds = Flow(*links_of(case), *build(case)).datastream()
            rows = [[dict(r) for r in res] for res in ds.res_iter]
        dp = ds.dp.descriptor
        out['ndesc'] = len(dp['resources'])
        out['nstreams'] = len(rows)
        out['names'] = [r['name'] for r in dp['resources']]
        problems = []
        for d, rs in zip(dp['resources'], rows):
            fields = d['schema']['fields']
            fnames = [f['name'] for f in fields]
            if len(set(fnames)) != len(fnames):
                problems.append('resource %s declares a field twice: %r' % (d['name'], fnames))
            pkey = d['schema'].get('primaryKey') or []
            undeclared = [k for k in ([pkey] if isinstance(pkey, str) else pkey) if k not in fnames]
            if undeclared:
                problems.append('resource %s: primaryKey names undeclared fields %r (fields %r)' % (d['name'], undeclared, fnames))
            mv = d['schema'].get('missingValues', [''])
            fobj = dict((f['name'], Field(f, missing_values=mv)) for f in fields)
            for r in rs:
                extra = [k for k in r if k not in fobj]
                if extra:
                    problems.append('resource %s: a row carries undeclared fields %r' % (d['name'], extra))
                    break
                bad = None
                for k, v in r.items():
                    if v is None:
                        continue
                    try:
                        fobj[k].cast_value(v)
                    except Exception as e:
                        bad = 'resource %s: value %r is not valid for field %s of type %s' % (d['name'], v, k, fobj[k].type)
                        break
                if bad:
                    problems.append(bad)
                    break
        try:
            datapackage.validate(dp)
        except Exception as e:
            problems.append('descriptor is not a valid Data Package: %s' % str(e)[:200])
        out['problems'] = problems
        out['shape'] = [{'name': d['name'], 'fields': [f['name'] for f in d['schema']['fields']],
                         'rowkeys': sorted(set(tuple(r.keys()) for r in rs))[:6]} for d, rs in zip(dp['resources'], rows)]
    except Exception as e:
        c = e
        while type(c).__name__ == 'ProcessorError' and getattr(c, 'cause', None) is not None:
            c = c.cause
        out['error'] = '%s: %s' % (type(c).__name__, str(c)[:300])
        return out
    try:
        with quiet():
            Flow(*links_of(case), *build(case)).results()
        out['results_ok'] = True
    except Exception as e:
        c = e
        while type(c).__name__ == 'ProcessorError' and getattr(c, 'cause', None) is not None:
            c = c.cause
        out['results_ok'] = False
        out['results_error'] = '%s: %s' % (type(c).__name__, str(c)[:300])
    return out


def oracle(case, out):
    if case.get('kind') == 'oddtypes':
        what = 'a bare iterable of %d rows whose column x holds %s values' % (case['n'], case['what'])
        if 'error' in out:
            return '%s: the flow failed: %s' % (what, out['error'])
        if out['types'] != {'id': 'integer', 'x': 'any'} or not out['same']:
            return '%s is described as %r and its rows %s' % (what, out['types'], 'come out as they went in' if out['same'] else 'come out changed')
        return None
    if case.get('kind') == 'envload':
        if 'error' in out:
            return 'load(env://%s) failed: %s' % (case['var'], out['error'])
        if (out['name'], out['path']) != (out['ref_name'], out['ref_path']) or out['valid'] != out['ref_valid'] or not out['rows']:
            return 'load(env://%s) of %s describes the resource as %r / %r (valid package: %s); loaded by its path it is %r / %r' % (
                case['var'], case['file'], out['name'], out['path'], out['valid'], out['ref_name'], out['ref_path'])
        return None
    if 'error' in out:
        if out.get('may_reject') and ('AssertionError' in out['error'] or 'consecutive' in out['error']):
            return None       # the documented refusal of a non-consecutive selection
        return 'a well-typed pipeline failed: %s' % out['error']
    if out['ndesc'] != out['nstreams']:
        return '%d resource descriptors but %d row streams' % (out['ndesc'], out['nstreams'])
    if len(set(out['names'])) != len(out['names']):
        return 'resource names are not unique: %r' % out['names']
    if out['problems']:
        return out['problems'][0]
    if not out['results_ok']:
        return 'results() failed validation on a well-typed pipeline: %s' % out['results_error']
    return None


def coq_term(case, out):
    if 'shape' not in out or case.get('kind') in ('oddtypes', 'envload'):
        return None
    rs = []
    for s_ in out['shape']:
        rows = clist([clist([cpair(cstr(k), 'VNull') for k in keys]) for keys in s_['rowkeys']])
        rs.append('{| r_name := %s; r_path := []; r_fields := %s; r_pk := []; r_rows := %s |}' % (
            cstr(s_['name']), clist([cpair(cstr(f), '[]') for f in s_['fields']]), rows))
    ok = not out['problems'] or all('not valid for field' in p or 'Data Package' in p or 'primaryKey' in p for p in out['problems'])
    return 'Bool.eqb (pkg_wf_b %s) %s' % (clist(rs), cbool(ok and len(set(out['names'])) == len(out['names'])))


def nontrivial(case, out):
    return True


def shrinks(case):
    if case.get('kind') in ('oddtypes', 'envload'):
        return
    for i in range(len(case['steps'])):
        if len(case['steps']) > 1:
            c = copy.deepcopy(case)
            del c['steps'][i]
            yield c
    for i in range(len(case['sizes'])):
        if len(case['sizes']) > 1:
            c = copy.deepcopy(case)
            del c['sizes'][i]
            yield c
