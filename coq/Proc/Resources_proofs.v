From Coq Require Import List ZArith Bool Lia Permutation Sorted.
From DF Require Import Base.Str Base.Str_proofs Base.ListX Base.Value Base.Value_proofs
     Proc.RowOps Proc.Fields Proc.Sort Proc.Sort_proofs Proc.Resources.
Import ListNotations.
Open Scope Z_scope.

(* ================= concatenate: position ================= *)
Definition none_sel (sel : str -> bool) (l : pkg) : Prop := forall r, In r l -> sel (r_name r) = false.
Definition all_sel (sel : str -> bool) (l : pkg) : Prop := forall r, In r l -> sel (r_name r) = true.

Lemma concat_suffix sel t post : none_sel sel post -> concat_resources sel t CSuffix post = Ok post.
Proof.
  induction post as [|r post IH]; intros H; simpl; [reflexivity|].
  rewrite (H r (or_introl eq_refl)). rewrite IH; [reflexivity|]. intros x Hx. apply H. right. exact Hx.
Qed.

Lemma concat_run sel t run post :
  all_sel sel run -> none_sel sel post ->
  concat_resources sel t CRun (run ++ post) = Ok (t :: post).
Proof.
  induction run as [|r run IH]; intros Ha Hn; simpl.
  - destruct post as [|p post]; simpl; [reflexivity|].
    rewrite (Hn p (or_introl eq_refl)). rewrite concat_suffix; [reflexivity|].
    intros x Hx. apply Hn. right. exact Hx.
  - rewrite (Ha r (or_introl eq_refl)). apply IH; [|exact Hn]. intros x Hx. apply Ha. right. exact Hx.
Qed.

(* the target sits at the position of the first selected resource; everything
   else keeps its place and its content *)
Theorem concat_position sel t pre run post :
  none_sel sel pre -> all_sel sel run -> run <> [] -> none_sel sel post ->
  concat_resources sel t CPrefix (pre ++ run ++ post) = Ok (pre ++ t :: post).
Proof.
  intros Hp Hr Hne Hs. induction pre as [|p pre IH]; simpl.
  - destruct run as [|r run]; [contradiction|]. simpl.
    rewrite (Hr r (or_introl eq_refl)). apply concat_run; [|exact Hs].
    intros x Hx. apply Hr. right. exact Hx.
  - rewrite (Hp p (or_introl eq_refl)). rewrite IH; [reflexivity|]. intros x Hx. apply Hp. right. exact Hx.
Qed.

(* nothing selected: the (empty) target is appended *)
Theorem concat_nothing_selected sel t p :
  none_sel sel p -> concat_resources sel t CPrefix p = Ok (p ++ [t]).
Proof.
  induction p as [|r p IH]; intros H; simpl; [reflexivity|].
  rewrite (H r (or_introl eq_refl)). rewrite IH; [reflexivity|]. intros x Hx. apply H. right. exact Hx.
Qed.

(* selected resources that are not consecutive are rejected *)
Theorem concat_rejects_nonconsecutive sel t pre run mid r post :
  none_sel sel pre -> all_sel sel run -> run <> [] -> none_sel sel mid -> mid <> [] -> sel (r_name r) = true ->
  concat_resources sel t CPrefix (pre ++ run ++ mid ++ r :: post) = Err E_ASSERT.
Proof.
  intros Hp Hr Hne Hm Hmne Hsel.
  assert (S : forall m, none_sel sel m -> concat_resources sel t CSuffix (m ++ r :: post) = Err E_ASSERT).
  { induction m as [|x m IHm]; intros Hx; simpl; [rewrite Hsel; reflexivity|].
    rewrite (Hx x (or_introl eq_refl)). rewrite IHm; [reflexivity|]. intros y Hy. apply Hx. right. exact Hy. }
  assert (R : forall rn, all_sel sel rn -> concat_resources sel t CRun (rn ++ mid ++ r :: post) = Err E_ASSERT).
  { induction rn as [|x rn IHr]; intros Hx; simpl.
    - destruct mid as [|m0 mid']; [contradiction|]. simpl. rewrite (Hm m0 (or_introl eq_refl)).
      rewrite S; [reflexivity|]. intros y Hy. apply Hm. right. exact Hy.
    - rewrite (Hx x (or_introl eq_refl)). apply IHr. intros y Hy. apply Hx. right. exact Hy. }
  induction pre as [|p pre IH]; simpl.
  - destruct run as [|x run]; [contradiction|]. simpl. rewrite (Hr x (or_introl eq_refl)).
    apply R. intros y Hy. apply Hr. right. exact Hy.
  - rewrite (Hp p (or_introl eq_refl)). rewrite IH; [reflexivity|]. intros y Hy. apply Hp. right. exact Hy.
Qed.

(* ================= concatenate: rows ================= *)
Lemma concat_rows_spec m targets rows out :
  concat_rows m targets rows = Ok out ->
  length out = length rows /\
  forall i r, nth_error rows i = Some r -> exists o, nth_error out i = Some o /\ concat_row m targets r = Ok o.
Proof.
  revert out; induction rows as [|r rs IH]; intros out H; simpl in H.
  - injection H as <-. split; [reflexivity|]. intros [|i] r H; discriminate.
  - destruct (concat_row m targets r) as [x|c] eqn:E; [|discriminate].
    destruct (concat_rows m targets rs) as [xs|c] eqn:E2; [|discriminate].
    injection H as <-. destruct (IH _ eq_refl) as [L N]. split; [simpl; lia|].
    intros [|i] r0 Hn; simpl in *.
    + injection Hn as <-. exists x. auto.
    + apply N, Hn.
Qed.

Lemma concat_rows_app m targets a b oa ob :
  concat_rows m targets a = Ok oa -> concat_rows m targets b = Ok ob ->
  concat_rows m targets (a ++ b) = Ok (oa ++ ob).
Proof.
  revert oa; induction a as [|r a IH]; intros oa Ha Hb; simpl in *.
  - injection Ha as <-. exact Hb.
  - destruct (concat_row m targets r); [|discriminate].
    destruct (concat_rows m targets a) as [xs|c]; [|discriminate].
    injection Ha as <-. rewrite (IH _ eq_refl Hb). reflexivity.
Qed.

(* the target row has exactly the target fields as keys, in target order *)
Lemma rupdate_keys_present base upd :
  (forall k, In k (rkeys upd) -> In k (rkeys base)) -> rkeys (rupdate base upd) = rkeys base.
Proof.
  unfold rupdate. revert base; induction upd as [|[k v] upd IH]; intros base H; simpl; [reflexivity|].
  rewrite IH.
  - apply rkeys_rset_present. apply rhas_In. apply H. left. reflexivity.
  - intros k' Hk'. rewrite rkeys_rset_present by (apply rhas_In; apply H; left; reflexivity).
    apply H. right. exact Hk'.
Qed.

Lemma rdict_keys_in l k : In k (rkeys (rdict l)) -> In k (map fst l).
Proof.
  unfold rdict, rupdate.
  assert (G : forall acc, In k (rkeys (fold_left (fun a kv => rset a (fst kv) (snd kv)) l acc)) ->
                          In k (rkeys acc) \/ In k (map fst l)).
  { induction l as [|[a b] l IH]; intros acc H; simpl in *; [left; exact H|].
    destruct (IH _ H) as [X|X]; [|right; right; exact X].
    destruct (rhas acc a) eqn:E.
    - rewrite rkeys_rset_present in X by exact E. left. exact X.
    - rewrite rkeys_rset_absent in X by exact E. apply in_app_iff in X as [X|[X|[]]]; [left; exact X|right; left; exact X]. }
  intros H. destruct (G [] H) as [[]|X]. exact X.
Qed.

Lemma concat_row_keys m targets r o :
  (forall a b, lookup_str m a = Some b -> In b targets) ->
  concat_row m targets r = Ok o -> rkeys o = targets.
Proof.
  intros Hm. unfold concat_row.
  set (values := flat_map _ r). destruct values eqn:V; [discriminate|]. rewrite <- V.
  intros H. injection H as <-. rewrite rupdate_keys_present.
  - unfold rkeys. rewrite map_map. simpl. apply map_id.
  - intros k Hk. apply rdict_keys_in in Hk. unfold rkeys. rewrite map_map. simpl. rewrite map_id.
    unfold values in Hk. rewrite in_map_iff in Hk. destruct Hk as [[a b] [<- Hin]]. simpl.
    apply in_flat_map in Hin as [[k0 v0] [_ Hin]]. simpl in Hin.
    destruct (lookup_str m k0) as [t|] eqn:L; [|destruct Hin].
    destruct (is_null v0); [destruct Hin|]. destruct Hin as [E|[]]. injection E as <- <-. eapply Hm, L.
Qed.

(* row count conservation *)
Lemma concat_rows_length m targets rows out : concat_rows m targets rows = Ok out -> length out = length rows.
Proof. intros H. apply concat_rows_spec in H. tauto. Qed.

(* ================= duplicate ================= *)
Lemma index_rows_keys w rows : forall i x,
  In x (index_rows w i rows) -> exists j, fst x = hexw w j /\ i <= j < i + Z.of_nat (length rows).
Proof.
  induction rows as [|r rs IH]; intros i x H; simpl in H; [destruct H|].
  destruct H as [<-|H].
  - exists i. simpl. split; [reflexivity|lia].
  - destruct (IH _ _ H) as [j [A B]]. exists j. split; [exact A|simpl length; lia].
Qed.

(* inserting a key above every stored key appends *)
Lemma kv_insert_append {A} k (v : A) l :
  (forall x, In x l -> str_ltb (fst x) k = true) -> kv_insert k v l = l ++ [(k, v)].
Proof.
  induction l as [|[k' v'] l IH]; intros H; simpl; [reflexivity|].
  pose proof (H (k', v') (or_introl eq_refl)) as L. simpl in L.
  rewrite (str_ltb_asym _ _ L).
  destruct (str_eqb k k') eqn:E.
  - apply str_eqb_eq in E. subst. rewrite str_ltb_irrefl in L. discriminate.
  - rewrite IH; [reflexivity|]. intros x Hx. apply H. right. exact Hx.
Qed.

Lemma kv_items_increasing w rows : forall i acc,
  0 <= i -> i + Z.of_nat (length rows) <= 16 ^ Z.of_nat w ->
  (forall x, In x acc -> exists j, fst x = hexw w j /\ 0 <= j < i) ->
  fold_left (fun a kv => kv_insert (fst kv) (snd kv) a) (index_rows w i rows) acc = acc ++ index_rows w i rows.
Proof.
  induction rows as [|r rs IH]; intros i acc Hi Hn Hacc; simpl; [rewrite app_nil_r; reflexivity|].
  simpl length in Hn.
  rewrite kv_insert_append.
  - rewrite IH; [rewrite <- app_assoc; reflexivity|lia|lia|].
    intros x Hx. apply in_app_iff in Hx as [Hx|[<-|[]]].
    + destruct (Hacc _ Hx) as [j [A B]]. exists j. split; [exact A|lia].
    + exists i. simpl. split; [reflexivity|lia].
  - intros x Hx. destruct (Hacc _ Hx) as [j [A B]]. rewrite A.
    destruct (hexw_order w j i) as [O _]; [lia|lia|]. rewrite O. apply Z.ltb_lt. lia.
Qed.

(* duplicate emits an exact copy *)
Theorem dup_copy_eq w rows :
  Z.of_nat (length rows) <= 16 ^ Z.of_nat w -> dup_copy w rows = rows.
Proof.
  intros H. unfold dup_copy, kv_items. rewrite kv_items_increasing; [|lia|lia|intros x []].
  simpl. clear H. generalize 0 as i. induction rows as [|r rs IH]; intros i; simpl; [reflexivity|].
  rewrite IH. reflexivity.
Qed.

Definition dup_of (src tname tpath : str) (r : rsrc) : rsrc :=
  {| r_name := tname; r_path := tpath; r_fields := r_fields r; r_pk := r_pk r; r_rows := r_rows r |}.

Lemma dup_traverse_no_source w src tn tp e l pending :
  (forall r, In r l -> r_name r <> src) -> dup_traverse w src tn tp e l pending = l ++ pending.
Proof.
  induction l as [|r l IH]; intros H; simpl; [reflexivity|].
  destruct (str_eqb (r_name r) src) eqn:E.
  - apply str_eqb_eq in E. exfalso. eapply H; [left; reflexivity|exact E].
  - rewrite IH; [reflexivity|]. intros x Hx. apply H. right. exact Hx.
Qed.

(* the copy is placed right after the original, or at the end; the original and
   every other resource are unchanged *)
Theorem duplicate_position w src tn tp pre r post :
  (forall x, In x pre -> r_name x <> src) -> r_name r = src -> (forall x, In x post -> r_name x <> src) ->
  Z.of_nat (length (r_rows r)) <= 16 ^ Z.of_nat w ->
  duplicate w src tn tp false (pre ++ r :: post) = pre ++ r :: dup_of src tn tp r :: post /\
  duplicate w src tn tp true (pre ++ r :: post) = pre ++ r :: post ++ [dup_of src tn tp r].
Proof.
  intros Hpre Hr Hpost Hn. unfold duplicate.
  assert (P : forall e pending, dup_traverse w src tn tp e (pre ++ r :: post) pending
              = pre ++ dup_traverse w src tn tp e (r :: post) pending).
  { intros e. induction pre as [|p pre IH]; intros pending; simpl; [reflexivity|].
    destruct (str_eqb (r_name p) src) eqn:E.
    - apply str_eqb_eq in E. exfalso. eapply Hpre; [left; reflexivity|exact E].
    - rewrite IH; [reflexivity|]. intros x Hx. apply Hpre. right. exact Hx. }
  rewrite !P. simpl. rewrite Hr, str_eqb_refl.
  rewrite !dup_traverse_no_source by exact Hpost. rewrite dup_copy_eq by exact Hn.
  rewrite app_nil_r. unfold dup_of. split; reflexivity.
Qed.

(* ================= delete_resource ================= *)
Theorem delete_removes_exactly sel p r :
  In r (delete_resource sel p) <-> In r p /\ sel (r_name r) = false.
Proof. unfold delete_resource. rewrite filter_In, negb_true_iff. tauto. Qed.

Theorem delete_keeps_order sel p : subseq (delete_resource sel p) p.
Proof. apply subseq_filter. Qed.

(* ================= appending sources ================= *)
Theorem append_after p new : exists rest, append_resources p new = p ++ rest /\ rest = new.
Proof. exists new. split; reflexivity. Qed.
