"""C05 Observers are transparent and capture the complete stream at their position."""
import copy, shutil, json, csv
from common import *
from tracelib import *

PROP = 'C05'
PROPS_V = 'Props/C05.v'
COQ_IMPORTS = ['Base.Str', 'Base.Value', 'Frame.Events', 'Frame.Pull']
RULE = ('cases = pipelines prefix . observer . suffix: prefix of row-wise steps over 1-3 resources (0-120 rows), observer in '
        '{printer, dump_to_path, dump_to_zip, stream, first-run checkpoint, finalizer, update_stats, validate}, suffix incl. steps that '
        'discard rows or whole resources (filter_rows, delete_resource of first/middle/last/all resources, concatenate, join with and '
        'without source_delete, deduplicate, a user step that stops reading each resource after two rows); compared: downstream rows/schemas with and without the observer, what the observer '
        'persisted/reported vs the prefix run alone, finalizer call count and position; non-trivial = the suffix discards rows or '
        'resources; distinct = distinct case digest'
        '; round 4: also dump_to_path(force_format=False) with unknown extensions at any position, prefixes that empty the first resource, and an inner join on the emptied resource behind every observer'
        '; round 7: stats added by steps behind the observer, strings with lone surrogates through stream/checkpoint, a suffix that takes two rows of each resource, runs aborted while rows flow'
        '; round 8: fields that carry titles, dumped after another dumper of the same process wrote with use_titles=True'
        "; round 9: packages without resources at the observer's position")
TRUSTED = ['Coq 8.16.1 kernel + vm_compute', 'harness/p05.py oracle (reads back what the observer persisted)',
           'stamps the file dumpers are documented to write into the descriptor are whitelisted (path suffix, format, encoding, dialect, mediatype, profile, temporal format, decimalChar, groupChar, bareNumber, trueValues, falseValues, counters)']
ASSUMES = ['none about later steps: a later step may stop reading a resource early (suffix take2); for the printer that case is the open finding C05.printer_silent_when_downstream_stops_early']

OBS = ['printer', 'dump', 'zip', 'stream', 'checkpoint', 'finalizer', 'finalizer_stats', 'update_stats', 'validate', 'dump_noforce']
SUFFIX = ['none', 'mutate', 'filter', 'delete_first', 'delete_last', 'delete_all', 'delete_middle', 'concat', 'join_delete', 'join_keep', 'join_inner', 'dedup', 'add_field', 'take2']
WHITELIST_RES = {'path', 'format', 'encoding', 'dialect', 'mediatype', 'profile', 'bytes', 'hash', 'count_of_rows'}
WHITELIST_FIELD = {'format', 'decimalChar', 'groupChar', 'bareNumber', 'trueValues', 'falseValues'}
WHITELIST_PKG = {'bytes', 'hash', 'count_of_rows', 'profile'}


def gen_cases(rng, tier):
    n = {'quick': 90, 'thorough': 900, 'search': 400}[tier]
    cases = []
    for i in range(n):
        nres = rng.randint(1, 3)
        sizes = [rng.pick([0, 1, 3, 7, 120 if rng.chance(0.1) else 4]) for _ in range(nres)]
        obs = OBS[i % len(OBS)]
        c = {'kind': 'observer', 'sizes': sizes, 'obs': obs, 'suffix': rng.pick(SUFFIX),
             'prefix': rng.pick(['none', 'add_field', 'row_fn', 'empty_first'])}
        if obs == 'dump_noforce':
            # force_format=False: resources whose path has no known extension are not written, the others are
            c['odd'] = [j for j in range(nres) if rng.chance(0.5)]
        cases.append(c)
    # systematically: a join that has nothing to index (its source was emptied upstream) must still let the observers
    # before it see the whole target
    for obs in ('dump', 'stream', 'checkpoint', 'finalizer', 'printer', 'zip'):
        cases.append({'kind': 'observer', 'sizes': [3, 5], 'obs': obs, 'suffix': 'join_inner', 'prefix': 'empty_first'})
    for n_ in (1, 3, 7, 30):
        cases.append({'kind': 'observer', 'sizes': [n_], 'obs': 'printer', 'suffix': 'mutate', 'prefix': 'none'})
    for obs in ('stream', 'checkpoint'):
        cases.append({'kind': 'observer', 'sizes': [3], 'obs': obs, 'suffix': 'none', 'prefix': 'surrogate'})
    # a later step that stops reading early, behind every observer
    for obs in OBS:
        cases.append({'kind': 'observer', 'sizes': [5, 3], 'obs': obs, 'suffix': 'take2', 'prefix': 'none', **({'odd': []} if obs == 'dump_noforce' else {})})
    # runs that abort while rows are flowing: a finalizer placed before the failing step must not fire at all
    for obs in ('finalizer', 'finalizer_stats'):
        for n_, at in ((5, 2), (150, 120), (3, 0)):
            cases.append({'kind': 'abort', 'sizes': [n_], 'obs': obs, 'at': at, 'prefix': 'none', 'suffix': 'none'})
    # fields that carry titles, after another dumper of the same process has written a package with use_titles=True: what this
    # dumper writes is headed by the field names its descriptor lists (round 8)
    for obs in ('dump', 'dump_noforce'):
        for warm in (True, False):
            cases.append({'kind': 'observer', 'sizes': [3, 2], 'obs': obs, 'suffix': 'none', 'prefix': 'titles', 'warm_titles': warm,
                          **({'odd': []} if obs == 'dump_noforce' else {})})
    # a package with no resources at all at the observer's position: it still commits (a descriptor, a valid zip, a stream
    # file holding the descriptor line) and reports
    for obs in ('dump', 'zip', 'stream', 'checkpoint', 'finalizer'):
        cases.append({'kind': 'observer', 'sizes': [], 'obs': obs, 'suffix': 'none', 'prefix': 'none'})
    for odd in ([0], [1], [0, 2], []):
        cases.append({'kind': 'observer', 'sizes': [3, 4, 2], 'obs': 'dump_noforce', 'suffix': 'none', 'prefix': 'none', 'odd': odd})
    return cases


def mk_sources(sizes):
    return [[{'k': j % 3, 'v': 10 * i + j, 't': datetime.date(2020, 1, 1 + j % 20)} for j in range(n)] for i, n in enumerate(sizes)]


def suffix_steps(case, names):
    s = case['suffix']
    if s == 'none':
        return []
    if s == 'filter':
        return [DF.filter_rows(condition=lambda r: r['v'] % 2 == 0)]
    if s == 'mutate':           # a later step that edits rows in place
        return [eval('lambda row: _f(row)', {'_f': _rowfn}), DF.add_field('late', 'string', 'L')]
    if s == 'delete_first':
        return [DF.delete_resource(0)]
    if s == 'delete_last':
        return [DF.delete_resource(-1)]
    if s == 'delete_all':
        return [DF.delete_resource(None)]
    if s == 'delete_middle':
        return [DF.delete_resource(len(names) // 2)]
    if s == 'concat':
        return [DF.concatenate({'k': [], 'v': [], 't': []}, target={'name': 'all'})]
    if s in ('join_delete', 'join_keep'):
        if len(names) < 2:
            return []
        return [DF.join(names[0], ['k'], names[1], ['k'], {'cnt': {'aggregate': 'count'}}, source_delete=(s == 'join_delete'))]
    if s == 'join_inner':
        if len(names) < 2:
            return []
        return [DF.join(names[0], ['k'], names[1], ['k'], {'cnt': {'aggregate': 'count'}}, mode='inner', source_delete=True)]
    if s == 'take2':            # a later step that stops reading each resource after two rows (it discards the rest unread)
        return [eval('lambda rows: _f(rows)', {'_f': _take2})]
    if s == 'dedup':
        return [DF.set_primary_key(['k']), DF.deduplicate()]
    if s == 'add_field':
        return [DF.add_field('z', 'integer', 1)]


def _take2(rows):
    for i, r in enumerate(rows):
        if i >= 2:
            break
        yield r


def _rowfn(row):
    row['v'] = row['v'] + 1000


def canon_desc(dp, stamps_ok):
    out = []
    for r in dp.get('resources', []):
        rr = dict((k, v) for k, v in r.items() if not (stamps_ok and k in WHITELIST_RES))
        sch = copy.deepcopy(rr.get('schema', {}))
        for f in sch.get('fields', []):
            for k in list(f):
                if stamps_ok and k in WHITELIST_FIELD:
                    del f[k]
        rr['schema'] = sch
        out.append(rr)
    return out


def _set_titles(package):
    for res in package.pkg.descriptor['resources']:
        for f in res['schema']['fields']:
            f['title'] = 'The %s column' % f['name']
    yield package.pkg
    yield from package


def run_impl(case):
    wd = os.path.join(scratch(), 'c5_%s' % digest(case))
    shutil.rmtree(wd, ignore_errors=True)
    os.makedirs(wd)
    if case.get('warm_titles'):
        with quiet():
            Flow([{'k': 1, 'city': 'x'}], _set_titles, DF.dump_to_path(os.path.join(wd, 'warm'), use_titles=True)).process()
    sizes = case['sizes']
    names = ['res_%d' % (i + 1) for i in range(len(sizes))]
    calls = []
    state = {'downstream_at_callback': None}
    delivered_count = [0]

    def prefix():
        p = [list(map(dict, rows)) for rows in mk_sources(sizes)]
        if not sizes:
            p = [DF.update_package(title='a package without resources')]
        if case['prefix'] == 'add_field':
            p.append(DF.add_field('p', 'string', 'x'))
        if case['prefix'] == 'row_fn':
            p.append(eval('lambda row: _f(row)', {'_f': _rowfn}))
        if case['prefix'] == 'surrogate':
            # a legal str with lone surrogates (what os.fsdecode gives for undecodable bytes) and other awkward characters
            p.append(DF.add_field('s', 'string', 'r\udce9sum\udce9 \u2028 \x00 \U0001d11e'))
        if case['prefix'] == 'titles':
            p.append(_set_titles)
        if case['prefix'] == 'empty_first':
            p.append(DF.filter_rows(condition=lambda r: False, resources=names[0]))
        for j in [j for j in case.get('odd', []) if j < len(names)]:
            p.append(DF.update_resource(names[j], path=names[j] + '.txt'))
        return p

    def observer():
        o = case['obs']
        if o == 'printer':
            printed = []
            state['printed'] = printed
            return DF.printer(num_rows=1, table_print=lambda d, kw: printed.append(d), header_print=lambda h, kw: None, tablefmt='plain')
        if o == 'dump':
            return DF.dump_to_path(os.path.join(wd, 'd'))
        if o == 'dump_noforce':
            return DF.dump_to_path(os.path.join(wd, 'd'), force_format=False)
        if o == 'zip':
            return DF.dump_to_zip(os.path.join(wd, 'd.zip'))
        if o == 'stream':
            return DF.stream(os.path.join(wd, 's', 'out.ndjson'))
        if o == 'checkpoint':
            return DF.checkpoint('ck', checkpoint_path=os.path.join(wd, 'ck'))
        if o == 'finalizer':
            def cb():
                calls.append(delivered_count[0])
            return DF.finalizer(cb)
        if o == 'finalizer_stats':
            # a finalizer whose callback asks for the stats: what it is handed must be the stats as they stand when the
            # last row has passed (an upstream dumper's counters included), not an earlier snapshot
            def cbs(stats):
                calls.append(delivered_count[0])
                state['stats_seen'] = dict(stats)
            return Flow(DF.update_stats({'seen': True}), DF.dump_to_path(os.path.join(wd, 'fd')), DF.finalizer(cbs))
        if o == 'update_stats':
            return DF.update_stats({'seen': True})
        if o == 'validate':
            return DF.validate()

    def run(steps, count=False):
        with quiet():
            ds = Flow(*steps).datastream()
            rows = []
            for res in ds.res_iter:
                cur = []
                for r in res:
                    cur.append(dict(r))
                    if count:
                        delivered_count[0] += 1
                rows.append(cur)
        return ds.dp.descriptor, rows
    if case['kind'] == 'abort':
        import gc

        def failing(rows):
            for i, r in enumerate(rows):
                if i == case['at']:
                    raise RuntimeError('a later step fails here')
                yield r
        raised = False
        try:
            with quiet():
                Flow(*(prefix() + [observer(), failing])).process()
        except Exception:
            raised = True
        gc.collect()
        shutil.rmtree(wd, ignore_errors=True)
        return {'raised': raised, 'calls_after_abort': len(calls)}
    out = {}
    try:
        dp0, rows0 = run(prefix() + suffix_steps(case, names))
        # (after a finalizer that reports the stats, a later step contributes stats of its own: they are not the finalizer's business)
        later = [DF.update_stats({'later': True})] if case['obs'] == 'finalizer_stats' else []
        dp1, rows1 = run(prefix() + [observer()] + later + suffix_steps(case, names), count=True)
        dpP, rowsP = run(prefix())
        stamps = case['obs'] in ('dump', 'zip', 'finalizer_stats', 'dump_noforce')
        out['down_same_rows'] = rows_enc_l(rows1) == rows_enc_l(rows0)
        out['down_same_desc'] = json.dumps(enc(canon_desc(dp1, stamps)), sort_keys=True) == json.dumps(enc(canon_desc(dp0, stamps)), sort_keys=True)
        out['n_down'] = [len(r) for r in rows1]
        out['prefix_counts'] = [len(r) for r in rowsP]
        o = case['obs']
        if o == 'dump':
            d = os.path.join(wd, 'd')
            out['persisted'] = [count_csv_rows(os.path.join(d, n + '.csv')) for n in names]
            out['committed'] = os.path.exists(os.path.join(d, 'datapackage.json'))
            if out['committed']:
                with quiet():
                    back = Flow(DF.load(os.path.join(d, 'datapackage.json'))).results()[0]
                out['content_same'] = rows_enc_l(back) == rows_enc_l(rowsP)
        elif o == 'dump_noforce':
            d = os.path.join(wd, 'd')
            odd = [j for j in case.get('odd', []) if j < len(names)]
            out['persisted'] = [None if j in odd else count_csv_rows(os.path.join(d, n + '.csv')) for j, n in enumerate(names)]
            out['unwritten_absent'] = all(not os.path.exists(os.path.join(d, names[j] + '.txt')) for j in odd)
            out['committed'] = os.path.exists(os.path.join(d, 'datapackage.json'))
            if out['committed']:
                dd = json.load(open(os.path.join(d, 'datapackage.json')))
                out['listed'] = [[r['name'], r['path'], [f['name'] for f in r['schema']['fields']]] for r in dd['resources']]
                out['listed_want'] = [[r['name'], r['path'], [f['name'] for f in r['schema']['fields']]] for r in dpP['resources']]
        elif o == 'zip':
            import zipfile, io
            try:
                with zipfile.ZipFile(os.path.join(wd, 'd.zip')) as z:
                    out['persisted'] = [len(list(csv.reader(io.StringIO(z.read(n + '.csv').decode('utf-8'), newline='')))) - 1
                                        if (n + '.csv') in z.namelist() else None for n in names]
                    out['committed'] = 'datapackage.json' in z.namelist()
            except Exception as e:
                out['persisted'] = None
                out['committed'] = False
        elif o in ('stream', 'checkpoint'):
            f = os.path.join(wd, 's', 'out.ndjson') if o == 'stream' else os.path.join(wd, 'ck', 'ck', 'stream.ndjson')
            out['committed'] = os.path.exists(f)
            if out['committed']:
                lines = open(f).read().split('\n')[1:]
                per, cur = [], 0
                for l in lines[:-1] if lines and lines[-1] == '' else lines:
                    if l.strip():
                        cur += 1
                    else:
                        per.append(cur)
                        cur = 0
                out['persisted'] = per
                with quiet():
                    ds = Flow(DF.unstream(f)).datastream()
                    back = [[dict(r) for r in res] for res in ds.res_iter]
                out['content_same'] = rows_enc_l([[dict(sorted(r.items())) for r in rs] for rs in back]) == \
                    rows_enc_l([[dict(sorted(r.items())) for r in rs] for rs in rowsP])
        elif o == 'printer':
            out['tables'] = len(state['printed'])
            last = []
            for t in state['printed']:
                idx = [int(l.split()[0]) for l in t.splitlines() if l.split() and l.split()[0].isdigit()]
                last.append(max(idx) if idx else 0)
            out['printer_last_index'] = last
            # the values shown must be those of the stream at the printer's position (a later step adds 1000 to v in place)
            nums = [int(tok) for t in state['printed'] for tok in t.replace('|', ' ').split() if tok.isdigit()]
            out['printer_max_number'] = max(nums) if nums else 0
        elif o in ('finalizer', 'finalizer_stats'):
            out['calls'] = calls
            out['total_delivered'] = delivered_count[0]
            if o == 'finalizer_stats':
                st = state.get('stats_seen') or {}
                out['stats_seen'] = {'seen': st.get('seen'), 'count_of_rows': st.get('count_of_rows'), 'has_hash': st.get('hash') is not None,
                                     'later': st.get('later')}
    except Exception as e:
        c = e
        while type(c).__name__ == 'ProcessorError' and getattr(c, 'cause', None) is not None:
            c = c.cause
        out = {'error': '%s: %s' % (type(c).__name__, str(c)[:200])}
    shutil.rmtree(wd, ignore_errors=True)
    return out


def rows_enc_l(rows):
    return [rows_enc(r) for r in rows]


def oracle(case, out):
    if case['kind'] == 'abort':
        if not out['raised']:
            return 'a later step raised at row %d but the run returned normally' % case['at']
        if out['calls_after_abort']:
            return 'the run aborted at row %d of %d, yet the finalizer fired (%d times)' % (case['at'], case['sizes'][0], out['calls_after_abort'])
        return None
    if 'error' in out:
        if case['suffix'] in ('concat',) and 'empty row' in out['error']:
            return None
        return 'pipeline failed: %s' % out['error']
    o = case['obs']
    if not out['down_same_rows']:
        return '%s is not transparent: the rows seen downstream differ with and without it' % o
    if not out['down_same_desc']:
        return '%s is not transparent: the schemas seen downstream differ with and without it (beyond the documented stamps)' % o
    want = out['prefix_counts']
    if o in ('dump', 'zip', 'stream', 'checkpoint'):
        if not out.get('committed'):
            return '%s did not commit its output although the run completed (suffix %s)' % (o, case['suffix'])
        if out.get('persisted') != want:
            return '%s persisted %r rows per resource, the stream at its position has %r (suffix %s)' % (o, out.get('persisted'), want, case['suffix'])
        if out.get('content_same') is False:
            return '%s persisted rows that differ from the stream at its position (suffix %s)' % (o, case['suffix'])
    if o == 'dump_noforce':
        if not out.get('committed'):
            return 'dump_to_path(force_format=False) did not commit its descriptor'
        exp = [None if j in case.get('odd', []) else w for j, w in enumerate(want)]
        if out.get('persisted') != exp:
            return 'dump_to_path(force_format=False) persisted %r rows per resource, the stream at its position has %r (unknown formats %r)' % (
                out.get('persisted'), want, case.get('odd'))
        if out.get('listed') != out.get('listed_want'):
            return 'dump_to_path(force_format=False) lists the resources %r, the package at its position is %r' % (out.get('listed'), out.get('listed_want'))
    if o == 'printer':
        if out['tables'] != len(want):
            return 'printer reported %d resources of %d' % (out['tables'], len(want))
        if out['printer_last_index'] != want:
            return 'printer\'s last row indexes %r, stream lengths %r' % (out['printer_last_index'], want)
        limit = 2000 if case['prefix'] == 'row_fn' else 1000
        if out.get('printer_max_number', 0) >= limit:
            return 'printer shows the value %d: rows as edited by a later step, not the stream at its position' % out['printer_max_number']
    if o == 'finalizer_stats':
        ss = out.get('stats_seen') or {}
        if ss.get('seen') is not True or ss.get('count_of_rows') != sum(want) or not ss.get('has_hash'):
            return 'finalizer was handed stats %r; when the last row has passed the upstream dumper has counted %d rows' % (ss, sum(want))
        if ss.get('later') is not None:
            return 'finalizer was handed stats contributed by a step placed after it (%r)' % (ss,)
    if o in ('finalizer', 'finalizer_stats'):
        if len(out['calls']) != 1:
            return 'finalizer fired %d times' % len(out['calls'])
        if out['calls'][0] != out['total_delivered']:
            return 'finalizer fired after %d of %d delivered rows' % (out['calls'][0], out['total_delivered'])
    return None


def finding(case, out, failure):
    # known finding: the printer prints its table when a resource's rows run out; when a later step stops reading the
    # resource early the printer's generator is abandoned, and only the header has been printed
    if case.get('obs') == 'printer' and case.get('suffix') == 'take2' and (failure or '').startswith('printer reported') \
            and out.get('down_same_rows') and out.get('tables', 0) < len(out.get('prefix_counts', [])):
        if any(n > 2 for n in out.get('prefix_counts', [])):
            return 'C05.printer_silent_when_downstream_stops_early'
    return None


def witnesses():
    return [{'kind': 'observer', 'sizes': [5], 'obs': 'printer', 'suffix': 'take2', 'prefix': 'none',
             'witness_of': 'C05.printer_silent_when_downstream_stops_early'}]


def coq_term(case, out):
    if case['kind'] == 'observer' and case['suffix'] == 'take2' and 'error' not in out and isinstance(out.get('persisted'), list) \
            and all(isinstance(x, int) for x in out['persisted']) and case['obs'] in ('dump', 'zip', 'stream', 'checkpoint'):
        # the pull protocol: the later step asks for three rows of every resource (it hands on two and stops at the third) and
        # goes on; what the observer persisted is what the model's observer has seen when the stream has been taken to its end
        pkg = clist([clist([cnat(j) for j in range(n)]) for n in out['prefix_counts']])
        takes = clist([cnat(3)] * len(out['prefix_counts']))
        return ('(let s := fst (orun nat true (start nat %s) (reads %s)) in finished nat s && '
                'list_eqb Nat.eqb (map (@List.length nat) (done s)) %s)') % (pkg, takes, clist([cnat(x) for x in out['persisted']]))
    if case['kind'] == 'abort' or 'error' in out or len(case['sizes']) != 1 or case['sizes'][0] > 20:
        return None
    # single-resource cases: the model's observer is transparent and records every row
    # (a prefix that filters every row away leaves an empty stream at the observer's position)
    n = 0 if case['prefix'] == 'empty_first' else case['sizes'][0]
    return ('(let s := source (fun _ => []) %d %d in '
            'Nat.eqb (records 1 (lmap (g_observe 1) s)) %d && Nat.eqb (List.length (rows_of (committing 1 s))) %d)%%nat') % (
        n, SAMPLE, out['prefix_counts'][0], out['prefix_counts'][0])


def nontrivial(case, out):
    return case['kind'] == 'abort' or case['suffix'] not in ('none', 'add_field')


def shrinks(case):
    if len(case['sizes']) > 1:
        for i in range(len(case['sizes'])):
            c = copy.deepcopy(case)
            del c['sizes'][i]
            yield c
