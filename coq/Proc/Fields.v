(* select_fields, delete_fields, rename_fields, add_computed_field / add_field,
   find_replace: schema phase and row phase, following the Python sources. *)
From Coq Require Import List ZArith Bool Lia.
From DF Require Import Base.Str Base.Lits Base.Value Proc.RowOps.
Import ListNotations.
Open Scope Z_scope.

(* A field-name pattern after compilation: decided by Python's re on the
   schema's names (handed over as a table), or literally when regex=False. *)
Definition pat := str -> bool.

(* ---------- select_fields ---------- *)
(* for selected_field in fields: for name in list(dp_fields.keys()): if match: move *)
Fixpoint select_names (pats : list pat) (remaining : list str) : list str :=
  match pats with
  | [] => []
  | p :: ps => filter p remaining ++ select_names ps (filter (fun n => negb (p n)) remaining)
  end.

Definition select_schema (pats : list pat) (names : list str) : res (list str) :=
  match select_names pats names with
  | [] => Err E_ASSERT          (* "Can't find any fields to select" *)
  | l => Ok l
  end.

(* dict((k, v) for k, v in row.items() if k in fields) *)
Definition keep_keys (keep : list str) (r : row) : row :=
  filter (fun kv => str_in (fst kv) keep) r.

(* ---------- delete_fields ---------- *)
Definition delete_names (pats : list pat) (names : list str) : list str :=
  filter (fun n => negb (existsb (fun p => p n) pats)) names.

(* ---------- rename_fields ---------- *)
(* first pattern that matches decides; [sub] is the result of src.sub(tgt, name) *)
Record rpat := { rp_match : str -> bool; rp_sub : str -> str }.

Fixpoint rename_one (pats : list rpat) (n : str) : option str :=
  match pats with
  | [] => None
  | p :: ps => if rp_match p n then Some (rp_sub p n) else rename_one ps n
  end.

(* schema phase for one resource: returns (new names, renames dict) or the
   assertion "Renaming two fields to the same name" *)
Fixpoint rename_schema (pats : list rpat) (names : list str) (targets : list str)
  : res (list str * list (str * str)) :=
  match names with
  | [] => Ok ([], [])
  | n :: ns =>
      match rename_one pats n with
      | None =>
          match rename_schema pats ns targets with
          | Err c => Err c
          | Ok (l, m) => Ok (n :: l, m)
          end
      | Some t =>
          if str_in t targets then Err E_ASSERT
          else match rename_schema pats ns (t :: targets) with
               | Err c => Err c
               | Ok (l, m) => Ok (t :: l, (n, t) :: m)
               end
      end
  end.

Fixpoint lookup_str (m : list (str * str)) (k : str) : option str :=
  match m with
  | [] => None
  | (a, b) :: m' => if str_eqb k a then Some b else lookup_str m' k
  end.

(* dict((fields.get(k, k), v) for k, v in row.items()) *)
Definition rename_row (m : list (str * str)) (r : row) : row :=
  rdict (map (fun kv => (match lookup_str m (fst kv) with Some t => t | None => fst kv end, snd kv)) r).

(* ---------- add_computed_field ---------- *)
Inductive cop :=
| OpSum | OpAvg | OpMax | OpMin | OpMultiply
| OpConstant
| OpJoin
| OpFormat (parts : list (str + str))      (* with_ parsed: literal text / {field} *)
| OpLit (v : value)                         (* add_field's default: lambda row: default *)
| OpGet (k : str).                          (* a callable operation: lambda row: row.get(k) *)

Definition E_ZERODIV : Z := 6.
Definition E_VALUE : Z := 4.
Definition E_UNMODELLED : Z := 99.

(* str(x) for the scalar kinds the generators produce *)
Definition str_of_value (v : value) : res str :=
  match v with
  | VNull => Ok s_None
  | VBool true => Ok s_True
  | VBool false => Ok s_False
  | VInt z => Ok (str_of_Z z)
  | VStr x => Ok x
  | _ => Err E_UNMODELLED
  end.

Fixpoint ints_of (vs : list value) : option (list Z) :=
  match vs with
  | [] => Some []
  | VInt z :: r => match ints_of r with Some l => Some (z :: l) | None => None end
  | VBool b :: r => match ints_of r with Some l => Some ((if b then 1 else 0) :: l) | None => None end
  | _ => None
  end.

(* canonical float: odd mantissa (or 0 with exponent 0) *)
Fixpoint flt_norm (fuel : nat) (m e : Z) : value :=
  match fuel with
  | O => VFlt m e
  | S f => if m =? 0 then VFlt 0 0
           else if Z.even m then flt_norm f (m / 2) (e + 1) else VFlt m e
  end.

(* exact x / n as a float when the quotient is a dyadic rational with a small
   power-of-two denominator; otherwise outside the model *)
Definition exact_div (x n : Z) : res value :=
  if n =? 0 then Err E_ZERODIV
  else if (x mod n =? 0) then Ok (flt_norm 200 (x / n) 0)
  else if ((2 * x) mod n =? 0) then Ok (flt_norm 200 (2 * x / n) (-1))
  else if ((4 * x) mod n =? 0) then Ok (flt_norm 200 (4 * x / n) (-2))
  else if ((8 * x) mod n =? 0) then Ok (flt_norm 200 (8 * x / n) (-3))
  else Err E_UNMODELLED.

Definition zsum (l : list Z) : Z := fold_left Z.add l 0.

Fixpoint join_strs (sep : str) (l : list str) : str :=
  match l with
  | [] => []
  | [x] => x
  | x :: r => x ++ sep ++ join_strs sep r
  end.

Fixpoint strs_of (vs : list value) : res (list str) :=
  match vs with
  | [] => Ok []
  | v :: r => match str_of_value v with
              | Err c => Err c
              | Ok x => match strs_of r with Err c => Err c | Ok l => Ok (x :: l) end
              end
  end.

Fixpoint format_parts (parts : list (str + str)) (r : row) : res str :=
  match parts with
  | [] => Ok []
  | inl lit :: ps => match format_parts ps r with Err c => Err c | Ok x => Ok (lit ++ x) end
  | inr f :: ps =>
      match rget r f with
      | None => Err E_KEY
      | Some v => match str_of_value v with
                  | Err c => Err c
                  | Ok a => match format_parts ps r with Err c => Err c | Ok x => Ok (a ++ x) end
                  end
      end
  end.

(* values = [row.get(c) for c in source if row.get(c) is not None] *)
Definition source_values (sources : list str) (r : row) : list value :=
  filter (fun v => negb (is_null v)) (map (rget0 r) sources).

Definition compute (op : cop) (sources : list str) (with_ : str) (r : row) : res value :=
  let vals := source_values sources r in
  match op with
  | OpConstant => Ok (VStr with_)
  | OpLit v => Ok v
  | OpGet k => Ok (rget0 r k)
  | OpFormat parts => match format_parts parts r with Err c => Err c | Ok x => Ok (VStr x) end
  | OpJoin => match strs_of vals with Err c => Err c | Ok l => Ok (VStr (join_strs with_ l)) end
  | _ =>
      match ints_of vals with
      | None => Err E_UNMODELLED
      | Some zs =>
          match op with
          | OpSum => Ok (VInt (zsum zs))
          | OpAvg => exact_div (zsum zs) (Z.of_nat (length zs))
          | OpMax => match zs with [] => Err E_VALUE | z :: r => Ok (VInt (fold_left Z.max r z)) end
          | OpMin => match zs with [] => Err E_VALUE | z :: r => Ok (VInt (fold_left Z.min r z)) end
          | OpMultiply => match zs with [] => Err E_TYPE | z :: r => Ok (VInt (fold_left Z.mul r z)) end
          | _ => Err E_UNMODELLED
          end
      end
  end.

Record cfield := { cf_op : cop; cf_sources : list str; cf_with : str; cf_target : str }.

(* for field in fields: row[target] = op(...)  -- sequential, later fields see earlier ones *)
Fixpoint compute_row (fs : list cfield) (r : row) : res row :=
  match fs with
  | [] => Ok r
  | f :: fs' =>
      match compute (cf_op f) (cf_sources f) (cf_with f) r with
      | Err c => Err c
      | Ok v => compute_row fs' (rset r (cf_target f) v)
      end
  end.

Fixpoint map_res {A B} (f : A -> res B) (l : list A) : res (list B) :=
  match l with
  | [] => Ok []
  | x :: r => match f x with
              | Err c => Err c
              | Ok y => match map_res f r with Err c => Err c | Ok ys => Ok (y :: ys) end
              end
  end.

(* get_type(res_fields, operation_fields, operation) *)
Definition op_is_fmt_or_join (op : cop) : bool :=
  match op with OpJoin | OpFormat _ => true | _ => false end.
Definition op_is_avg (op : cop) : bool := match op with OpAvg => true | _ => false end.

Definition get_type (schema : list (str * str)) (sources : list str) (op : cop) : str :=
  let types := map snd (filter (fun f => str_in (fst f) sources) schema) in
  if str_in s_any types then s_any
  else if op_is_fmt_or_join op then s_string
  else if str_in s_number types || op_is_avg op then s_number
  else match types with t :: _ => t | [] => s_any end.

(* schema phase: resource['schema']['fields'].extend(new_fields) *)
Definition computed_schema (schema : list (str * str)) (fs : list cfield) : list (str * str) :=
  schema ++ map (fun f => (cf_target f, get_type schema (cf_sources f) (cf_op f))) fs.

(* ---------- find_replace ---------- *)
(* one field: its patterns, each the table of re.sub(find, replace, .) *)
Record frfield := { fr_name : str; fr_subs : list (str -> str) }.

Definition fr_apply (f : frfield) (r : row) : res row :=
  match fr_subs f with
  | [] => Ok r                       (* no patterns: the row is not even looked at *)
  | _ =>
      match rget r (fr_name f) with
      | None => Err E_KEY
      | Some v =>
          match str_of_value v with
          | Err c => Err c
          | Ok x => Ok (rset r (fr_name f) (VStr (fold_left (fun acc g => g acc) (fr_subs f) x)))
          end
      end
  end.

Fixpoint find_replace_row (fs : list frfield) (r : row) : res row :=
  match fs with
  | [] => Ok r
  | f :: fs' => match fr_apply f r with Err c => Err c | Ok r' => find_replace_row fs' r' end
  end.

(* table-backed helpers for case files *)
Fixpoint tbl_sub (t : list (str * str)) (x : str) : str :=
  match t with
  | [] => x
  | (a, b) :: t' => if str_eqb x a then b else tbl_sub t' x
  end.
Definition mk_rpat (names : list str) (t : list (str * str)) : rpat :=
  {| rp_match := tbl_match names; rp_sub := tbl_sub t |}.
