"""C10 Resource selectors mean the same thing in every processor."""
import re, copy, json
from common import *
from flowutil import *
import dataflows as DF
from dataflows.helpers.resource_matcher import ResourceMatcher

PROP = 'C10'
PROPS_V = 'Props/C10.v'
COQ_IMPORTS = ['Base.Str', 'Base.Value', 'Base.Regex', 'Base.Selector']
RULE = ('cases = (a) ResourceMatcher unit cases and (b) every selector-taking processor x selector form '
        '(None / regex from a generated AST / list / integer incl. negative and out of range) x packages of 1-4 '
        'resources whose names are prefixes of one another or contain regex metacharacters; non-trivial = the '
        'selector selects a proper, non-empty subset or is rejected; distinct = distinct case digest'
        '; round 4: every resource carries its own values; systematic non-adjacent selections for every selector-taking step'
        '; round 7: the first selected resource systematically; every case also read after all resources were taken from the stream'
        '; round 8: the argument forms of validate (field + function, row function) under one selector over resources that do and do not declare the field'
        '; round 9: foreign keys between the resources and a custom schema-level property (descriptors of unselected resources stay as they are)')
TRUSTED = ['Coq 8.16.1 kernel + vm_compute', 'harness/p10.py printers (regex AST -> pattern text) and oracle',
           'Python re.fullmatch as the meaning of "fully matches" for the direct oracle; the Coq matcher is compared with it on every generated pattern',
           'gen_consts.py extraction of ResourceMatcher call-site arguments (ast)']
ASSUMES = ['resource names in a package are unique (Data Package rule); C10_index_selects_position carries NoDup names',
           'regex fragment: literals, ., classes, concatenation, alternation, *, +, ? (no anchors/look-around/back-references)']

NAMES = ['a', 'ab', 'a.b', 'abc', 'a+', 'b', 'x|y', 'r(1)', 'res_1', 'res_10', 'd[0]', 'axb']


# ---------------- regex ASTs
def gen_re(rng, names, depth=0):
    k = rng.randint(0, 9)
    if depth >= 3:
        k = rng.randint(0, 2)
    if k <= 1:
        return ['lit', rng.pick(names)]
    if k == 2:
        nm = rng.pick(names)
        return ['lit', nm[:rng.randint(1, len(nm))]]
    if k == 3:
        return ['seq', gen_re(rng, names, depth + 1), ['star', ['any']]]
    if k == 4:
        return ['alt', gen_re(rng, names, depth + 1), gen_re(rng, names, depth + 1)]
    if k == 5:
        return ['seq', gen_re(rng, names, depth + 1), gen_re(rng, names, depth + 1)]
    if k == 6:
        return ['opt', gen_re(rng, names, depth + 1)]
    if k == 7:
        return ['seq', ['lit', rng.pick(names)[:1]], ['plus', ['class', rng.chance(0.3), [[97, 122], [48, 57]] if rng.chance(0.5) else [[46, 46], [95, 95]]]]]
    if k == 8:
        return ['star', gen_re(rng, names, depth + 1)]
    return ['seq', ['any'], gen_re(rng, names, depth + 1)]


def parse_regex(p):
    """a raw pattern text (e.g. a resource name used as a selector) -> AST; supports literals . | ( ) [ ] * + ?"""
    pos = [0]

    def alt():
        left = seq()
        while pos[0] < len(p) and p[pos[0]] == '|':
            pos[0] += 1
            left = ['alt', left, seq()]
        return left

    def seq():
        items = []
        while pos[0] < len(p) and p[pos[0]] not in '|)':
            items.append(post())
        if not items:
            return ['lit', '']
        out = items[-1]
        for it in reversed(items[:-1]):
            out = ['seq', it, out]
        return out

    def post():
        a = atom()
        while pos[0] < len(p) and p[pos[0]] in '*+?':
            a = [{'*': 'star', '+': 'plus', '?': 'opt'}[p[pos[0]]], a]
            pos[0] += 1
        return a

    def atom():
        c = p[pos[0]]
        pos[0] += 1
        if c == '.':
            return ['any']
        if c == '(':
            a = alt()
            pos[0] += 1
            return a
        if c == '[':
            neg = p[pos[0]] == '^'
            if neg:
                pos[0] += 1
            rs = []
            while p[pos[0]] != ']':
                a = p[pos[0]]
                if p[pos[0] + 1] == '-' and p[pos[0] + 2] != ']':
                    rs.append([ord(a), ord(p[pos[0] + 2])])
                    pos[0] += 3
                else:
                    rs.append([ord(a), ord(a)])
                    pos[0] += 1
            pos[0] += 1
            return ['class', neg, rs]
        if c == '\\':
            c = p[pos[0]]
            pos[0] += 1
        return ['lit', c]
    return alt()


def show(r, top=True):
    t = r[0]
    if t == 'raw':
        return r[1]
    if t == 'lit':
        return re.escape(r[1]) if len(r[1]) else '(?:)'
    if t == 'any':
        return '.'
    if t == 'class':
        body = ''.join((re.escape(chr(a)) if a == b else '%s-%s' % (re.escape(chr(a)), re.escape(chr(b)))) for a, b in r[2])
        return '[' + ('^' if r[1] else '') + body + ']'
    if t == 'seq':
        return show(r[1], False) + show(r[2], False)
    if t == 'alt':
        x = show(r[1], True) + '|' + show(r[2], True)
        return x if top else '(?:' + x + ')'
    if t in ('star', 'plus', 'opt'):
        return '(?:' + show(r[1], True) + ')' + {'star': '*', 'plus': '+', 'opt': '?'}[t]
    raise ValueError(t)


def coq_re(r):
    t = r[0]
    if t == 'raw':
        return coq_re(parse_regex(r[1]))
    if t == 'lit':
        if not r[1]:
            return 'REps'
        out = None
        for c in reversed(r[1]):
            out = '(RChr %d)' % ord(c) if out is None else '(RSeq (RChr %d) %s)' % (ord(c), out)
        return out
    if t == 'any':
        return 'RAny'
    if t == 'class':
        return '(RClass %s %s)' % (cbool(r[1]), clist(['(%d, %d)' % (a, b) for a, b in r[2]]))
    if t in ('seq', 'alt'):
        return '(%s %s %s)' % ('RSeq' if t == 'seq' else 'RAlt', coq_re(r[1]), coq_re(r[2]))
    return '(%s %s)' % ({'star': 'RStar', 'plus': 'RPlus', 'opt': 'ROpt'}[t], coq_re(r[1]))


def gen_sel(rng, names):
    k = rng.randint(0, 9)
    if k == 0:
        return ['all']
    if k <= 1:
        return ['re', ['raw', rng.pick(names + ['zz', 'a.*', 'a.b', 'res_1|a'])]]      # a name (or raw text) used as the pattern
    if k <= 4:
        return ['re', gen_re(rng, names + ['zz'])]
    if k <= 6:
        pool = names + ['zz', 'a']
        return ['list', rng.sample(pool, rng.randint(0, min(3, len(pool))))]
    return ['idx', rng.randint(-len(names) - 1, len(names))]


def py_sel(sel):
    if sel[0] == 'all':
        return None
    if sel[0] == 're':
        return show(sel[1])
    if sel[0] == 'list':
        return list(sel[1])
    return sel[1]


def coq_sel(sel):
    if sel[0] == 'all':
        return 'SAll'
    if sel[0] == 're':
        return '(SRegex %s)' % coq_re(sel[1])
    if sel[0] == 'list':
        return '(SList %s)' % cstrs(sel[1])
    return '(SIndex %s)' % cZ(sel[1])


def spec(sel, names):
    """the property's statement, directly: list of bools, or None when rejected"""
    if sel[0] == 'all':
        return [True] * len(names)
    if sel[0] == 're':
        pat = re.compile(show(sel[1]))
        return [pat.fullmatch(n) is not None for n in names]
    if sel[0] == 'list':
        return [n in sel[1] for n in names]
    i = sel[1]
    if -len(names) <= i < len(names):
        j = i % len(names)
        return [k == j for k in range(len(names))]
    return None


# ---------------- processors
ROWS = [{'a': 'x', 'b': 2}, {'a': 'y', 'b': 1}, {'a': 'x', 'b': 2}]
FIELDS = [{'name': 'a', 'type': 'string'}, {'name': 'b', 'type': 'integer'}]


def mk_step(proc, s, log):
    if proc == 'validate':
        return DF.validate('b', lambda v: v < 2, resources=s, on_error=DF.schema_validator.drop)
    if proc == 'deduplicate':
        return DF.deduplicate(resources=s)
    if proc == 'printer':
        return DF.printer(resources=s, header_print=lambda h, kw: log.append(h), table_print=lambda d, kw: None)
    if proc == 'set_type':
        return DF.set_type('b', type='number', transform=lambda v: None if v is None else v + 1000, resources=s)     # the transform makes the touched rows visible
    if proc == 'sort_rows':
        return DF.sort_rows('{b}', resources=s)
    if proc == 'filter_rows':
        return DF.filter_rows(equals=[{'a': 'x'}], resources=s)
    if proc == 'unpivot':
        return DF.unpivot([{'name': 'b', 'keys': {'k': 'B'}}], [{'name': 'k', 'type': 'string'}],
                          {'name': 'v', 'type': 'integer'}, resources=s)
    if proc == 'concatenate':
        return DF.concatenate({'a': [], 'b': []}, target={'name': 'CONCAT'}, resources=s)
    if proc == 'delete_resource':
        return DF.delete_resource(s)
    if proc == 'update_resource':
        return DF.update_resource(s, title='T')
    if proc == 'update_schema':
        return DF.update_schema(s, missingValues=['', 'NA'])
    if proc == 'set_primary_key':
        return DF.set_primary_key(['b'], resources=s)
    if proc == 'parallelize':
        return DF.parallelize(_par_func, num_processors=1, resources=s)
    if proc == 'add_computed_field':
        return DF.add_computed_field([{'operation': 'constant', 'target': 'c', 'with': 'k'}], resources=s)
    if proc == 'add_field':
        return DF.add_field('c', 'string', 'k', resources=s)
    if proc == 'find_replace':
        return DF.find_replace([{'name': 'a', 'patterns': [{'find': 'x', 'replace': 'z'}]}], resources=s)
    if proc == 'select_fields':
        return DF.select_fields(['a'], resources=s)
    if proc == 'delete_fields':
        return DF.delete_fields(['a'], resources=s)
    if proc == 'rename_fields':
        return DF.rename_fields({'a': 'aa'}, resources=s)
    raise ValueError(proc)


def _par_func(row):
    row['a'] = row['a'] + '!'


PROCS = ['validate', 'deduplicate', 'printer', 'set_type', 'sort_rows', 'filter_rows', 'unpivot', 'concatenate',
         'delete_resource', 'update_resource', 'update_schema', 'set_primary_key', 'add_computed_field',
         'add_field', 'find_replace', 'select_fields', 'delete_fields', 'rename_fields', 'load_tuple', 'load_dp',
         'parallelize']


def gen_cases(rng, tier):
    n_unit, n_step = {'quick': (150, 260), 'thorough': (1500, 2600), 'search': (300, 900)}[tier]
    cases = []
    for _ in range(n_unit):
        names = rng.sample(NAMES, rng.randint(1, 4))
        cases.append({'kind': 'matcher', 'names': names, 'sel': gen_sel(rng, names), 'as_dict': rng.chance(0.5)})
    procs = [p for p in PROCS if p != 'parallelize']
    for i in range(n_step):
        names = rng.sample(NAMES, rng.randint(1, 4))
        cases.append({'kind': 'step', 'proc': procs[i % len(procs)], 'names': names, 'sel': gen_sel(rng, names)})
        if len(names) >= 2 and rng.chance(0.25):
            cases[-1]['fk'] = True         # foreign keys between the resources and a custom schema property
        if len(names) >= 2 and rng.chance(0.3):
            # the last resource is produced upstream as a duplicate of the first (its rows exist only once the
            # first has been read): a step must leave it intact whatever it does to the first
            cases[-1]['dup'] = True
    # systematically: every processor with the first resource selected (by name and by position) while the last one is
    # an upstream duplicate of it
    for proc in procs:
        names = rng.sample(NAMES, rng.randint(2, 3))
        cases.append({'kind': 'step', 'proc': proc, 'names': names, 'sel': ['list', [names[0]]], 'dup': True})
        cases.append({'kind': 'step', 'proc': proc, 'names': names, 'sel': ['idx', 0], 'dup': True})
    # systematically: the first resource selected, unselected ones after it (read both in turn and with all resources taken first)
    for proc in procs:
        names = rng.sample(NAMES, 3)
        cases.append({'kind': 'step', 'proc': proc, 'names': names, 'sel': ['list', [names[0]]]})
        cases.append({'kind': 'step', 'proc': proc, 'names': names, 'sel': ['list', [names[0], names[1]]]})
    # systematically: selections that are not adjacent in the package (steps that treat the selection as a run of
    # consecutive resources must refuse them or leave the resource in between alone)
    for proc in procs:
        names = rng.sample(NAMES, rng.randint(3, 4))
        cases.append({'kind': 'step', 'proc': proc, 'names': names, 'sel': ['list', [names[0], names[2]]]})
        cases.append({'kind': 'step', 'proc': proc, 'names': names, 'sel': ['list', [names[-1], names[0]]]})
    # the argument forms of one processor under the same selector: validate(field, fn) means validate(row function) with
    # fn applied to the row's value for that field, in every selected resource, whether or not its schema declares the field
    # systematically: foreign keys pointing at a resource that a step removes or merges: the other resources' descriptors stay as they are
    for proc in ('delete_resource', 'concatenate', 'update_resource', 'set_type'):
        names = ['a', 'ab', 'b']
        for sel in (['list', ['a']], ['idx', -1], ['re', ['raw', 'a.*']]):
            cases.append({'kind': 'step', 'proc': proc, 'names': names, 'sel': sel, 'fk': True})
    for i in range({'quick': 24, 'thorough': 200, 'search': 40}[tier]):
        names = rng.sample(NAMES, rng.randint(2, 4))
        cases.append({'kind': 'forms', 'names': names, 'sel': gen_sel(rng, names) if i % 3 else ['all'],
                      'fn': rng.pick(['required', 'small', 'required_small']), 'lacking': [j for j in range(len(names)) if rng.chance(0.5)] or [0]})
    for i in range({'quick': 6, 'thorough': 40, 'search': 6}[tier]):
        names = rng.sample(NAMES, rng.randint(2, 3))
        cases.append({'kind': 'step', 'proc': 'parallelize', 'names': names, 'sel': gen_sel(rng, names)})
    return cases


def resources_for(names, fk=False):
    # every resource has its own values, so that rows attached to the wrong resource show
    res = [{'name': n, 'fields': FIELDS, 'rows': [dict(r, b=r['b'] + 10 * i) for r in ROWS], 'pk': ['a']} for i, n in enumerate(names)]
    if fk:
        # every resource refers to the one before it (the first to the last) by a foreign key, and carries a schema-level custom property
        for i, r in enumerate(res):
            r['schema_props'] = {'foreignKeys': [{'fields': 'a', 'reference': {'resource': names[i - 1], 'fields': 'a'}}], 'x-note': 'schema of %s' % names[i]}
    return res


def canon(out):
    if 'error' in out:
        return out
    res = []
    for d, rows in zip(out['dp']['resources'], out['rows']):
        d = copy.deepcopy(d)
        res.append([json.dumps(enc(d), sort_keys=True), rows_enc(rows)])
    return {'res': res, 'names': [d['name'] for d in out['dp']['resources']], 'nstreams': len(out['rows'])}


FORM_FNS = {'required': lambda v: v is not None, 'small': lambda v: v is None or v < 12, 'required_small': lambda v: v is not None and v < 12}


def forms_resources(case):
    res = []
    for i, n in enumerate(case['names']):
        rows = [dict(r, b=r['b'] + 10 * i) for r in ROWS] + [{'a': 'z', 'b': None}]
        if i in case['lacking']:
            # the schema does not declare b and the rows do not carry it
            res.append({'name': n, 'fields': FIELDS[:1], 'rows': [{'a': r['a']} for r in rows], 'pk': None})
        else:
            res.append({'name': n, 'fields': FIELDS, 'rows': rows, 'pk': None})
    return res


def run_forms(case):
    sel = py_sel(case['sel'])
    fn = FORM_FNS[case['fn']]
    out = {}
    for form, mk in (('field', lambda: DF.validate('b', fn, resources=sel, on_error=DF.schema_validator.drop)),
                     ('row', lambda: DF.validate(lambda row: fn(row.get('b')), resources=sel, on_error=DF.schema_validator.drop))):
        try:
            o = run_stream(forms_resources(case), [mk()])
        except Exception as e:
            o = {'error': err_code(e), 'exc': '%s: %s' % (type(e).__name__, e)}
        out[form] = {'error': o['error'], 'exc': o.get('exc')} if 'error' in o else {'rows': [rows_enc(x) for x in o['rows']]}
    return out


def run_impl(case):
    if case['kind'] == 'forms':
        return run_forms(case)
    names = case['names']
    sel = py_sel(case['sel'])
    if case['kind'] == 'matcher':
        desc = {'resources': [{'name': n, 'path': n + '.csv'} for n in names]}
        try:
            m = ResourceMatcher(sel, desc if case['as_dict'] else Package(desc))
            return {'selected': [bool(m.match(n)) for n in names]}
        except Exception as e:
            return {'error': E_INDEX if isinstance(e, IndexError) else err_code(e), 'exc': '%s: %s' % (type(e).__name__, e)}
    proc = case['proc']
    res = resources_for(names, fk=case.get('fk', False))
    if proc in ('load_tuple', 'load_dp'):
        return run_load(case, res, sel)
    log = []
    pre = []
    if case.get('dup'):
        res = resources_for(names[:-1], fk=case.get('fk', False))
        pre = [DF.duplicate(source=names[0], target_name=names[-1], target_path=names[-1] + '.csv', duplicate_to_end=True)]
    base = canon(run_stream(res, pre + []))
    try:
        step_all = mk_step(proc, None, [])
        step_sel = mk_step(proc, sel, log)
    except Exception as e:
        return {'error': err_code(e), 'exc': '%s: %s' % (type(e).__name__, e), 'phase': 'construct'}
    alls = canon(run_stream(res, pre + [step_all]))
    if case.get('dup'):
        pre = [DF.duplicate(source=names[0], target_name=names[-1], target_path=names[-1] + '.csv', duplicate_to_end=True)]
    # (row- and field-level steps that chain lazily: also with all resources taken before any row is read)
    lazy = proc in ('set_type', 'filter_rows', 'find_replace', 'add_computed_field', 'validate', 'deduplicate', 'update_resource',
                    'update_schema', 'set_primary_key', 'unpivot', 'sort_rows') and not case.get('dup')
    out = canon(run_stream(res, pre + [step_sel], rerun=(proc != 'printer'), collect=lazy))      # the printer's output is collected in one log
    r = {'base': base, 'all': alls, 'out': out, 'printed': log}
    if not case.get('dup') and proc != 'printer' and 'error' not in out:
        # a step object that has already run on this package, used again in a flow over a larger package, must behave
        # like a fresh step given the same selector
        try:
            bigger = resources_for(['zz_front'] + names + ['zz_back'])
            reused = canon(run_stream(bigger, [step_sel], rerun=False))
            fresh = canon(run_stream(bigger, [mk_step(proc, sel, [])], rerun=False))
            r['reuse_same'] = reused == fresh
            if not r['reuse_same']:
                r['reuse_diff'] = [str(reused)[:200], str(fresh)[:200]]
        except Exception as e:
            r['reuse_same'] = False
            r['reuse_diff'] = ['%s: %s' % (type(e).__name__, str(e)[:150]), '']
    return r


E_INDEX = 5


def run_load(case, res, sel):
    names = case['names']
    pre = [{'name': 'pre', 'fields': FIELDS, 'rows': ROWS[:1], 'pk': None}]
    desc = {'name': 'pkg', 'resources': [{'name': n, 'path': n + '.csv', 'schema': {'fields': copy.deepcopy(FIELDS)},
                                           'profile': 'tabular-data-resource'} for n in names]}
    try:
        if case['proc'] == 'load_tuple':
            its = [iter([dict(r, a=r['a'] + str(i)) for r in ROWS]) for i in range(len(names))]
            step = DF.load((desc, its), resources=sel)
        else:
            d = os.path.join(scratch(), 'pk_' + digest(names))
            if not os.path.exists(os.path.join(d, 'datapackage.json')):
                with quiet():
                    Flow(Src([{'name': n, 'fields': FIELDS, 'rows': [dict(r, a=r['a'] + str(i)) for r in ROWS]}
                              for i, n in enumerate(names)]), DF.dump_to_path(d)).process()
            step = DF.load(os.path.join(d, 'datapackage.json'), resources=sel)
        out = run_stream(pre, [step], rerun=(case['proc'] != 'load_tuple'))
    except Exception as e:
        return {'error': err_code(e), 'exc': '%s: %s' % (type(e).__name__, e)}
    if 'error' in out:
        return out
    return {'loaded': [d['name'] for d in out['dp']['resources']][1:],
            'rows_first_a': [[r['a'] for r in rows][:1] for rows in out['rows']][1:],
            'nstreams': len(out['rows'])}


def observed_selected(case, out):
    """which input resources the run treated as selected (None if not derivable)"""
    names = case['names']
    proc = case.get('proc')
    if case['kind'] == 'matcher':
        return out.get('selected')
    if proc in ('load_tuple', 'load_dp'):
        if 'loaded' not in out:
            return None
        return [n in out['loaded'] for n in names]
    o = out.get('out')
    if not o or 'error' in o:
        return None
    if proc == 'printer':
        return [n in out['printed'] for n in names]
    if proc in ('delete_resource', 'concatenate'):
        return [n not in o['names'] for n in names]
    if len(o['res']) != len(names):
        return None
    return [o['res'][i] != out['base']['res'][i] for i in range(len(names))]


def oracle(case, out):
    names = case['names']
    sp = spec(case['sel'], names)
    proc = case.get('proc')
    if case['kind'] == 'forms':
        if sp is None:
            return None if all('error' in out[f] for f in ('field', 'row')) else 'validate: out-of-range integer selector accepted'
        fn = FORM_FNS[case['fn']]
        want = [rows_enc([r for r in res['rows'] if not selected or fn(r.get('b'))]) for res, selected in zip(forms_resources(case), sp)]
        for form in ('field', 'row'):
            if 'error' in out[form]:
                return 'validate (%s form) with selector %r failed: %s' % (form, py_sel(case['sel']), out[form]['exc'])
            if out[form]['rows'] != want:
                bad = [n for n, g, w in zip(names, out[form]['rows'], want) if g != w]
                return ('validate(%s, resources=%r, on_error=drop) over %r (resources %r do not declare the field): resources %r come out with %r rows, '
                        'the selector and the function give %r') % (
                    "'b', fn" if form == 'field' else 'row function', py_sel(case['sel']), names, [names[j] for j in case['lacking']], bad,
                    [len(x) for x in out[form]['rows']], [len(x) for x in want])
        return None
    if case['kind'] == 'matcher':
        if sp is None:
            return None if 'error' in out else 'matcher: out-of-range integer selector accepted'
        if 'error' in out:
            return 'matcher: selector rejected (%s)' % out['exc']
        return None if out['selected'] == sp else 'matcher: selected %r, the selector means %r' % (out['selected'], sp)
    if out.get('reuse_same') is False:
        return '%s: the step object, used again in a flow over a larger package, behaves differently from a fresh step: %r' % (proc, out.get('reuse_diff'))
    if 'error' in out:
        if sp is None:
            return None
        return '%s: selector rejected (%s)' % (proc, out.get('exc'))
    if proc in ('load_tuple', 'load_dp'):
        if sp is None:
            return '%s: out-of-range integer selector accepted' % proc
        want = [n for n, b in zip(names, sp) if b]
        if out['loaded'] != want:
            return '%s: loaded %r, the selector means %r' % (proc, out['loaded'], want)
        if out['nstreams'] != 1 + len(want):
            return '%s: %d row streams for %d resources' % (proc, out['nstreams'], 1 + len(want))
        idx = [i for i, b in enumerate(sp) if b]
        if [x[0][-1:] for x in out['rows_first_a'] if x] != [str(i) for i in idx]:
            return '%s: rows of the wrong source resource were attached to the selected names' % proc
        return None
    o, base, alls = out['out'], out['base'], out['all']
    if 'error' in o:
        if sp is None:
            return None
        if proc == 'concatenate' and not consecutive(sp):
            return None   # explicit, documented assertion
        if proc == 'set_type' and not any(sp):
            return None   # set_type asserts that it matched some field
        return '%s: run failed (%s) for a meaningful selector' % (proc, o.get('exc'))
    if sp is None:
        return '%s: out-of-range integer selector accepted' % proc
    if proc == 'printer':
        want = [n for n, b in zip(names, sp) if b]
        if out['printed'] != want:
            return 'printer: printed %r, the selector means %r' % (out['printed'], want)
        return None if o['res'] == base['res'] else 'printer changed the data'
    if proc == 'delete_resource':
        want = [n for n, b in zip(names, sp) if not b]
        if o['names'] != want or o['nstreams'] != len(want):
            return 'delete_resource: kept %r, expected %r' % (o['names'], want)
        keep = [base['res'][i] for i, b in enumerate(sp) if not b]
        return None if o['res'] == keep else 'delete_resource changed an unselected resource'
    if proc == 'concatenate':
        if not any(sp):
            want = names + ['CONCAT']
        else:
            first = sp.index(True)
            want = [n for n, b in zip(names[:first], sp) if not b] + ['CONCAT'] + [n for n, b in zip(names, sp) if not b][first:]
        if o['names'] != want:
            return 'concatenate: resources %r, expected %r' % (o['names'], want)
        for n, r in zip(o['names'], o['res']):
            if n != 'CONCAT' and r != base['res'][names.index(n)]:
                return 'concatenate changed the unselected resource %r' % n
        ci = o['names'].index('CONCAT')
        if len(o['res'][ci][1]) != len(ROWS) * sum(sp):
            return 'concatenate: %d rows in the target for %d selected resources' % (len(o['res'][ci][1]), sum(sp))
        return None
    if len(o['res']) != len(names):
        return '%s: %d resources out for %d in' % (proc, len(o['res']), len(names))
    for i, b in enumerate(sp):
        want = alls['res'][i] if b else base['res'][i]
        if 'error' in alls:
            return '%s: fails even with all resources selected (%s)' % (proc, alls.get('exc'))
        if o['res'][i] != want:
            return '%s: resource #%d (%r) %s' % (proc, i, names[i], 'was not processed although selected' if b
                                                 else 'was changed although not selected')
    return None


def consecutive(sp):
    idx = [i for i, b in enumerate(sp) if b]
    return not idx or idx == list(range(idx[0], idx[-1] + 1))


def coq_term(case, out):
    if case['kind'] == 'forms':
        names = cstrs(case['names'])
        if spec(case['sel'], case['names']) is None:
            return 'match selected %s %s with Err _ => true | Ok _ => false end' % (coq_sel(case['sel']), names)
        if 'error' in out['field']:
            return None
        # a resource whose rows changed is one the model's reading of the selector selects
        changed = [g != rows_enc(res['rows']) for g, res in zip(out['field']['rows'], forms_resources(case))]
        return ('match selected %s %s with Ok l => forallb (fun p => implb (fst p) (snd p)) (combine %s l) | Err _ => false end'
                % (coq_sel(case['sel']), names, clist([cbool(b) for b in changed])))
    obs = observed_selected(case, out)
    names = cstrs(case['names'])
    if obs is None:
        failed = ('error' in out) or ('out' in out and 'error' in out['out'])
        sp = spec(case['sel'], case['names'])
        if failed and (sp is None):
            return 'match selected %s %s with Err _ => true | Ok _ => false end' % (coq_sel(case['sel']), names)
        if failed and case.get('proc') in ('concatenate', 'set_type'):
            return None
        return 'false'
    return 'res_eqb (list_eqb Bool.eqb) (selected %s %s) (Ok %s)' % (coq_sel(case['sel']), names, clist([cbool(b) for b in obs]))


def coq_model_term(case):
    return 'selected %s %s' % (coq_sel(case['sel']), cstrs(case['names']))


def nontrivial(case, out):
    sp = spec(case['sel'], case['names'])
    return sp is None or (any(sp) and not all(sp))


def shrinks(case):
    if case['kind'] == 'forms':
        return
    if len(case['names']) > 1:
        for i in range(len(case['names'])):
            c = copy.deepcopy(case)
            del c['names'][i]
            yield c


def finding(case, out, failure):
    return None
