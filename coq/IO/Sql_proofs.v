From Coq Require Import List ZArith Bool Lia.
From DF Require Import Base.Str Base.Str_proofs Base.ListX Base.Value Base.Value_proofs Proc.RowOps IO.Sql.
Import ListNotations.
Open Scope Z_scope.

Definition virt (s : wstate) : table := w_table s ++ w_buffer s.

Lemma virt_flush s : virt (flush s) = virt s.
Proof. unfold virt, flush. simpl. rewrite app_nil_r. reflexivity. Qed.

Ltac fin := unfold virt; cbn [w_table w_buffer flush w_seen]; simpl; rewrite ?app_nil_r, <- ?app_assoc; simpl; reflexivity.
Ltac norm_in H := try rewrite virt_flush in H; unfold virt in H; cbn [w_table w_buffer flush w_seen] in H; simpl in H;
                  rewrite ?app_nil_r, <- ?app_assoc in H; simpl in H.


(* ================= append / rewrite: no keys ================= *)
Lemma write_row_nokeys ub fp bs init s r : virt (write_row None ub fp bs init s r) = virt s ++ [r].
Proof.
  unfold write_row, check_existing. simpl.
  match goal with |- context [if ?c then _ else _] => destruct c end; unfold virt; simpl;
    rewrite ?app_nil_r, <- ?app_assoc; reflexivity.
Qed.

Lemma fold_nokeys ub fp bs init rows : forall s,
  virt (fold_left (write_row None ub fp bs init) rows s) = virt s ++ rows.
Proof.
  induction rows as [|r rs IH]; intros s; simpl; [rewrite app_nil_r; reflexivity|].
  rewrite IH, write_row_nokeys, <- app_assoc. reflexivity.
Qed.

Theorem append_spec ub fp bs t rows : w_table (impl_dump Append ub fp bs t rows) = spec_dump Append t rows.
Proof.
  unfold impl_dump, write_all, spec_dump.
  change (w_table (flush ?s)) with (virt s). rewrite fold_nokeys. unfold virt. simpl. rewrite app_nil_r. reflexivity.
Qed.

Theorem rewrite_spec ub fp bs t rows : w_table (impl_dump Rewrite ub fp bs t rows) = spec_dump Rewrite t rows.
Proof.
  unfold impl_dump, write_all, spec_dump.
  change (w_table (flush ?s)) with (virt s). rewrite fold_nokeys. reflexivity.
Qed.

(* ================= update ================= *)
Section Upd.
  Variable ks : list str.
  Variable fp : row -> bool.
  Variable bs : Z.
  Variable init : table.

  Definition keyof (r : row) : list value := map (rget0 r) ks.

  (* Python equality of key tuples is an equivalence on the keys in play (no NaN), and the
     Bloom filter's answer depends on the key only *)
  Hypothesis key_refl : forall a, key_eq a a = true.
  Hypothesis key_sym : forall a b, key_eq a b = key_eq b a.
  Hypothesis key_trans : forall a b c, key_eq a b = true -> key_eq b c = true -> key_eq a c = true.
  Hypothesis fp_key : forall a b, key_eq (keyof a) (keyof b) = true -> fp a = fp b.

  Lemma key_match_eq x r : key_match ks x r = true -> key_eq (keyof x) (keyof r) = true.
  Proof.
    unfold key_match, keyof. induction ks as [|k l IH]; simpl; [reflexivity|].
    intros H. apply andb_true_iff in H as [H1 H2]. unfold sql_eq in H1.
    rewrite H1. simpl. apply IH, H2.
  Qed.

  Definition known (seen : list row) (x : row) : bool :=
    existsb (fun y => key_eq (keyof y) (keyof x)) (init ++ seen) || fp x.

  Lemma known_mono seen seen' x : known seen x = true -> known (seen ++ seen') x = true.
  Proof.
    unfold known. intros H. apply orb_true_iff in H as [H|H]; [|rewrite H; apply orb_true_r].
    apply orb_true_iff. left. rewrite app_assoc, existsb_app, H. reflexivity.
  Qed.

  Lemma known_key seen x y : key_eq (keyof x) (keyof y) = true -> known seen x = known seen y.
  Proof.
    intros E. unfold known. rewrite (fp_key x y E). f_equal.
    induction (init ++ seen) as [|z l IH]; simpl; [reflexivity|]. rewrite IH. f_equal.
    destruct (key_eq (keyof z) (keyof x)) eqn:A.
    - symmetry. eapply key_trans; eassumption.
    - destruct (key_eq (keyof z) (keyof y)) eqn:B; [|reflexivity].
      rewrite key_sym in E. rewrite (key_trans _ _ _ B E) in A. discriminate.
  Qed.

  (* with the filter on: every stored row's key is known to the filter *)
  Definition inv (s : wstate) : Prop := forall x, In x (virt s) -> known (w_seen s) x = true.

  Definition row_ok (r : row) : Prop := NoDup (rkeys r) /\ forall k, In k ks -> rhas r k = true.

  Lemma keyof_rupdate x r : row_ok r -> keyof (rupdate x r) = keyof r.
  Proof.
    intros [ND H]. unfold keyof. apply map_ext_in. intros k Hk. specialize (H k Hk).
    apply rhas_rget in H as [v Hv]. unfold rget0. rewrite (rget_rupdate_in r x k v ND Hv), Hv. reflexivity.
  Qed.

  Notation write_row := (write_row (Some ks) true fp bs init).

  (* one row: the virtual table (flushed ++ buffered) is upserted, and the invariant is kept *)
  Lemma write_row_upsert s r :
    row_ok r -> inv s ->
    virt (write_row s r) = upsert ks (virt s) r /\ inv (write_row s r) /\
    (exists l, w_seen (write_row s r) = w_seen s ++ l).
  Proof.
    intros OK Inv. unfold Sql.write_row, check_existing.
    fold (known (w_seen s) r).
    assert (KE : forall l, existsb (fun x => key_eq (map (rget0 x) ks) (map (rget0 r) ks)) l
                           = existsb (fun y => key_eq (keyof y) (keyof r)) l) by reflexivity.
    rewrite KE. fold (known (w_seen s) r).
    destruct (known (w_seen s) r) eqn:Kn.
    - (* the filter says "maybe there": flush, try UPDATE *)
      cbn [fst snd]. unfold sql_update. cbn [w_table flush].
      fold (virt s).
      destruct (existsb (fun x => key_match ks x r) (virt s)) eqn:Hit.
      + split; [|split].
        * unfold virt at 1. cbn [w_table w_buffer]. rewrite app_nil_r. unfold upsert. rewrite Hit. reflexivity.
        * intros x Hx. unfold virt in Hx. cbn [w_table w_buffer w_seen] in *. rewrite app_nil_r in Hx.
          apply in_map_iff in Hx as [y [<- Hy]]. destruct (key_match ks y r) eqn:M.
          -- match goal with |- known ?sn _ = true => rewrite (known_key sn (rupdate y r) r) end; [exact Kn|].
             rewrite keyof_rupdate by exact OK. apply key_refl.
          -- apply Inv, Hy.
        * exists []. cbn [w_seen]. rewrite app_nil_r. reflexivity.
      + (* nothing matched: insert *)
        assert (U : upsert ks (virt s) r = virt s ++ [r]) by (unfold upsert; rewrite Hit; reflexivity).
        rewrite U.
        match goal with |- context [if ?c then _ else _] => destruct c end.
        * split; [|split].
          -- rewrite virt_flush. fin.
          -- intros x Hx. norm_in Hx. cbn [w_seen flush].
             rewrite in_app_iff in Hx. destruct Hx as [Hx|Hx].
             ++ apply Inv. unfold virt. apply in_or_app. left. exact Hx.
             ++ rewrite in_app_iff in Hx. destruct Hx as [Hx|[<-|[]]]; [apply Inv; unfold virt; apply in_or_app; right; exact Hx|exact Kn].
          -- exists []. cbn [w_seen flush]. rewrite app_nil_r. reflexivity.
        * split; [|split].
          -- fin.
          -- intros x Hx. norm_in Hx. cbn [w_seen flush].
             rewrite in_app_iff in Hx. destruct Hx as [Hx|Hx].
             ++ apply Inv. unfold virt. apply in_or_app. left. exact Hx.
             ++ rewrite in_app_iff in Hx. destruct Hx as [Hx|[<-|[]]]; [apply Inv; unfold virt; apply in_or_app; right; exact Hx|exact Kn].
          -- exists []. cbn [w_seen flush]. rewrite app_nil_r. reflexivity.
    - (* the filter says "definitely new": by the invariant no stored row has this key *)
      assert (NoHit : existsb (fun x => key_match ks x r) (virt s) = false).
      { destruct (existsb (fun x => key_match ks x r) (virt s)) eqn:Hit; [|reflexivity].
        apply existsb_exists in Hit as [x [Hx M]]. apply key_match_eq in M.
        rewrite <- (known_key (w_seen s) x r M) in Kn. rewrite (Inv x Hx) in Kn. discriminate. }
      assert (U : upsert ks (virt s) r = virt s ++ [r]) by (unfold upsert; rewrite NoHit; reflexivity).
      rewrite U. cbn [fst snd].
      assert (KnR : known (w_seen s ++ [r]) r = true).
      { unfold known. rewrite app_assoc, existsb_app. simpl. rewrite key_refl. rewrite orb_true_r. reflexivity. }
      match goal with |- context [if ?c then _ else _] => destruct c end.
      + split; [|split].
        * rewrite virt_flush. fin.
        * intros x Hx. norm_in Hx. cbn [w_seen flush].
          rewrite in_app_iff in Hx. destruct Hx as [Hx|Hx].
          -- apply known_mono, Inv. unfold virt. apply in_or_app. left. exact Hx.
          -- rewrite in_app_iff in Hx. destruct Hx as [Hx|[<-|[]]]; [apply known_mono, Inv; unfold virt; apply in_or_app; right; exact Hx|exact KnR].
        * exists [r]. reflexivity.
      + split; [|split].
        * fin.
        * intros x Hx. norm_in Hx. cbn [w_seen flush].
          rewrite in_app_iff in Hx. destruct Hx as [Hx|Hx].
          -- apply known_mono, Inv. unfold virt. apply in_or_app. left. exact Hx.
          -- rewrite in_app_iff in Hx. destruct Hx as [Hx|[<-|[]]]; [apply known_mono, Inv; unfold virt; apply in_or_app; right; exact Hx|exact KnR].
        * exists [r]. reflexivity.
  Qed.

  Lemma fold_upsert rows : forall s,
    (forall r, In r rows -> row_ok r) -> inv s ->
    virt (fold_left write_row rows s) = fold_left (upsert ks) rows (virt s).
  Proof.
    induction rows as [|r rs IH]; intros s OK Inv; simpl; [reflexivity|].
    destruct (write_row_upsert s r (OK r (or_introl eq_refl)) Inv) as [V [I _]].
    rewrite IH; [rewrite V; reflexivity|intros x Hx; apply OK; right; exact Hx|exact I].
  Qed.

  (* update mode with the Bloom filter on, for every false-positive behaviour, every batch size
     and every table: one row per key holding the most recently dumped values *)
  Theorem update_spec_bloom rows :
    init = init -> (forall r, In r rows -> row_ok r) ->
    w_table (write_all (Some ks) true fp bs init init rows) = fold_left (upsert ks) rows init.
  Proof.
    intros _ OK. unfold write_all. change (w_table (flush ?s)) with (virt s).
    rewrite fold_upsert; [unfold virt; simpl; rewrite app_nil_r; reflexivity|exact OK|].
    intros x Hx. unfold virt in Hx. simpl in Hx. rewrite app_nil_r in Hx.
    unfold known. simpl. rewrite app_nil_r. apply orb_true_iff. left.
    apply existsb_exists. exists x. split; [exact Hx|apply key_refl].
  Qed.
End Upd.

(* ================= update without the filter: every row attempts the UPDATE ================= *)
Lemma write_row_nobloom ks fp bs init s r :
  virt (write_row (Some ks) false fp bs init s r) = upsert ks (virt s) r.
Proof.
  unfold write_row, check_existing. cbn [fst snd]. unfold sql_update. cbn [w_table flush].
  fold (virt s). unfold upsert.
  destruct (existsb (fun x => key_match ks x r) (virt s)) eqn:Hit.
  - fin.
  - match goal with |- context [if ?c then _ else _] => destruct c end; [rewrite virt_flush|]; fin.
Qed.

Theorem update_spec_nobloom ks fp bs t rows :
  w_table (impl_dump (Update ks) false fp bs t rows) = spec_dump (Update ks) t rows.
Proof.
  unfold impl_dump, write_all, spec_dump. change (w_table (flush ?s)) with (virt s).
  assert (G : forall rs s, virt (fold_left (write_row (Some ks) false fp bs t) rs s) = fold_left (upsert ks) rs (virt s)).
  { induction rs as [|r rs IH]; intros s; simpl; [reflexivity|]. rewrite IH, write_row_nobloom. reflexivity. }
  rewrite G. unfold virt. simpl. rewrite app_nil_r. reflexivity.
Qed.

(* any sequence of dumps: the table is the fold of the per-mode specification *)
Theorem history_step (step_eq : forall d t, w_table (impl_dump (dc_mode d) (dc_bloom d) (fun _ => false) (dc_batch d) t (dc_rows d))
                                         = spec_dump (dc_mode d) t (dc_rows d)) h :
  forall t, run_history h t = spec_history h t.
Proof.
  induction h as [|d h IH]; intros t; simpl; [reflexivity|].
  unfold run_history, spec_history in *. simpl. rewrite step_eq. apply IH.
Qed.

(* rows continue downstream in input order: what the writer yields, projected to rows *)
Lemma out_rows_nokeys ub fp bs init rows : forall s,
  map fst (w_out (flush (fold_left (write_row None ub fp bs init) rows s)))
  = map fst (w_out s) ++ w_buffer s ++ rows.
Proof.
  induction rows as [|r rs IH]; intros s.
  - cbn [fold_left]. unfold flush. cbn [w_out w_buffer]. rewrite map_app, map_map. cbn [fst].
    rewrite map_id, app_nil_r. reflexivity.
  - cbn [fold_left]. rewrite IH. unfold write_row, check_existing. cbn [fst snd].
    match goal with |- context [if ?c then _ else _] => destruct c end.
    + unfold flush. cbn [w_out w_buffer w_table w_seen]. rewrite map_app, map_map. cbn [fst]. rewrite map_id.
      rewrite <- !app_assoc. reflexivity.
    + cbn [w_out w_buffer]. rewrite <- !app_assoc. reflexivity.
Qed.
