#!/bin/bash
# runs the named check against every harmless rewrite under seeded/harmless (each must stay silent, exit 0)
cd "$(dirname "$0")/.."
for d in $(ls -d seeded/harmless/H*/ | sort -V); do
  id=$(basename $d)
  for prop in $(python3 -c "import json;print(' '.join(json.load(open('$d/meta.json'))['checks']))"); do
    out=$(tools/try_patch.sh $d/patch.diff $prop 2>&1); rc=$?
    v=$(echo "$out" | grep -c "^VIOLATION")
    echo "$id $prop rc=$rc violations=$v :: $(echo "$out" | tail -1 | cut -c1-120)"
  done
done
