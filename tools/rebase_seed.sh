#!/bin/bash
# usage: tools/rebase_seed.sh <seed dir with patch.diff demo.py> : tries to re-apply the patch to /repo HEAD with fuzz in a
# scratch worktree; on success rewrites patch.diff (git diff) and reports whether the demo still fails with it
D=$(realpath "$1")
W=$(mktemp -d /tmp/rb_XXXXXX); rmdir "$W"
git -C /repo worktree add -q --detach "$W" HEAD || exit 2
cd "$W"
if patch -p1 -F3 -s --no-backup-if-mismatch < "$D/patch.diff" >/dev/null 2>&1; then
  find . -name '*.orig' -delete; find . -name '*.rej' -delete
  git diff > "$D/patch.diff.new"
  PYTHONPATH="$W" PYTHONHASHSEED=0 timeout 600 /venv/bin/python "$D/demo.py" > /dev/null 2>&1; RC=$?
  if [ "$RC" != "0" ] && /venv/bin/python -c "import dataflows" 2>/dev/null; then mv "$D/patch.diff.new" "$D/patch.diff"; echo "$D rebased demo_patched_rc=$RC"; else rm -f "$D/patch.diff.new"; echo "$D applies-with-fuzz but demo_rc=$RC"; fi
else
  echo "$D MANUAL"
fi
cd /; git -C /repo worktree remove --force "$W"
