(* dump_to_sql (dumpers/to_sql.py) on top of tableschema_sql's Writer: a table as a
   list of rows in insertion order; insert buffer, Bloom filter, UPDATE / INSERT. *)
From Coq Require Import List ZArith Bool Lia.
From DF Require Import Base.Str Base.Value Proc.RowOps.
Import ListNotations.
Open Scope Z_scope.

Definition table := list row.

(* equality on key columns as SQLAlchemy renders it: `col == None` becomes `col IS NULL`,
   so a null key matches a null key *)
Definition sql_eq (a b : value) : bool := py_eq a b.

Definition key_match (keys : list str) (a b : row) : bool :=
  forallb (fun k => sql_eq (rget0 a k) (rget0 b k)) keys.

(* UPDATE t SET <all columns of r> WHERE keys match *)
Definition sql_update (keys : list str) (t : table) (r : row) : table * bool :=
  (map (fun x => if key_match keys x r then rupdate x r else x) t, existsb (fun x => key_match keys x r) t).

(* ---------- specification: what each mode prescribes ---------- *)
Definition upsert (keys : list str) (t : table) (r : row) : table :=
  if existsb (fun x => key_match keys x r) t then fst (sql_update keys t r) else t ++ [r].

Inductive mode := Rewrite | Append | Update (keys : list str).

Definition spec_dump (m : mode) (t : table) (rows : list row) : table :=
  match m with
  | Rewrite => rows
  | Append => t ++ rows
  | Update keys => fold_left (upsert keys) rows t
  end.

(* ---------- implementation: Writer.write ---------- *)
Record wstate := {
  w_table : table;
  w_buffer : list row;
  w_seen : list row;            (* rows whose key went into the Bloom filter during this dump *)
  w_out : list (row * bool)     (* WrittenRow(row, updated), in the order they are yielded *)
}.

Section Writer.
  Variable keys : option (list str).      (* update_keys; None for rewrite/append *)
  Variable use_bloom : bool.
  Variable fp : row -> bool.              (* arbitrary false positives of the Bloom filter *)
  Variable buffer_size : Z.
  Variable initial : table.               (* table content when the filter was prepared *)

  Definition flush (s : wstate) : wstate :=
    {| w_table := w_table s ++ w_buffer s; w_buffer := []; w_seen := w_seen s;
       w_out := w_out s ++ map (fun r => (r, false)) (w_buffer s) |}.

  (* __check_existing *)
  Definition check_existing (s : wstate) (r : row) : bool * wstate :=
    match keys with
    | None => (false, s)
    | Some ks =>
        if use_bloom then
          let known := existsb (fun x => key_eq (map (rget0 x) ks) (map (rget0 r) ks)) (initial ++ w_seen s) || fp r in
          if known then (true, s)
          else (false, {| w_table := w_table s; w_buffer := w_buffer s; w_seen := w_seen s ++ [r]; w_out := w_out s |})
        else (true, s)
    end.

  Definition write_row (s : wstate) (r : row) : wstate :=
    let '(ex, s1) := check_existing s r in
    let continue_insert (s2 : wstate) :=
      let s3 := {| w_table := w_table s2; w_buffer := w_buffer s2 ++ [r]; w_seen := w_seen s2; w_out := w_out s2 |} in
      if buffer_size <? Z.of_nat (length (w_buffer s3)) then flush s3 else s3 in
    if ex then
      let s2 := flush s1 in
      let '(t', hit) := sql_update (match keys with Some ks => ks | None => [] end) (w_table s2) r in
      if hit then {| w_table := t'; w_buffer := w_buffer s2; w_seen := w_seen s2; w_out := w_out s2 ++ [(r, true)] |}
      else continue_insert s2
    else continue_insert s1.

  Definition write_all (t : table) (rows : list row) : wstate :=
    flush (fold_left write_row rows {| w_table := t; w_buffer := []; w_seen := []; w_out := [] |}).
End Writer.

(* process_resource: rewrite drops the table first *)
Definition impl_dump (m : mode) (use_bloom : bool) (fp : row -> bool) (buffer_size : Z) (t : table) (rows : list row) : wstate :=
  match m with
  | Rewrite => write_all None use_bloom fp buffer_size [] [] rows
  | Append => write_all None use_bloom fp buffer_size t t rows
  | Update ks => write_all (Some ks) use_bloom fp buffer_size t t rows
  end.

(* a history of dumps into the same table *)
Record dumpcfg := { dc_mode : mode; dc_bloom : bool; dc_batch : Z; dc_rows : list row }.

Definition run_history (h : list dumpcfg) (t : table) : table :=
  fold_left (fun t d => w_table (impl_dump (dc_mode d) (dc_bloom d) (fun _ => false) (dc_batch d) t (dc_rows d))) h t.
Definition spec_history (h : list dumpcfg) (t : table) : table :=
  fold_left (fun t d => spec_dump (dc_mode d) t (dc_rows d)) h t.

Definition table_eqb (a b : table) : bool := rows_eqb a b.

(* the order of rows in a relational table is not meaningful: compare as multisets *)
Fixpoint remove_row (r : row) (l : list row) : option (list row) :=
  match l with
  | [] => None
  | x :: l' => if row_eqb r x then Some l' else match remove_row r l' with Some m => Some (x :: m) | None => None end
  end.
Fixpoint table_perm_eqb (a b : table) : bool :=
  match a with
  | [] => match b with [] => true | _ => false end
  | r :: a' => match remove_row r b with Some b' => table_perm_eqb a' b' | None => false end
  end.
