"""C20 dump_to_sql leaves the table in the state its mode prescribes."""
import copy, json, datetime, decimal, tempfile
from common import *
from flowutil import *
import dataflows as DF
from sqlalchemy import create_engine, text

PROP = 'C20'
PROPS_V = 'Props/C20.v'
COQ_IMPORTS = ['Base.Str', 'Base.Value', 'Proc.RowOps', 'IO.Sql']
RULE = ('cases = sequences of 1-5 dumps into one SQLite table x mode per dump (rewrite/append/update) x update keys explicit or '
        'from the primary key (single and composite, with nulls) x batch size (1, 2, 1000) x bloom filter on/off x repeated keys '
        'inside one dump; a few cases with array/object columns; after every dump the table is read back with SELECT *; '
        'non-trivial = an update hits an existing key or a batch boundary is crossed; distinct = distinct case digest'
        '; round 7: a rewrite over a table whose column had another type (numeric-looking strings, integers into a text column), and the downstream rows observed through results() or behind a second dumper; round 4: history cases optionally declare schema missingValues without the empty string and hold empty strings in value and key columns'
        "; round 8: another table of the same database whose name starts with the target's name must survive every dump"
        '; round 9: relative SQLite URLs with the working directory changed between building and running; modes given as members of a str-based Enum')
TRUSTED = ['Coq 8.16.1 kernel + vm_compute', 'harness/p20.py oracle',
           'SQLite / SQLAlchemy / tableschema_sql.Writer are modelled (UPDATE..WHERE keys, batched INSERT, Bloom filter as any superset predicate), not verified; the model is compared with them on every case',
           'Python equality of key tuples is an equivalence (hypothesis of C20_update_with_filter)']
ASSUMES = ['rows carry all key columns', 'update with no keys at all is rejected by the storage library (recorded as rejection)']


def gen_cases(rng, tier):
    n = {'quick': 60, 'thorough': 600, 'search': 300}[tier]
    cases = []
    for i in range(n):
        composite = rng.chance(0.3)
        keys = ['k', 'k2'] if composite else ['k']
        pk = rng.chance(0.5)
        dumps = []
        for _ in range(rng.randint(1, 5)):
            rows = [{'k': rng.pick([1, 2, 3, 4, None] if rng.chance(0.2) else [1, 2, 3, 4]), 'k2': rng.pick(['p', 'q']),
                     'v': rng.pick(['a', 'b', 'c', None]), 'n': rng.randint(0, 9)} for _ in range(rng.randint(0, 6))]
            if pk:
                rows = [r for r in rows if r['k'] is not None]
            dumps.append({'mode': rng.pick(['rewrite', 'append', 'update', 'update']), 'rows': rows,
                          'batch': rng.pick([1, 2, 1000]), 'bloom': rng.chance(0.6)})
        if pk:
            # a primary key makes duplicates illegal for plain inserts: keep append/rewrite data key-unique per table state
            for d in dumps:
                if d['mode'] != 'update':
                    d['mode'] = 'update'
        c = {'kind': 'history', 'keys': keys, 'pk': pk, 'dumps': dumps, 'flags': rng.chance(0.5), 'keys_always': rng.chance(0.5)}
        if rng.chance(0.3):
            # the resource declares its own missing-value tokens, '' not among them: an empty string is then a value
            # (in a key too) and must reach the table as such
            c['mv'] = ['n/a']
            for d in dumps:
                for r in d['rows']:
                    if rng.chance(0.3):
                        r['v'] = ''
                    if rng.chance(0.2):
                        r['k2'] = ''
        if rng.chance(0.25):
            c['enum_mode'] = True
        if rng.chance(0.35):
            # how the rows that continue downstream are observed: by the caller of results() (which validates them against
            # the schema once more) or behind a second dumper (round 7)
            c['via'] = rng.pick(['results', 'then_dump'])
            if c['via'] == 'then_dump':
                # the flags are keys the schema does not declare and a file dumper refuses such rows (KeyError): what a
                # later dumper accepts is not this property's matter, so the second dumper sees rows without flags
                c['flags'] = False
        cases.append(c)
    for i in range(max(6, n // 6)):
        # a table written by an earlier dump with other column types, then rewritten: it holds exactly the dumped rows,
        # values and types (numeric-looking strings stay strings, integers stay integers) (round 7)
        t1, t2 = rng.pick([('integer', 'string'), ('string', 'integer'), ('number', 'string'), ('date', 'string'), ('string', 'string'),
                           ('integer', 'integer')])
        pools = {'integer': [7, 42, 1000, 0, None], 'number': [decimal.Decimal('1.5'), decimal.Decimal('7'), None],
                 'date': [datetime.date(2020, 1, 2), None], 'string': ['007', '1e3', '1.50', 'x-9', '0042', '12', ' 5', None]}
        mk = lambda t: [{'k': j, 'code': rng.pick(pools[t])} for j in range(rng.randint(1, 5))]
        dumps = [{'type': t1, 'mode': rng.pick(['rewrite', 'append']), 'rows': mk(t1)}, {'type': t2, 'mode': 'rewrite', 'rows': mk(t2)}]
        if rng.chance(0.5):
            dumps.append({'type': t2, 'mode': 'append', 'rows': [dict(r, k=r['k'] + 10) for r in mk(t2)]})
        cases.append({'kind': 'retype', 'dumps': [dict(d, rows=rows_enc(d['rows'])) for d in dumps], 'pk': rng.chance(0.5)})
    for chdir in (True, False):
        cases.append({'kind': 'relurl', 'chdir': chdir})
    # the three modes given as members of a str-based Enum, after an earlier dump
    for m2 in ('rewrite', 'update', 'append'):
        cases.append({'kind': 'history', 'keys': ['k'], 'pk': False, 'flags': True, 'keys_always': True, 'enum_mode': True,
                      'dumps': [{'mode': 'rewrite', 'rows': [{'k': 1, 'k2': 'p', 'v': 'a', 'n': 1}, {'k': 2, 'k2': 'p', 'v': 'b', 'n': 2}], 'batch': 1000, 'bloom': True},
                                {'mode': m2, 'rows': [{'k': 2, 'k2': 'q', 'v': 'B', 'n': 3}, {'k': 4, 'k2': 'q', 'v': 'd', 'n': 4}], 'batch': 1000, 'bloom': True}]})
    for i in range(max(4, n // 8)):
        # array/object columns: the engine gets converted copies; pairing of written and original rows across batches
        # nested values the engine conversion turns into text (dates, decimals inside objects and arrays) must
        # stay what they were in the rows handed on
        rows = [{'k': rng.randint(0, 3),
                 'arr': rng.pick([[1, 2], [], None, ['x', None], [{'d': datetime.date(2020, 1, 2)}], [decimal.Decimal('1.5'), [datetime.date(1999, 12, 31)]]]),
                 'obj': rng.pick([{'a': 1}, {}, None, {'b': [1]}, {'d': datetime.date(2021, 3, 4), 'n': {'m': decimal.Decimal('2.50')}},
                                  {'t': datetime.datetime(2020, 1, 2, 3, 4, 5)}])}
                for j in range(rng.randint(1, 7))]
        # rows whose array/object cells are all null, in front of and between rows with values
        for j in range(len(rows)):
            if rng.chance(0.35):
                rows[j]['arr'] = None
                rows[j]['obj'] = None
        cases.append({'kind': 'objects', 'rows': rows_enc(rows), 'mode': rng.pick(['rewrite', 'update']),
                      'batch': rng.pick([1, 2, 3, 1000]), 'flags': rng.chance(0.5)})
    return cases


def witnesses():
    return [{'kind': 'objects', 'rows': rows_enc([{'k': 1, 'arr': [1, 2], 'obj': {'a': 1}}]), 'witness_of': 'regression: C20.array_object_rows_jsonized (fixed)'}]


import enum


class Mode(str, enum.Enum):
    REWRITE = 'rewrite'
    APPEND = 'append'
    UPDATE = 'update'


def run_relurl(case):
    """a relative SQLite URL names the database file relative to where the step was built (the engine is made then): a
    sequence of dumps built in one directory and run from another goes into that one file"""
    base = os.path.join(scratch(), 'c20rel_%s' % digest(case))
    import shutil
    shutil.rmtree(base, ignore_errors=True)
    os.makedirs(os.path.join(base, 'a'))
    os.makedirs(os.path.join(base, 'b'))
    old = os.getcwd()
    fields = [{'name': 'k', 'type': 'integer'}, {'name': 'v', 'type': 'string'}]
    try:
        flows = []
        os.chdir(os.path.join(base, 'a'))
        for mode, rows in (('rewrite', [{'k': 1, 'v': 'a'}, {'k': 2, 'v': 'b'}, {'k': 3, 'v': 'c'}]), ('append', [{'k': 4, 'v': 'd'}, {'k': 5, 'v': 'e'}])):
            flows.append(Flow(Src([{'name': 'r', 'fields': fields, 'rows': rows}]), DF.dump_to_sql({'t': {'resource-name': 'r', 'mode': mode}}, engine='sqlite:///data.db')))
        with quiet():
            flows[0].process()
            if case['chdir']:
                os.chdir(os.path.join(base, 'b'))
            flows[1].process()
        out = {}
        for d in ('a', 'b'):
            f = os.path.join(base, d, 'data.db')
            if os.path.exists(f):
                eng = create_engine('sqlite:///' + f)
                with eng.connect() as c_:
                    out[d] = [list(r) for r in c_.execute(text('select k, v from t order by k')).fetchall()]
                eng.dispose()
            else:
                out[d] = None
        return out
    except Exception as e:
        return {'error': '%s: %s' % (type(e).__name__, str(e)[:200])}
    finally:
        os.chdir(old)
        shutil.rmtree(base, ignore_errors=True)


def select_all(engine, cols):
    with engine.connect() as c:
        try:
            rs = c.execute(text('select %s from t' % ', '.join('"%s"' % x for x in cols))).fetchall()
        except Exception as e:
            return None
    return [dict(zip(cols, r)) for r in rs]


def run_impl(case):
    if case['kind'] == 'relurl':
        return run_relurl(case)
    engine = create_engine('sqlite://')
    if case['kind'] == 'objects':
        rows = rows_dec(case['rows'])
        res = [{'name': 'r', 'fields': [{'name': 'k', 'type': 'integer'}, {'name': 'arr', 'type': 'array'}, {'name': 'obj', 'type': 'object'}], 'rows': rows}]
        spec = {'resource-name': 'r', 'mode': case.get('mode', 'rewrite')}
        if spec['mode'] == 'update':
            spec['update_keys'] = ['k']
        kw = {'batch_size': case.get('batch', 1000)}
        if case.get('flags'):
            kw['updated_column'] = '_upd'
        out = run_stream(res, [DF.dump_to_sql({'t': spec}, engine=engine, **kw)], rerun=False)
        if 'error' in out:
            return {'error': out['exc']}
        down = out['rows'][0]
        return {'down': rows_enc([dict((k, r.get(k)) for k in ('k', 'arr', 'obj')) for r in down]),
                'flags': [r.get('_upd') for r in down] if case.get('flags') else None,
                'table': select_all(engine, ['k', 'arr', 'obj'])}
    if case['kind'] == 'retype':
        steps = []
        for d in case['dumps']:
            rows = rows_dec(d['rows'])
            res = [{'name': 'r', 'fields': [{'name': 'k', 'type': 'integer'}, {'name': 'code', 'type': d['type']}], 'rows': rows,
                    'pk': ['k'] if case.get('pk') else None}]
            out = run_stream(res, [DF.dump_to_sql({'t': {'resource-name': 'r', 'mode': d['mode']}}, engine=engine)], rerun=False)
            if 'error' in out:
                steps.append({'error': out['exc']})
                break
            steps.append({'table': [[t['k'], repr(t['code'])] for t in (select_all(engine, ['k', 'code']) or [])]})
        return {'steps': steps}
    # another table of the same database whose name starts with the target's name: no dump into t may touch it (round 8)
    sib_rows = [{'k': 1, 'note': 'kept'}, {'k': 2, 'note': 'also kept'}]
    if case.get('sibling', True):
        with quiet():
            Flow(Src([{'name': 's', 'fields': [{'name': 'k', 'type': 'integer'}, {'name': 'note', 'type': 'string'}], 'rows': copy.deepcopy(sib_rows)}]),
                 DF.dump_to_sql({'t_2019': {'resource-name': 's'}}, engine=engine)).process()
    cols = ['k', 'k2', 'v', 'n']
    fields = [{'name': 'k', 'type': 'integer'}, {'name': 'k2', 'type': 'string'}, {'name': 'v', 'type': 'string'}, {'name': 'n', 'type': 'integer'}]
    steps = []
    for d in case['dumps']:
        res = [{'name': 'r', 'fields': fields, 'rows': d['rows'], 'pk': case['keys'] if case['pk'] else None, 'missingValues': case.get('mv')}]
        spec = {'resource-name': 'r', 'mode': Mode(d['mode']) if case.get('enum_mode') else d['mode']}     # (a str-based Enum member is a str)
        if (d['mode'] == 'update' or case.get('keys_always')) and not case['pk']:
            spec['update_keys'] = case['keys']      # the same table spec re-used while only the mode varies
        kw = {'batch_size': d['batch'], 'use_bloom_filter': d['bloom']}
        if case['flags']:
            kw['updated_column'] = '_upd'
        if case.get('via') == 'results':
            out = run_results(res, [DF.dump_to_sql({'t': spec}, engine=engine, **kw)])
        elif case.get('via') == 'then_dump':
            with tempfile.TemporaryDirectory(dir='/var/tmp') as td:
                out = run_stream(res, [DF.dump_to_sql({'t': spec}, engine=engine, **kw), DF.dump_to_path(td)], rerun=False)
        else:
            out = run_stream(res, [DF.dump_to_sql({'t': spec}, engine=engine, **kw)], rerun=False)
        if 'error' in out:
            steps.append({'error': out['exc']})
            break
        down = out['rows'][0]
        with engine.connect() as c_:
            try:
                sib = [dict(zip(['k', 'note'], r)) for r in c_.execute(text('select k, note from t_2019 order by k')).fetchall()]
            except Exception as e:
                sib = 'gone (%s)' % type(e).__name__
        steps.append({'sibling': sib if case.get('sibling', True) else None,
                      'table': select_all(engine, cols), 'down': [dict((k, r.get(k)) for k in cols) for r in down],
                      'flags': [r.get('_upd') for r in down] if case['flags'] else None})
    return {'steps': steps}


def key_of(r, keys):
    return tuple(r[k] for k in keys)


def oracle(case, out):
    if case['kind'] == 'relurl':
        if 'error' in out:
            return 'dumps to a relative SQLite URL failed: %s' % out['error']
        want = [[1, 'a'], [2, 'b'], [3, 'c'], [4, 'd'], [5, 'e']]
        if out.get('a') != want or out.get('b') is not None:
            return ('a rewrite dump and an append dump to sqlite:///data.db, both built in directory a%s: a/data.db holds %r, b/data.db %r; '
                    'the table is to hold %r') % (', the second run from directory b' if case['chdir'] else '', out.get('a'), out.get('b'), want)
        return None
    if case['kind'] == 'objects':
        if 'error' in out:
            return 'dump_to_sql failed on array/object columns: %s' % out['error']
        rows = rows_dec(case['rows'])
        down = rows_dec(out['down'])
        if down != rows:
            return 'rows continue downstream changed: %r -> %r' % (rows, down)
        table, flags = [], []
        for r in rows:
            hit = False
            if case.get('mode') == 'update':
                for x in table:
                    if x['k'] == r['k']:
                        x.update(r)
                        hit = True
            if not hit:
                table.append(dict(r))
            flags.append(hit)
        def conv(o):        # what the column holds as JSON: dates in ISO form, decimals as numbers
            if isinstance(o, dict):
                return dict((k, conv(v)) for k, v in o.items())
            if isinstance(o, (list, set, tuple)):
                return [conv(x) for x in o]
            if isinstance(o, (datetime.date, datetime.time)):
                return o.isoformat()
            if isinstance(o, decimal.Decimal):
                return float(o)
            return o
        table = [dict(k=t['k'], arr=conv(t['arr']), obj=conv(t['obj'])) for t in table]
        got = []
        for t in out['table'] or []:
            try:
                got.append({'k': t['k'], 'arr': None if t['arr'] is None else json.loads(t['arr']),
                            'obj': None if t['obj'] is None else json.loads(t['obj'])})
            except Exception:
                return 'array/object column does not hold JSON text: %r' % (t,)
        if sorted(map(repr, got)) != sorted(map(repr, table)):
            return 'array/object table after a %s dump (batch=%s): %r, the mode prescribes %r' % (case.get('mode'), case.get('batch'), got, table)
        if out.get('flags') is not None and [bool(f) for f in out['flags']] != flags:
            return 'updated flags %r, truthful flags are %r' % (out['flags'], flags)
        return None
    if case['kind'] == 'retype':
        def stored(v, t):       # what SQLite hands back for a value of a column declared for type t
            if isinstance(v, decimal.Decimal):
                return float(v)
            if isinstance(v, datetime.date):
                return v.isoformat()
            return v
        table = []
        for i, (d, st) in enumerate(zip(case['dumps'], out['steps'])):
            if 'error' in st:
                return 'dump %d (%s, code is %s) failed: %s' % (i + 1, d['mode'], d['type'], st['error'])
            rows = [[r['k'], repr(stored(r['code'], d['type']))] for r in rows_dec(d['rows'])]
            table = rows if d['mode'] == 'rewrite' else table + rows
            if sorted(map(repr, st['table'])) != sorted(map(repr, table)):
                return 'after dump %d (%s, column code declared %s, earlier %s) the table holds %r, the dumped rows are %r' % (
                    i + 1, d['mode'], d['type'], case['dumps'][0]['type'], st['table'], table)
        return None
    table = []
    for d, st in zip(case['dumps'], out['steps']):
        if 'error' in st:
            return 'dump failed: %s' % st['error']
        keys = case['keys']
        flags = []
        if d['mode'] == 'rewrite':
            table = [dict(r) for r in d['rows']]
            flags = [False] * len(d['rows'])
        elif d['mode'] == 'append':
            table = table + [dict(r) for r in d['rows']]
            flags = [False] * len(d['rows'])
        else:
            for r in d['rows']:
                hit = False
                for x in table:
                    if key_of(x, keys) == key_of(r, keys):      # None matches None (rendered as IS NULL)
                        x.update(r)
                        hit = True
                if not hit:
                    table.append(dict(r))
                flags.append(hit)
        if sorted(map(repr, st['table'] or [])) != sorted(map(repr, table)):
            return 'after a %s dump (batch=%s, bloom=%s) the table has %d rows %r, the mode prescribes %d rows %r' % (
                d['mode'], d['batch'], d['bloom'], len(st['table'] or []), (st['table'] or [])[:3], len(table), table[:3])
        if st['down'] != d['rows']:
            return 'rows continuing downstream differ from the dumped rows'
        if st.get('sibling') is not None and st['sibling'] != [{'k': 1, 'note': 'kept'}, {'k': 2, 'note': 'also kept'}]:
            return 'after a %s dump into table t, the table t_2019 of the same database is %r' % (d['mode'], st['sibling'])
        if st['flags'] is not None and [bool(f) for f in st['flags']] != flags:
            return 'updated flags %r, truthful flags are %r' % (st['flags'], flags)
    return None


def finding(case, out, failure):
    if case['kind'] == 'objects' and 'down' in out:
        rows = rows_dec(case['rows'])
        down = rows_dec(out['down'])
        if len(down) == len(rows) and all(d['k'] == r['k'] and all(d[c] == json.dumps(r[c]) for c in ('arr', 'obj')) for d, r in zip(down, rows)):
            return None      # was the known finding C20.array_object_rows_jsonized, repaired by fix c41c15e
    return None


def coq_term(case, out):
    if case['kind'] != 'history':
        return None
    if any('error' in st for st in out['steps']):
        return None
    t = '[]'
    terms = []
    for d, st in zip(case['dumps'], out['steps']):
        mode = {'rewrite': 'Rewrite', 'append': 'Append', 'update': '(Update %s)' % cstrs(case['keys'])}[d['mode']]
        model = '(impl_dump %s %s (fun _ => false) %s %s %s)' % (mode, cbool(d['bloom']), cZ(d['batch']), t, crows(d['rows']))
        terms.append('table_perm_eqb (w_table %s) %s' % (model, crows(st['table'])))
        terms.append('table_perm_eqb (spec_dump %s %s %s) %s' % (mode, t, crows(d['rows']), crows(st['table'])))
        if st['flags'] is not None:
            terms.append('list_eqb Bool.eqb (map snd (w_out %s)) %s' % (model, clist([cbool(bool(f)) for f in st['flags']])))
        t = crows(st['table'])
    return ' && '.join(terms)


def nontrivial(case, out):
    if case['kind'] != 'history':
        return True
    return any(d['mode'] == 'update' for d in case['dumps'][1:]) or any(len(d['rows']) > d['batch'] for d in case['dumps'])


def shrinks(case):
    if case['kind'] != 'history':
        return
    for i in range(len(case['dumps'])):
        if len(case['dumps']) > 1:
            c = copy.deepcopy(case)
            del c['dumps'][i]
            yield c
        for j in range(len(case['dumps'][i]['rows'])):
            c = copy.deepcopy(case)
            del c['dumps'][i]['rows'][j]
            yield c
