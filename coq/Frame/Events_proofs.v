From Coq Require Import List ZArith Bool Lia.
From DF Require Import Base.Str Base.Value Frame.Events.
Import ListNotations.
Local Open Scope nat_scope.

(* ================= links: nesting, conditionals, rejection ================= *)
Section LinkInd.
  Variable P : link -> Prop.
  Hypothesis Hstep : forall f, P (LStep f).
  Hypothesis Hflow : forall ls, Forall P ls -> P (LFlow ls).
  Hypothesis Hcond : forall b ls, Forall P ls -> P (LCond b ls).
  Hypothesis Hbad : P LBad.
  Fixpoint link_ind2 (l : link) : P l :=
    match l with
    | LStep f => Hstep f
    | LFlow ls => Hflow ls ((fix go (ls : list link) : Forall P ls :=
                               match ls with [] => Forall_nil P | x :: r => Forall_cons x (link_ind2 x) (go r) end) ls)
    | LCond b ls => Hcond b ls ((fix go (ls : list link) : Forall P ls :=
                                   match ls with [] => Forall_nil P | x :: r => Forall_cons x (link_ind2 x) (go r) end) ls)
    | LBad => Hbad
    end.
End LinkInd.

Lemma chain_link_flow ls s : chain_link (LFlow ls) s = chain ls s.
Proof.
  unfold chain. simpl. revert s. induction ls as [|l r IH]; intros s; simpl; [reflexivity|apply IH].
Qed.

Lemma chain_link_cond_true ls s : chain_link (LCond true ls) s = chain ls s.
Proof.
  unfold chain. simpl. revert s. induction ls as [|l r IH]; intros s; simpl; [reflexivity|apply IH].
Qed.

Lemma chain_app a b s : chain (a ++ b) s = chain b (chain a s).
Proof. unfold chain. apply fold_left_app. Qed.

Lemma flatten_link_flow ls : flatten_link (LFlow ls) = flatten ls.
Proof. unfold flatten. simpl. induction ls as [|l r IH]; simpl; [reflexivity|]. rewrite IH. reflexivity. Qed.

Lemma flatten_link_cond_true ls : flatten_link (LCond true ls) = flatten ls.
Proof. unfold flatten. simpl. induction ls as [|l r IH]; simpl; [reflexivity|]. rewrite IH. reflexivity. Qed.

(* the outcome does not depend on how steps are grouped into nested Flows or wrapped in always-true conditionals *)
Theorem chain_link_flatten l : forall s, chain_link l s = chain (flatten_link l) s.
Proof.
  induction l using link_ind2; intros s.
  - reflexivity.
  - rewrite chain_link_flow, flatten_link_flow. revert s.
    induction ls as [|l r IHr]; intros s; [reflexivity|].
    inversion H as [|? ? Hl Hr]; subst. unfold flatten. simpl. fold (flatten r).
    rewrite chain_app. unfold chain at 1. simpl. fold (chain r (chain_link l s)).
    rewrite Hl. apply IHr, Hr.
  - destruct b.
    + rewrite chain_link_cond_true, flatten_link_cond_true. revert s.
      induction ls as [|l r IHr]; intros s; [reflexivity|].
      inversion H as [|? ? Hl Hr]; subst. unfold flatten. simpl. fold (flatten r).
      rewrite chain_app. unfold chain at 1. simpl. fold (chain r (chain_link l s)).
      rewrite Hl. apply IHr, Hr.
    + reflexivity.
  - reflexivity.
Qed.

Theorem chain_flatten ls s : chain ls s = chain (flatten ls) s.
Proof.
  revert s. induction ls as [|l r IH]; intros s; [reflexivity|].
  unfold flatten. simpl. fold (flatten r). rewrite chain_app.
  unfold chain at 1. simpl. fold (chain r (chain_link l s)). rewrite chain_link_flatten. apply IH.
Qed.

Lemma chain_link_none l : chain_link l None = None.
Proof.
  induction l using link_ind2; simpl; try reflexivity.
  - induction ls as [|l r IHr]; [reflexivity|]. inversion H; subst. simpl. rewrite H2. apply IHr. assumption.
  - destruct b; [|reflexivity]. induction ls as [|l r IHr]; [reflexivity|]. inversion H; subst. simpl. rewrite H2. apply IHr. assumption.
Qed.

Lemma chain_none ls : chain ls None = None.
Proof. induction ls as [|l r IH]; [reflexivity|]. unfold chain. simpl. rewrite chain_link_none. apply IH. Qed.

(* a link that cannot be interpreted is rejected, wherever it sits (also inside nested flows): never skipped *)
Theorem bad_link_rejected ls s : In LBad (flatten ls) -> chain ls s = None.
Proof.
  rewrite chain_flatten. generalize (flatten ls) as fl. clear ls. intros fl. revert s.
  induction fl as [|l r IH]; intros s Hin; [destruct Hin|].
  unfold chain. simpl. fold (chain r (chain_link l s)). destruct Hin as [->|Hin].
  - simpl. apply chain_none.
  - apply IH, Hin.
Qed.

(* ================= lazy chained execution = step-by-step evaluation ================= *)
Lemma rows_of_app a b : rows_of (a ++ b) = rows_of a ++ rows_of b.
Proof. unfold rows_of. apply flat_map_app. Qed.

Lemma lmap_app g a b : lmap g (a ++ b) = lmap g a ++ lmap g b.
Proof. unfold lmap. apply flat_map_app. Qed.

Theorem lazy_row_step k f s : rows_of (lmap (g_row k f) s) = map f (rows_of s).
Proof.
  induction s as [|e s IH]; [reflexivity|]. change (e :: s) with ([e] ++ s).
  rewrite lmap_app, !rows_of_app, map_app, IH. f_equal. destruct e; reflexivity.
Qed.

Theorem lazy_filter_step k c s : rows_of (lmap (g_filter k c) s) = filter c (rows_of s).
Proof.
  induction s as [|e s IH]; [reflexivity|]. change (e :: s) with ([e] ++ s).
  rewrite lmap_app, !rows_of_app, filter_app, IH. f_equal. destruct e; try reflexivity.
  simpl. unfold g_filter. destruct (c r); reflexivity.
Qed.

Theorem lazy_many_step k f s : rows_of (lmap (g_many k f) s) = flat_map f (rows_of s).
Proof.
  induction s as [|e s IH]; [reflexivity|]. change (e :: s) with ([e] ++ s).
  rewrite lmap_app, !rows_of_app, flat_map_app, IH. f_equal. destruct e; try reflexivity.
  simpl. rewrite !app_nil_r. unfold g_many, rows_of. induction (f r) as [|x l IHl]; simpl; [reflexivity|]. rewrite IHl. reflexivity.
Qed.

(* observers do not change what flows downstream *)
Theorem observer_rows_transparent k s : rows_of (lmap (g_observe k) s) = rows_of s.
Proof.
  induction s as [|e s IH]; [reflexivity|]. change (e :: s) with ([e] ++ s).
  rewrite lmap_app, !rows_of_app, IH. f_equal. destruct e; reflexivity.
Qed.

Theorem committing_rows_transparent k s : rows_of (committing k s) = rows_of s.
Proof. unfold committing. rewrite rows_of_app, observer_rows_transparent. simpl. apply app_nil_r. Qed.

Theorem finalizing_rows_transparent k s : rows_of (finalizing k s) = rows_of s.
Proof. unfold finalizing. rewrite rows_of_app. simpl. apply app_nil_r. Qed.

(* ... and record every row that reaches them: one record event per incoming row *)
Theorem observer_complete k s :
  (forall e, In e s -> match e with EEff k' _ => k' <> k | _ => True end) ->
  records k (lmap (g_observe k) s) = length (rows_of s).
Proof.
  unfold records. induction s as [|e s IH]; intros H; [reflexivity|]. change (e :: s) with ([e] ++ s).
  rewrite lmap_app, filter_app, app_length, rows_of_app, app_length, IH by (intros x Hx; apply H; right; exact Hx).
  f_equal. pose proof (H e (or_introl eq_refl)) as He. destruct e; simpl; try reflexivity.
  - rewrite PeanoNat.Nat.eqb_refl. reflexivity.
  - destruct tag; [|reflexivity]. apply PeanoNat.Nat.eqb_neq in He. rewrite He. reflexivity.
Qed.

(* a finalizer's callback: exactly once, after everything that passed it *)
Theorem finalizer_once_after_last k s :
  finalizing k s = s ++ [EEff k 5].
Proof. reflexivity. Qed.

(* ================= failures ================= *)
Definition no_fail (s : stream) : Prop := forall k x, ~ In (EFail k x) s.

Lemma cut_no_fail s : no_fail s -> cut s = (s, None).
Proof.
  induction s as [|e s IH]; intros H; [reflexivity|]. simpl.
  assert (H' : no_fail s) by (intros k x Hin; apply (H k x); right; exact Hin).
  rewrite (IH H'). destruct e; try reflexivity. exfalso. apply (H step x). left. reflexivity.
Qed.

Lemma cut_at_fail a k x b : no_fail a -> cut (a ++ EFail k x :: b) = (a, Some (k, x)).
Proof.
  induction a as [|e a IH]; intros H; [reflexivity|]. simpl.
  assert (H' : no_fail a) by (intros k' x' Hin; apply (H k' x'); right; exact Hin).
  rewrite (IH H'). destruct e; try reflexivity. exfalso. apply (H step x0). left. reflexivity.
Qed.

(* a failing step never yields a successful run: the driver raises with the first failure as cause *)
Theorem failure_raises a k x b : no_fail a -> drive (a ++ EFail k x :: b) = (a, Raised k x).
Proof. intros H. unfold drive. rewrite cut_at_fail by exact H. reflexivity. Qed.

(* steps downstream of the failure pass it on (they do not swallow it) *)
Definition quiet (g : nat -> row -> stream) : Prop := forall p r, no_fail (g p r).

Lemma lmap_no_fail g s : quiet g -> no_fail s -> no_fail (lmap g s).
Proof.
  intros Q H k x Hin. unfold lmap in Hin. apply in_flat_map in Hin as [e [He Hin]].
  destruct e; simpl in Hin.
  - destruct Hin as [E|[]]; discriminate.
  - eapply Q; exact Hin.
  - destruct Hin as [E|[]]; discriminate.
  - destruct Hin as [E|[]]; discriminate.
  - destruct Hin as [E|[]]. injection E as -> ->. eapply H; exact He.
Qed.

(* a run that fails while rows are flowing never reaches the finalizer's callback: what happens is exactly what happened
   before the failure *)
Theorem finalizer_silent_on_failure kf a k x b : no_fail a -> drive (finalizing kf (a ++ EFail k x :: b)) = (a, Raised k x).
Proof.
  intros H. unfold finalizing. rewrite <- app_assoc. simpl. apply failure_raises, H.
Qed.

Theorem failure_propagates g a k x b :
  quiet g -> no_fail a ->
  drive (lmap g (a ++ EFail k x :: b)) = (lmap g a, Raised k x).
Proof.
  intros Q H. rewrite lmap_app. simpl. apply failure_raises. apply lmap_no_fail; assumption.
Qed.

(* no descriptor / checkpoint positioned after the failure is committed *)
Theorem no_commit_after_failure kc a k x b :
  no_fail a -> ~ In (EEff kc 4) a ->
  fst (drive (committing kc (a ++ EFail k x :: b))) = lmap (g_observe kc) a /\
  snd (drive (committing kc (a ++ EFail k x :: b))) = Raised k x /\
  ~ In (EEff kc 4) (fst (drive (committing kc (a ++ EFail k x :: b)))).
Proof.
  intros H N. unfold committing. rewrite lmap_app. simpl. rewrite <- app_assoc. simpl.
  assert (NF : no_fail (lmap (g_observe kc) a)).
  { apply lmap_no_fail; [|exact H]. intros p r k' x' [E|[E|[]]]; discriminate. }
  rewrite failure_raises by exact NF. simpl. split; [reflexivity|]. split; [reflexivity|].
  intros Hin. unfold lmap in Hin. apply in_flat_map in Hin as [e [He Hin]].
  destruct e; simpl in Hin.
  - destruct Hin as [E|[]]; discriminate.
  - destruct Hin as [E|[E|[]]]; discriminate.
  - destruct Hin as [E|[]]. injection E as -> ->. apply N. exact He.
  - destruct Hin as [E|[]]; discriminate.
  - destruct Hin as [E|[]]; discriminate.
Qed.

(* without a failure the commit happens, once, at the end *)
Theorem commit_at_end kc s : no_fail s -> drive (committing kc s) = (lmap (g_observe kc) s ++ [EEff kc 4], Returned).
Proof.
  intros H. unfold drive, committing. rewrite cut_no_fail; [reflexivity|].
  intros k x Hin. apply in_app_iff in Hin as [Hin|[E|[]]]; [|discriminate].
  revert Hin. apply lmap_no_fail; [|exact H]. intros p r k' x' [E|[E|[]]]; discriminate.
Qed.

(* ================= bounded look-ahead ================= *)
(* a row-wise step only emits, for an incoming row, effects and rows with that row's provenance *)
Definition nice (g : nat -> row -> stream) : Prop :=
  forall p r, Forall (fun e => match e with ERow p' _ => p' = p | EEff _ _ => True | _ => False end) (g p r).

Definition la (pulled : nat) (s : stream) : list nat := lookahead pulled (deliver s).

Lemma la_nice_block g p r pulled rest :
  nice g -> la pulled (g p r ++ rest) = repeat (pulled - p) (length (rows_of (g p r))) ++ la pulled rest.
Proof.
  intros N. specialize (N p r). unfold la. induction (g p r) as [|e l IH]; [reflexivity|].
  inversion N as [|? ? He Hl]; subst. specialize (IH Hl). destruct e; simpl in *; try contradiction.
  - subst. rewrite IH. reflexivity.
  - exact IH.
Qed.

Lemma lmap_cons g e s : lmap g (e :: s) = (match e with ERow p r => g p r | _ => [e] end) ++ lmap g s.
Proof. reflexivity. Qed.

Theorem lookahead_lmap g K : nice g -> forall s pulled,
  Forall (fun v => v <= K) (la pulled s) -> Forall (fun v => v <= K) (la pulled (lmap g s)).
Proof.
  intros N. induction s as [|e s IH]; intros pulled H; [exact H|].
  rewrite lmap_cons. destruct e.
  - change (la pulled ([EPull i] ++ lmap g s)) with (la (S pulled) (lmap g s)).
    change (la pulled (EPull i :: s)) with (la (S pulled) s) in H. apply IH, H.
  - rewrite la_nice_block by exact N.
    change (la pulled (ERow prov r :: s)) with ((pulled - prov) :: la pulled s) in H.
    inversion H as [|? ? Hv Hrest]; subst. apply Forall_app. split.
    + clear - Hv. induction (length (rows_of (g prov r))); simpl; constructor; assumption.
    + apply IH, Hrest.
  - change (la pulled ([EEff step tag] ++ lmap g s)) with (la pulled (lmap g s)).
    change (la pulled (EEff step tag :: s)) with (la pulled s) in H. apply IH, H.
  - change (la pulled ([EDeliver prov r] ++ lmap g s)) with ((pulled - prov) :: la pulled (lmap g s)).
    change (la pulled (EDeliver prov r :: s)) with ((pulled - prov) :: la pulled s) in H.
    inversion H; subst. constructor; [assumption|]. apply IH. assumption.
  - change (la pulled ([EFail step x] ++ lmap g s)) with (la pulled (lmap g s)).
    change (la pulled (EFail step x :: s)) with (la pulled s) in H. apply IH, H.
Qed.

(* the source pulls its inference sample up front and afterwards one row per row requested *)
Lemma rows_from_bounded rowf K n : 1 <= K -> forall n' i pulled,
  i + n' = n ->
  (i < K /\ pulled = Nat.min n K) \/ (K <= i /\ pulled = i) ->
  Forall (fun v => v <= K) (la pulled (rows_from rowf i n' K)).
Proof.
  intros HK. induction n' as [|n' IH]; intros i pulled Hn Inv; [constructor|].
  cbn [rows_from]. destruct (Nat.ltb i K) eqn:L.
  - apply PeanoNat.Nat.ltb_lt in L. destruct Inv as [[_ ->]|[Hc _]]; [|lia].
    change (la (Nat.min n K) ([ERow i (rowf i)] ++ rows_from rowf (S i) n' K))
      with ((Nat.min n K - i) :: la (Nat.min n K) (rows_from rowf (S i) n' K)).
    constructor; [lia|]. apply IH; [lia|].
    destruct (PeanoNat.Nat.lt_ge_cases (S i) K) as [A|A]; [left; split; [exact A|reflexivity]|].
    right. split; [exact A|]. lia.
  - apply PeanoNat.Nat.ltb_ge in L. destruct Inv as [[Hc _]|[_ ->]]; [lia|].
    change (la i ([EPull i; ERow i (rowf i)] ++ rows_from rowf (S i) n' K))
      with ((S i - i) :: la (S i) (rows_from rowf (S i) n' K)).
    constructor; [lia|]. apply IH; [lia|]. right. split; lia.
Qed.

Lemma la_pulls m : forall pulled s, la pulled (map EPull (seq 0 m) ++ s) = la (pulled + m) s.
Proof.
  assert (G : forall m a pulled s, la pulled (map EPull (seq a m) ++ s) = la (pulled + m) s).
  { induction m0 as [|m0 IH]; intros a pulled s; [simpl; f_equal; lia|].
    change (la pulled (map EPull (seq a (S m0)) ++ s)) with (la (S pulled) (map EPull (seq (S a) m0) ++ s)).
    rewrite IH. f_equal. lia. }
  intros. apply G.
Qed.

(* for every stream length n, the number of rows read ahead of the row being delivered never exceeds the sample size K *)
Theorem source_lookahead_bounded rowf n K : 1 <= K -> Forall (fun v => v <= K) (la 0 (source rowf n K)).
Proof.
  intros HK. unfold source. rewrite la_pulls. apply (rows_from_bounded rowf K n HK n 0 (0 + Nat.min n K)); [lia|].
  left. split; [lia|reflexivity].
Qed.

Fixpoint lmaps (gs : list (nat -> row -> stream)) (s : stream) : stream :=
  match gs with [] => s | g :: r => lmaps r (lmap g s) end.

Theorem pipeline_lookahead_bounded rowf n K gs :
  1 <= K -> Forall nice gs -> Forall (fun v => v <= K) (la 0 (lmaps gs (source rowf n K))).
Proof.
  intros HK. generalize (source_lookahead_bounded rowf n K HK). generalize (source rowf n K) as s.
  induction gs as [|g gs IH]; intros s H N; [exact H|].
  inversion N; subst. simpl. apply IH; [|assumption]. apply lookahead_lmap; assumption.
Qed.

(* the built-in shapes are nice *)
Lemma nice_row k f : nice (g_row k f).
Proof. intros p r. repeat constructor. Qed.
Lemma nice_filter k c : nice (g_filter k c).
Proof. intros p r. unfold g_filter. destruct (c r); repeat constructor. Qed.
Lemma nice_many k f : nice (g_many k f).
Proof. intros p r. unfold g_many. induction (f r); simpl; constructor; auto. Qed.
Lemma nice_observe k : nice (g_observe k).
Proof. intros p r. repeat constructor. Qed.

(* negative control: a buffering step is not bounded -- sorting 2 rows already reads both before delivering the first *)
Example materialise_not_bounded :
  la 0 (materialise (fun l => l) (source (fun _ => []) 3 1)) = [3; 2; 1].
Proof. reflexivity. Qed.
