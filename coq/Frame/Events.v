(* Event semantics of chains of generator-based steps (dataflows/base/datastream_processor.py,
   flow.py).  A stream is the list of things that happen, in the order in which they happen
   when the driver drains the chain: a step is a function on such lists, a chain is function
   composition.  Rows carry the index of the source row they derive from. *)
From Coq Require Import List ZArith Bool Lia.
From DF Require Import Base.Str Base.Value.
Import ListNotations.
Local Open Scope nat_scope.

Inductive exn := XGeneric | XProcessorError | XValidation | XCast | XUniqueKey | XSourceLoad | XAssertion.

Inductive ev :=
| EPull (i : nat)                     (* the source is asked for its row i *)
| ERow (prov : nat) (r : row)         (* a row travels downstream *)
| EEff (step : nat) (tag : nat)       (* a side effect of step number `step` (tag: 0 pre, 1 post, 2 open, 3 end, 4 commit, 5 callback) *)
| EDeliver (prov : nat) (r : row)     (* the row reaches the end of the pipeline *)
| EFail (step : nat) (x : exn).       (* the generator of step `step` raises *)

Definition stream := list ev.

(* ---------- steps ---------- *)
(* a row-wise step: each incoming row is replaced, in place, by what the step does with it
   (effects before, zero or more rows, effects after); everything else passes through *)
Definition lmap (g : nat -> row -> stream) (s : stream) : stream :=
  flat_map (fun e => match e with ERow p r => g p r | _ => [e] end) s.

(* the shapes built-in row-wise steps take *)
Definition g_row (k : nat) (f : row -> row) : nat -> row -> stream :=
  fun p r => [EEff k 0; ERow p (f r); EEff k 1].                       (* user row function, add_field, set_type, find_replace ... *)
Definition g_filter (k : nat) (c : row -> bool) : nat -> row -> stream :=
  fun p r => if c r then [ERow p r] else [].                            (* filter_rows, deduplicate's drop *)
Definition g_many (k : nat) (f : row -> list row) : nat -> row -> stream :=
  fun p r => map (ERow p) (f r).                                        (* unpivot *)
Definition g_observe (k : nat) : nat -> row -> stream :=
  fun p r => [EEff k 0; ERow p r].                                      (* printer, dumpers, stream: record, then pass on *)

(* a step with code before its loop and after it: the opening code runs at the consumer's first
   pull (so before anything upstream), the closing code when the input is exhausted *)
(* the rows pulled while the package is being defined (schema inference sample) come before any row-phase code *)
Fixpoint span_pulls (s : stream) : stream * stream :=
  match s with
  | EPull i :: r => let '(a, b) := span_pulls r in (EPull i :: a, b)
  | _ => ([], s)
  end.

Definition with_open_close (k : nat) (body : stream -> stream) (s : stream) : stream :=
  let '(pre, rest) := span_pulls s in pre ++ EEff k 2 :: body rest ++ [EEff k 3].

(* an observer that commits something (descriptor, checkpoint rename) when its input ends *)
Definition committing (k : nat) (s : stream) : stream := lmap (g_observe k) s ++ [EEff k 4].

(* a finalizer: callback after the last row has passed *)
Definition finalizing (k : nat) (s : stream) : stream := s ++ [EEff k 5].

(* a buffering step (sort_rows, join's index): everything upstream happens first *)
Definition is_row (e : ev) : bool := match e with ERow _ _ => true | _ => false end.
Definition materialise (reorder : list ev -> list ev) (s : stream) : stream :=
  filter (fun e => negb (is_row e)) s ++ reorder (filter is_row s).

(* the end of the pipeline *)
Definition deliver (s : stream) : stream :=
  map (fun e => match e with ERow p r => EDeliver p r | _ => e end) s.

(* ---------- the driver ---------- *)
Fixpoint cut (s : stream) : stream * option (nat * exn) :=
  match s with
  | [] => ([], None)
  | EFail k x :: _ => ([], Some (k, x))
  | e :: rest => let '(t, o) := cut rest in (e :: t, o)
  end.

Inductive outcome := Returned | Raised (step : nat) (cause : exn).

(* safe_process: every exception becomes a ProcessorError whose cause is the original one *)
Definition drive (s : stream) : stream * outcome :=
  match cut s with
  | (t, None) => (t, Returned)
  | (t, Some (k, x)) => (t, Raised k x)
  end.

(* ---------- sources ---------- *)
(* an iterable source of n rows whose schema is inferred from a sample of K rows: the sample is
   pulled while the package is being defined, the rest one row at a time *)
Fixpoint rows_from (rowf : nat -> row) (i n : nat) (sample : nat) : stream :=
  match n with
  | O => []
  | S n' => (if Nat.ltb i sample then [ERow i (rowf i)] else [EPull i; ERow i (rowf i)]) ++ rows_from rowf (S i) n' sample
  end.

Definition source (rowf : nat -> row) (n sample : nat) : stream :=
  map EPull (seq 0 (Nat.min n sample)) ++ rows_from rowf 0 n sample.

(* ---------- look-ahead ---------- *)
(* number of rows pulled from the source before each delivery, minus the index of the row delivered *)
Fixpoint lookahead (pulled : nat) (s : stream) : list nat :=
  match s with
  | [] => []
  | EPull _ :: rest => lookahead (S pulled) rest
  | EDeliver p _ :: rest => (pulled - p) :: lookahead pulled rest
  | _ :: rest => lookahead pulled rest
  end.

Definition rows_of (s : stream) : list row :=
  flat_map (fun e => match e with ERow _ r => [r] | _ => [] end) s.
Definition delivered_of (s : stream) : list row :=
  flat_map (fun e => match e with EDeliver _ r => [r] | _ => [] end) s.

(* ---------- links and chains ---------- *)
Inductive link :=
| LStep (f : stream -> stream)
| LFlow (ls : list link)                     (* a nested Flow *)
| LCond (b : bool) (ls : list link)          (* conditional(predicate, Flow(...)) with the predicate's value *)
| LBad.                                      (* something Flow cannot interpret *)

Fixpoint chain_link (l : link) (s : option stream) {struct l} : option stream :=
  match l with
  | LStep f => option_map f s
  | LFlow ls => (fix go (ls : list link) (s : option stream) : option stream :=
                   match ls with [] => s | l' :: r => go r (chain_link l' s) end) ls s
  | LCond b ls => if b then (fix go (ls : list link) (s : option stream) : option stream :=
                               match ls with [] => s | l' :: r => go r (chain_link l' s) end) ls s
                  else s
  | LBad => None                              (* rejected with an error *)
  end.

Definition chain (ls : list link) (s : option stream) : option stream :=
  fold_left (fun acc l => chain_link l acc) ls s.

Fixpoint flatten_link (l : link) : list link :=
  match l with
  | LFlow ls => (fix go (ls : list link) : list link := match ls with [] => [] | x :: r => flatten_link x ++ go r end) ls
  | LCond true ls => (fix go (ls : list link) : list link := match ls with [] => [] | x :: r => flatten_link x ++ go r end) ls
  | LCond false _ => []
  | other => [other]
  end.

Definition flatten (ls : list link) : list link := flat_map flatten_link ls.

(* comparison helpers for case files: the observable skeleton of a trace *)
Definition skel (s : stream) : list (nat * nat * nat) :=
  flat_map (fun e => match e with
                     | EPull i => [(0, i, 0)] | EEff k t => [(1, k, t)] | EDeliver p _ => [(2, p, 0)]
                     | _ => [] end) s.
Fixpoint skel_eqb (a b : list (nat * nat * nat)) : bool :=
  match a, b with
  | [], [] => true
  | (x, y, z) :: r, (x2, y2, z2) :: r2 => Nat.eqb x x2 && Nat.eqb y y2 && Nat.eqb z z2 && skel_eqb r r2
  | _, _ => false
  end.
Definition is_raised (o : outcome) : bool := match o with Raised _ _ => true | Returned => false end.

(* number of record events of observer k (defined here so that case files can evaluate it) *)
Definition records (k : nat) (s : stream) : nat :=
  length (filter (fun e => match e with EEff k' 0 => Nat.eqb k' k | _ => false end) s).
