"""C18 parallelize delivers every row exactly once under every schedule."""
import copy, threading, itertools, sys, time
from common import *
from flowutil import *
import dataflows as DF

PROP = 'C18'
PROPS_V = 'Props/C18.v'
COQ_IMPORTS = ['Conc.Parallelize']
RULE = ('cases = (number of workers 1-4) x (stream length 0-8) x predicate pattern (none / some / all selected, first selected '
        'row late) x schedule; the unchanged producer/work/fetcher/fork functions run with multiprocessing.Process, '
        'multiprocessing.Queue, queue.Queue and threading.Thread replaced (in the module\'s namespace, from the harness) by '
        'scheduler-controlled fakes whose put/get are the scheduling points; schedules are enumerated exhaustively for '
        'the smallest configurations and drawn from VERIF_SEED otherwise; non-trivial = at least one row goes through a '
        'worker; distinct = (configuration, schedule)'
        '; round 4: the row function mutates a nested value, removes a key and adds a key'
        '; round 7: row functions that raise (OSError, EOFError, ValueError, ...) after they began to change the row'
        "; round 8: the public step inside a Flow with real worker processes, rows whose keys are in another order than the schema's fields"
        '; round 9: the flow run by a child interpreter with an ASCII console and a row function failing with a non-ASCII message; cells larger than a pipe buffer with four workers (watchdog)')
TRUSTED = ['Coq 8.16.1 kernel + vm_compute', 'harness/p18.py scheduler and fakes (thread-backed; a put/get is atomic and queues are FIFO, as the real ones are per producer)',
           'pickling across processes (a processed row is a copy) and process start-up/join are runtime behaviour outside the model']
ASSUMES = ['a row function that raises on a row is reported by the worker and the row goes on as that single application left it (round 7: such rows are generated; the model counts the application)',
           'queues are FIFO and their operations atomic']

PMOD = sys.modules['dataflows.processors.parallelize']


class Deadlock(Exception):
    pass


class Sched:
    """cooperative scheduler: every controlled thread blocks at each queue operation until granted"""

    def __init__(self, chooser):
        self.cv = threading.Condition()
        self.running = 0
        self.pending = {}        # thread name -> (kind, obj, value, event)
        self.chooser = chooser
        self.trace = []
        self.names = {}
        self.counter = itertools.count()
        self.failed = None
        self.timeouts = {}

    def register_start(self):
        with self.cv:
            self.running += 1

    def finished(self):
        with self.cv:
            self.running -= 1
            self.cv.notify_all()

    def point(self, kind, obj, value=None):
        ev = threading.Event()
        me = threading.current_thread().name
        with self.cv:
            self.pending[me] = (kind, obj, value, ev)
            self.running -= 1
            self.cv.notify_all()
        ev.wait()
        if self.failed:
            raise SystemExit

    def enabled(self):
        out = []
        for name, (kind, obj, value, ev) in sorted(self.pending.items()):
            if kind == 'put':
                out.append(name)
            elif kind == 'get' and (obj.items or (value is not None and self.timeouts.get(name, 0) < 3)):
                out.append(name)      # a get with a timeout may also fire its timeout (at most 3 times per thread)
            elif kind == 'join' and obj.done:
                out.append(name)
        return out

    def loop(self, main_done):
        steps = 0
        while True:
            with self.cv:
                while self.running > 0:
                    if not self.cv.wait(timeout=20):
                        self.failed = 'scheduler timeout (a controlled thread is stuck outside a scheduling point)'
                        self.release_all()
                        raise Deadlock(self.failed)
                if not self.pending:
                    return
                en = self.enabled()
                if not en:
                    self.failed = 'deadlock: %r' % dict((n, (p[0], getattr(p[1], 'qname', '?'))) for n, p in self.pending.items())
                    self.release_all()
                    raise Deadlock(self.failed)
                name = self.chooser(en, steps)
                steps += 1
                kind, obj, value, ev = self.pending.pop(name)
                if kind == 'put':
                    obj.items.append(value)
                    self.trace.append((name, 'put', obj.qname, value))
                elif kind == 'get':
                    if obj.items:
                        v = obj.items.pop(0)
                        obj.got[name] = ('item', v)
                        self.trace.append((name, 'get', obj.qname, v))
                    else:
                        self.timeouts[name] = self.timeouts.get(name, 0) + 1
                        obj.got[name] = ('timeout', None)
                self.running += 1
                ev.set()

    def release_all(self):
        for name, (kind, obj, value, ev) in list(self.pending.items()):
            ev.set()


class FQueue:
    def __init__(self, sched, qname):
        self.sched, self.qname, self.items, self.got = sched, qname, [], {}

    def put(self, x):
        if self.qname != 'q_int':
            # a multiprocessing queue hands over a pickled copy; the thread queue hands over the object itself
            import pickle
            x = pickle.loads(pickle.dumps(x))
        self.sched.point('put', self, x)

    def get(self, block=True, timeout=None):
        self.sched.point('get', self, timeout)
        kind, v = self.got.pop(threading.current_thread().name)
        if kind == 'timeout':
            import queue as _q
            raise _q.Empty()
        return v

    def put_nowait(self, x):
        self.put(x)

    def empty(self):
        return not self.items


class FThread:
    def __init__(self, sched, role, target, args):
        self.sched, self.done = sched, False
        self.name = '%s%d' % (role, next(sched.counter)) if role == 'w' else role

        def body():
            try:
                target(*args)
            except SystemExit:
                pass
            finally:
                self.done = True
                sched.finished()
        self.t = threading.Thread(target=body, name=self.name, daemon=True)

    def start(self):
        self.sched.register_start()
        self.t.start()

    def join(self, timeout=None):
        self.sched.point('join', self)

    def close(self):
        # Process.close() reports "still running" while the exit status of a worker that has already exited is being
        # collected by another thread (starting the workers of another parallelize step polls every child): with
        # close_race the first close() of the first worker behaves so
        if getattr(self.sched, 'close_race', False) and self.name == 'w0' and not getattr(self, '_raced', False):
            self._raced = True
            raise ValueError('Cannot close a process while it is still running. You should first call join() or terminate().')

    def kill(self):
        pass

    def is_alive(self):
        return not self.done


FAILURES = {'OSError': OSError, 'EOFError': EOFError, 'ValueError': ValueError, 'TimeoutError': TimeoutError,
            'FileNotFoundError': FileNotFoundError, 'KeyError': KeyError}


def raise_if_asked(row):
    if row.get('fail'):
        raise FAILURES[row['fail']]('row %d' % row['id'])


def aliased(rows, alias):
    """alias: every row holds the same list object in 'log' (what add_field(..., default=[]) produces)"""
    if alias:
        shared = []
        for r in rows:
            r['log'] = shared
    return rows


def run_schedule(nworkers, rows, chooser, alias=False, close_race=False):
    """runs the real fork() under the scheduler; returns (trace labels, delivered, prefix, error)"""
    sched = Sched(chooser)
    sched.close_race = close_race
    wcount = itertools.count()
    qcount = itertools.count()

    import multiprocessing as real_mp, queue as real_queue

    class Delegating(type):
        def __getattr__(cls, name):          # anything else comes from the real module
            return getattr(cls.real, name)

    class FakeMP(metaclass=Delegating):
        real = real_mp

        @staticmethod
        def Queue():
            n = next(qcount)
            return FQueue(sched, {0: 'q_in', 1: 'q_out'}.get(n, 'q%d' % n))

        @staticmethod
        def Process(target=None, args=()):
            t = FThread(sched, 'w', target, args)
            t.name = 'w%d' % next(wcount)
            t.t.name = t.name
            return t

    class FakeThreading(metaclass=Delegating):
        real = threading

        @staticmethod
        def Thread(target=None, args=()):
            role = 'producer' if target is PMOD.producer else 'fetcher'
            return FThread(sched, role, target, args)

    class FakeQueueMod(metaclass=Delegating):
        real = real_queue

        @staticmethod
        def Queue():
            return FQueue(sched, 'q_int')

    saved = (PMOD.mp, PMOD.threading, PMOD.queue)
    PMOD.mp, PMOD.threading, PMOD.queue = FakeMP, FakeThreading, FakeQueueMod
    delivered = []
    err = []

    def row_func(row):
        row['done'] += 1
        row['log'].append('x')      # a nested value: an extra application on a shallow copy of the row shows here
        raise_if_asked(row)         # a row function that fails half-way: the row goes on as that one application left it
        row['twice'] = 2 * row.pop('tmp')     # a key removed and a key added: the delivered row is the function's result

    def consume():
        try:
            for r in PMOD.fork(iter(aliased(copy.deepcopy(rows), alias)), row_func, nworkers, lambda r: r['sel']):
                delivered.append(r)
        except SystemExit:
            pass
        except Exception as e:
            err.append('%s: %s' % (type(e).__name__, e))
    main = FThread(sched, 'collector', consume, ())
    try:
        with quiet():                # a failing row function is reported on standard output by the worker
            main.start()
            sched.loop(main)
    except Deadlock as e:
        err.append(str(e))
    finally:
        PMOD.mp, PMOD.threading, PMOD.queue = saved
    return sched.trace, delivered, err


def to_labels(trace):
    out = []
    for name, op, q, v in trace:
        if name == 'producer':
            out.append('LProd')
        elif name.startswith('w'):
            out.append('(%s %s)' % ('LWGet' if op == 'get' else 'LWPut', cnat(int(name[1:]))))
        elif name == 'fetcher':
            out.append('LFGet' if op == 'get' else 'LFPut')
        elif name == 'collector':
            out.append('LCol')
    return out


def gen_rows(n, pattern, fails=None):
    rows = []
    for i in range(n):
        sel = {'none': False, 'all': True, 'some': i % 2 == 1, 'late': i >= n - 1, 'first': i == 0}[pattern]
        rows.append({'id': i, 'sel': sel, 'done': 0, 'log': [], 'tmp': i + 1})
        if fails and i % 3 != 2:
            rows[-1]['fail'] = fails[i % len(fails)]
    return rows


def gen_cases(rng, tier):
    cases = []
    n_random = {'quick': 120, 'thorough': 1500, 'search': 600}[tier]
    # exhaustive enumeration for the smallest configurations
    small = {'quick': [(1, 1, 'all'), (1, 2, 'all'), (2, 1, 'all')],
             'thorough': [(1, 1, 'all'), (1, 2, 'all'), (2, 1, 'all'), (1, 2, 'some'), (2, 2, 'all'), (1, 3, 'all')],
             'search': [(1, 2, 'all'), (2, 1, 'all')]}[tier]
    for n, k, pat in small:
        cases.append({'kind': 'exhaustive', 'workers': n, 'rows': gen_rows(k, pat), 'cap': {'quick': 400, 'thorough': 6000, 'search': 800}[tier]})
    for i in range(n_random):
        n = rng.randint(1, 4)
        k = rng.randint(0, 8)
        pat = rng.pick(['none', 'all', 'some', 'late', 'first', 'some', 'all'])
        cases.append({'kind': 'random', 'workers': n, 'rows': gen_rows(k, pat), 'seed': rng.randrange(10 ** 9)})
        if rng.chance(0.25):
            cases[-1]['alias'] = True      # all rows share one mutable value: each worker still gets its own copy
        elif rng.chance(0.3):
            # the row function raises on some rows after it has begun to change them (round 7)
            cases[-1]['rows'] = gen_rows(k, pat, rng.sample(sorted(FAILURES), rng.randint(1, 3)))
    for n in (1, 2):
        cases.append({'kind': 'random', 'workers': n, 'rows': gen_rows(6, 'some'), 'seed': 7 + n, 'alias': True})
    # the exit status of a finished worker being collected by another thread when fork() tidies up (see FThread.close)
    for n in (1, 3):
        cases.append({'kind': 'random', 'workers': n, 'rows': gen_rows(5, 'some'), 'seed': 11 + n, 'close_race': True})
    for n, kinds in ((1, ['OSError']), (2, ['EOFError', 'ValueError']), (3, ['TimeoutError', 'FileNotFoundError', 'KeyError'])):
        cases.append({'kind': 'random', 'workers': n, 'rows': gen_rows(6, 'all', kinds), 'seed': 17 + n})
    # the public step inside a Flow, with real worker processes: rows whose keys are in another order than the schema's
    # fields, next to a resource the step does not select (round 8)
    for ko in (None, 'rotate', 'reverse'):
        cases.append({'kind': 'flow', 'workers': 2, 'n': 7, 'keyorder': ko})
    # (round 9) a console that cannot show the failure report; cells larger than a pipe buffer with four workers
    cases.append({'kind': 'flowchild', 'workers': 2, 'n': 20, 'fail': True, 'ascii': True, 'cell': 3})
    cases.append({'kind': 'flowchild', 'workers': 4, 'n': 40, 'fail': False, 'ascii': False, 'cell': 20000})
    if tier == 'thorough':
        cases.append({'kind': 'real_processes', 'workers': 3, 'rows': gen_rows(40, 'some')})
        cases.append({'kind': 'real_processes', 'workers': 2, 'rows': gen_rows(30, 'all', ['OSError', 'ValueError', 'EOFError'])})
    return cases


def check_run(rows, delivered, err):
    if err:
        return 'did not terminate normally: %s' % err[0]
    ids = sorted(r['id'] for r in delivered)
    if ids != list(range(len(rows))):
        return 'delivered ids %r, input ids %r' % (ids, list(range(len(rows))))
    for r in delivered:
        want = 1 if rows[r['id']]['sel'] else 0
        if r['done'] != want or len(r['log']) != want:
            return 'row %d (selected=%s) had the row function applied %d times (%d times on its nested value)' % (
                r['id'], rows[r['id']]['sel'], r['done'], len(r['log']))
        exp = dict(rows[r['id']])
        if want and exp.get('fail'):
            exp.update(done=1, log=['x'])          # what one application did before it failed
        elif want:
            exp.update(done=1, log=['x'], twice=2 * exp.pop('tmp'))
        if r != exp:
            return 'row %d (selected=%s) was delivered as %r, the row function\'s result is %r' % (r['id'], rows[r['id']]['sel'], r, exp)
    return None


def flow_rows(n):
    return [{'id': i, 'sel': i % 3 != 0, 'done': 0, 'v': 10 + i, 'w': 'w%d' % i} for i in range(n)]


def run_flow_case(case):
    import dataflows as DF

    def rf(row):
        row['done'] += 1
        row['v'] = row['v'] * 2
    pre = {'rotate': [rotate_keys], 'reverse': [reverse_keys]}.get(case.get('keyorder'), [])
    other = [{'id': 100 + i, 'sel': True, 'done': 0, 'v': i, 'w': 'o'} for i in range(3)]
    try:
        with quiet():
            rows, dp, _ = DF.Flow(flow_rows(case['n']), other, *pre,
                                  DF.parallelize(rf, num_processors=case['workers'], resources='res_1', predicate=lambda r: r['sel'])).results()
    except Exception as e:
        return {'problem': 'the flow failed: %s: %s' % (type(e).__name__, str(e)[:200]), 'schedules': 1}
    want = []
    for r in flow_rows(case['n']):
        if r['sel']:
            r.update(done=1, v=r['v'] * 2)
        want.append(r)
    got = sorted(rows[0], key=lambda r: (str(type(r.get('id'))), str(r.get('id'))))
    problem = None
    if got != want:
        bad = [g for g in got if g not in want][:2]
        problem = 'parallelize in a flow (row keys %s): delivered %d rows for %d, e.g. %r where the row function gives %r' % (
            case.get('keyorder') or 'in schema order', len(got), len(want), bad, [w for w in want if w not in got][:2])
    elif rows[1] != other:
        problem = 'parallelize in a flow: the resource that was not selected came out as %r' % (rows[1][:2],)
    return {'problem': problem, 'schedules': 1}


FLOWCHILD = '''
import sys, json
sys.path.insert(0, %(repo)r)
from dataflows import Flow, parallelize
def rf(row):
    if %(fail)r and row['i'] %% 3 == 0:
        raise ValueError('kaputt: caf\\u00e9 %%d' %% row['i'])
    row['v'] = row['i'] * 2
if __name__ == '__main__':
    rows = [{'i': i, 'v': 0, 's': ('\\u00e9' if %(fail)r else 'x') * %(cell)d} for i in range(%(n)d)]
    import io, contextlib
    buf = io.StringIO()
    out = Flow(rows, parallelize(rf, num_processors=%(workers)d)).results()[0][0]
    sys.stdout.write('RESULT ' + json.dumps(sorted([r['i'], r['v'], len(r['s'])] for r in out)) + chr(10))
'''


def run_flowchild(case):
    """the public step in a Flow run by a child interpreter: under an ASCII locale with a row function that fails with a
    non-ASCII message, or with cells larger than a pipe buffer and several workers; a watchdog ends a run that does not
    terminate"""
    import subprocess
    code = FLOWCHILD % {'repo': REPO, 'fail': case['fail'], 'cell': case['cell'], 'n': case['n'], 'workers': case['workers']}
    env = dict(os.environ, PYTHONPATH=REPO, PYTHONHASHSEED='0')
    if case['ascii']:
        env.update(LC_ALL='C', LANG='C', PYTHONUTF8='0', PYTHONCOERCECLOCALE='0')
        env.pop('PYTHONIOENCODING', None)
    try:
        p = subprocess.run([PY, '-c', code], stdout=subprocess.PIPE, stderr=subprocess.PIPE, timeout=120, env=env)
    except subprocess.TimeoutExpired:
        return {'problem': 'the flow did not terminate within 120 seconds', 'schedules': 1}
    got = None
    for line in p.stdout.decode('ascii', 'replace').splitlines():
        if 'RESULT ' in line:          # (the workers' reports share the stream: one may have been cut short in front of it)
            got = json.loads(line[line.index('RESULT ') + 7:])
    if got is None:
        return {'problem': 'the flow failed: %s' % p.stderr.decode('ascii', 'replace')[-300:], 'schedules': 1}
    want = sorted([i, 0 if (case['fail'] and i % 3 == 0) else 2 * i, case['cell']] for i in range(case['n']))
    if got != want:
        return {'problem': 'parallelize in a flow (%s): %d of %d rows delivered, missing or wrong: %r' % (
            'ASCII console, failing row function' if case['ascii'] else 'cells of %d characters' % case['cell'], len(got), len(want),
            [w for w in want if w not in got][:4]), 'schedules': 1}
    return {'problem': None, 'schedules': 1}


def run_impl(case):
    if case['kind'] == 'flow':
        return run_flow_case(case)
    if case['kind'] == 'flowchild':
        return run_flowchild(case)
    rows = case['rows']
    n = case['workers']
    if case['kind'] == 'real_processes':
        t0 = time.time()

        def rf(row):
            row['done'] += 1
            row['log'].append('x')
            raise_if_asked(row)
            row['twice'] = 2 * row.pop('tmp')
        with quiet():
            got = list(PMOD.fork(iter(aliased(copy.deepcopy(rows), case.get('alias'))), rf, n, lambda r: r['sel']))
        return {'problem': check_run(rows, got, []), 'seconds': round(time.time() - t0, 1), 'schedules': 1}
    if case['kind'] == 'random':
        r = Rng(case['seed'])
        trace, delivered, err = run_schedule(n, rows, lambda en, step: en[r.randrange(len(en))], alias=case.get('alias', False), close_race=case.get('close_race', False))
        return {'problem': check_run(rows, delivered, err), 'labels': to_labels(trace),
                'delivered': [[d['id'], d['sel'], d['done']] for d in delivered], 'schedules': 1}
    # exhaustive: stateless DFS over choice sequences
    explored, problem, bad_trace = 0, None, None
    stack = [[]]
    sample = None
    while stack and explored < case['cap']:
        prefix = stack.pop()
        widths = []

        def chooser(en, step, prefix=prefix, widths=widths):
            widths.append(len(en))
            return en[prefix[step]] if step < len(prefix) else en[0]
        trace, delivered, err = run_schedule(n, rows, chooser, alias=case.get('alias', False))
        explored += 1
        p = check_run(rows, delivered, err)
        if sample is None:
            sample = {'labels': to_labels(trace), 'delivered': [[d['id'], d['sel'], d['done']] for d in delivered]}
        if p and not problem:
            problem, bad_trace = p, to_labels(trace)
        for step in range(len(prefix), len(widths)):
            for alt in range(1, widths[step]):
                stack.append(prefix + [0] * (step - len(prefix)) + [alt])
    out = {'problem': problem, 'schedules': explored, 'exhausted': not stack}
    if bad_trace:
        out['bad_trace'] = bad_trace
    out.update(sample or {})
    return out


def oracle(case, out):
    if out.get('problem'):
        return '%d workers, %d rows: %s' % (case['workers'], len(case['rows']) if 'rows' in case else case['n'], out['problem'])
    return None


def citem(r, done=None):
    return '{| iid := %s; isel := %s; idone := %s |}' % (cnat(r[0] if isinstance(r, list) else r['id']),
                                                         cbool(r[1] if isinstance(r, list) else r['sel']),
                                                         cbool((r[2] if isinstance(r, list) else r['done']) > 0 if done is None else done))


def coq_term(case, out):
    if 'labels' not in out or out.get('problem'):
        return None
    rows = case['rows']
    inp = clist([citem(r, False) for r in rows])
    labels = clist(out['labels'])
    deliv = clist([citem(d) for d in out['delivered']])
    return ('let '"'"'(pre, rest) := lazy_prefix %s in '
            'match rest with '
            '| [] => items_eqb pre %s '
            '| _ => match run (init %s rest) %s with '
            '       | Some s => c_done s && items_eqb (pre ++ delivered s) %s && match enabled s with [] => true | _ => false end '
            '       | None => false end end') % (inp, deliv, cnat(case['workers']), labels, deliv)


def nontrivial(case, out):
    return case['kind'] in ('flow', 'flowchild') or any(r['sel'] for r in case['rows'])


def evidence_extra(case, out):
    return {'schedules': out.get('schedules', 0)}
