(* The pull protocol between a consumer and an observing step (dump_to_path, dump_to_zip, stream, checkpoint): the
   consumer asks for the next resource or for the next row of the current one, in any order it likes - it may stop reading a
   resource early or skip it altogether. Since fix 9cf3000 the observer reads what is left of the current resource itself
   when the consumer moves on (DumperBase.process_resources: yield ret; collections.deque(ret, maxlen=0)). *)
From Coq Require Import List Arith Bool.
Import ListNotations.

Section Pull.
  Variable R : Type.

  Inductive cop := CNextRes | CNextRow.

  Record ost := {
    done : list (list R);                 (* resources the observer has seen to their end *)
    cur : option (list R * list R);       (* the current resource: rows seen so far, rows still upstream *)
    todo : list (list R)                  (* resources not yet begun *)
  }.

  Definition start (pkg : list (list R)) : ost := {| done := []; cur := None; todo := pkg |}.

  Definition close_cur (drain : bool) (s : ost) : list (list R) :=
    match cur s with
    | Some (seen, rest) => done s ++ [if drain then seen ++ rest else seen]
    | None => done s
    end.

  (* one request of the consumer: the new state and the row delivered, if any *)
  Definition ostep (drain : bool) (s : ost) (o : cop) : ost * option R :=
    match o with
    | CNextRow =>
        match cur s with
        | Some (seen, r :: rest) => ({| done := done s; cur := Some (seen ++ [r], rest); todo := todo s |}, Some r)
        | _ => (s, None)
        end
    | CNextRes =>
        match todo s with
        | t :: ts => ({| done := close_cur drain s; cur := Some ([], t); todo := ts |}, None)
        | [] => ({| done := close_cur drain s; cur := None; todo := [] |}, None)
        end
    end.

  Fixpoint orun (drain : bool) (s : ost) (ops : list cop) : ost * list (option R) :=
    match ops with
    | [] => (s, [])
    | o :: rest => let '(s1, d) := ostep drain s o in let '(s2, ds) := orun drain s1 rest in (s2, d :: ds)
    end.

  (* everything the package holds, as the observer's state accounts for it *)
  Definition account (s : ost) : list (list R) :=
    done s ++ (match cur s with Some (seen, rest) => [seen ++ rest] | None => [] end) ++ todo s.

  (* the consumer has taken the stream to its end *)
  Definition finished (s : ost) : bool :=
    match cur s, todo s with None, [] => true | _, _ => false end.

  (* the same consumer on the bare upstream (no observer): what it is handed *)
  Definition bstep (s : ost) (o : cop) : ost * option R := ostep false s o.

  (* the consumer that reads k_i rows of resource i (all of it when k_i is large) and then goes on; finally asks once more *)
  Fixpoint reads (takes : list nat) : list cop :=
    match takes with
    | [] => [CNextRes]
    | k :: rest => CNextRes :: repeat CNextRow k ++ reads rest
    end.
End Pull.


Arguments done {R} _.
Arguments cur {R} _.
Arguments todo {R} _.
