From Coq Require Import List ZArith Bool Lia Sorted.
From DF Require Import Base.Str Base.Str_proofs Base.ListX Base.Value Base.Value_proofs
     Proc.RowOps Proc.Fields Proc.Sort Proc.Sort_proofs Proc.Join.
Import ListNotations.
Open Scope Z_scope.

(* ================= the index as a map ================= *)
Lemma db_get_insert_same (d : db) k e : db_get (kv_insert k e d) k = Some e.
Proof.
  induction d as [|[k' e'] d IH]; simpl.
  - rewrite str_eqb_refl. reflexivity.
  - destruct (str_ltb k k') eqn:L; simpl.
    + rewrite str_eqb_refl. reflexivity.
    + destruct (str_eqb k k') eqn:E; simpl.
      * rewrite str_eqb_refl. reflexivity.
      * rewrite E. exact IH.
Qed.

Lemma db_get_insert_other (d : db) k e k2 : k2 <> k -> db_get (kv_insert k e d) k2 = db_get d k2.
Proof.
  intros N. apply str_eqb_neq in N.
  induction d as [|[k' e'] d IH]; simpl.
  - rewrite N. reflexivity.
  - destruct (str_ltb k k') eqn:L; simpl.
    + rewrite N. reflexivity.
    + destruct (str_eqb k k') eqn:E; simpl.
      * apply str_eqb_eq in E. subst k'. rewrite N. reflexivity.
      * destruct (str_eqb k2 k'); [reflexivity|exact IH].
Qed.

(* what ends up stored under key k: only rows rendering k contribute *)
Fixpoint entry_after (fs : list jfield) (skey : kspec) (fo : bool) (cur : option entry) (k : str)
         (rows : list row) (n : Z) : res (option entry) :=
  match rows with
  | [] => Ok cur
  | r :: rs =>
      match render_key skey r n with
      | Err c => Err c
      | Ok k' =>
          if str_eqb k k' then
            match update_fields fs r (match cur with Some e => e_fields e | None => [] end) with
            | Err c => Err c
            | Ok f' =>
                entry_after fs skey fo
                  (Some {| e_fields := f';
                           e_key := if fo then Some (map (rget0 r) (key_list skey))
                                    else match cur with Some e => e_key e | None => None end |})
                  k rs (n + 1)
            end
          else
            (* a row with another key: must still be processable, but leaves k's entry alone *)
            entry_after fs skey fo cur k rs (n + 1)
      end
  end.

Theorem index_invariant fs skey fo rows : forall d n d' k,
  index_rows fs skey fo d rows n = Ok d' ->
  entry_after fs skey fo (db_get d k) k rows n = Ok (db_get d' k).
Proof.
  induction rows as [|r rs IH]; intros d n d' k H; simpl in *.
  - injection H as <-. reflexivity.
  - unfold index_row in H. destruct (render_key skey r n) as [k'|c] eqn:R; [|discriminate].
    destruct (update_fields fs r (match db_get d k' with Some e => e_fields e | None => [] end)) as [f'|c] eqn:U; [|discriminate].
    destruct (str_eqb k k') eqn:E.
    + apply str_eqb_eq in E. subst k'. rewrite U.
      erewrite <- IH; [|exact H]. rewrite db_get_insert_same. reflexivity.
    + erewrite <- IH; [|exact H]. rewrite db_get_insert_other; [reflexivity|].
      apply str_eqb_neq. exact E.
Qed.

(* the index stays a sorted map with distinct keys *)
Theorem index_sorted fs skey fo rows : forall d n d',
  StronglySorted klt d -> index_rows fs skey fo d rows n = Ok d' -> StronglySorted klt d'.
Proof.
  induction rows as [|r rs IH]; intros d n d' S H; simpl in *.
  - injection H as <-. exact S.
  - unfold index_row in H. destruct (render_key skey r n) as [k'|c]; [|discriminate].
    destruct (update_fields fs r _) as [f'|c]; [|discriminate].
    eapply IH; [|exact H]. apply kv_insert_sorted, S.
Qed.

(* ================= closed forms of the aggregators ================= *)
(* state of one field after a sequence of (non-null) values *)
Fixpoint agg_fold (g : agg) (st : aggst) (vals : list value) : res aggst :=
  match vals with
  | [] => Ok st
  | v :: vs => match agg_func g st v with Err c => Err c | Ok st' => agg_fold g st' vs end
  end.

Lemma fold_array vals : forall l, agg_fold GArray (SList l) vals = Ok (SList (l ++ vals)).
Proof. induction vals as [|v vs IH]; intros l; simpl; [rewrite app_nil_r; reflexivity|]. rewrite IH, <- app_assoc. reflexivity. Qed.

Theorem array_collects_in_order v vals : agg_fold GArray SNone (v :: vals) = Ok (SList (v :: vals)).
Proof. simpl. apply fold_array. Qed.

Lemma fold_count vals : forall n, agg_fold GCount (SCount n) vals = Ok (SCount (n + Z.of_nat (length vals))).
Proof.
  induction vals as [|v vs IH]; intros n; simpl; [f_equal; f_equal; lia|]. rewrite IH. f_equal. f_equal. lia.
Qed.

Theorem count_counts v vals : agg_fold GCount SNone (v :: vals) = Ok (SCount (Z.of_nat (length (v :: vals)))).
Proof. simpl agg_fold. rewrite fold_count. f_equal. f_equal. simpl length. lia. Qed.

Lemma fold_first vals : forall c, agg_fold GFirst (SVal c) vals = Ok (SVal c).
Proof. induction vals as [|v vs IH]; intros c; simpl; [reflexivity|apply IH]. Qed.

Theorem first_is_first v vals : agg_fold GFirst SNone (v :: vals) = Ok (SVal v).
Proof. simpl. apply fold_first. Qed.

Theorem last_is_last st v vals : agg_fold GLast st (vals ++ [v]) = Ok (SVal v).
Proof.
  revert st; induction vals as [|x xs IH]; intros st; simpl.
  - destruct st; reflexivity.
  - destruct st; simpl; apply IH.
Qed.

Fixpoint vints (zs : list Z) : list value := map VInt zs.

Lemma fold_sum zs : forall a, agg_fold GSum (SVal (VInt a)) (map VInt zs) = Ok (SVal (VInt (a + zsum zs))).
Proof.
  induction zs as [|z zs IH]; intros a; simpl.
  - unfold zsum. simpl. f_equal. f_equal. f_equal. lia.
  - rewrite IH. f_equal. f_equal. f_equal. unfold zsum. simpl.
    assert (G : forall l acc, fold_left Z.add l acc = acc + fold_left Z.add l 0).
    { induction l as [|x l IHl]; intros acc; simpl; [lia|]. rewrite IHl, (IHl x). lia. }
    rewrite (G zs z). lia.
Qed.

Theorem sum_is_sum z zs : agg_fold GSum SNone (map VInt (z :: zs)) = Ok (SVal (VInt (zsum (z :: zs)))).
Proof.
  simpl agg_fold. rewrite fold_sum. f_equal. f_equal. f_equal. unfold zsum. simpl.
  assert (G : forall l acc, fold_left Z.add l acc = acc + fold_left Z.add l 0).
  { induction l as [|x l IHl]; intros acc; simpl; [lia|]. rewrite IHl, (IHl x). lia. }
  rewrite (G zs z). reflexivity.
Qed.

Lemma fold_max zs : forall a, agg_fold GMax (SVal (VInt a)) (map VInt zs) = Ok (SVal (VInt (fold_left Z.max zs a))).
Proof.
  induction zs as [|z zs IH]; intros a; simpl; [reflexivity|].
  destruct (a <? z) eqn:L.
  - rewrite IH. f_equal. f_equal. f_equal. f_equal. apply Z.ltb_lt in L. lia.
  - destruct (a =? z) eqn:E; rewrite IH; f_equal; f_equal; f_equal; f_equal.
    + apply Z.eqb_eq in E. lia.
    + apply Z.ltb_ge in L. lia.
Qed.

Theorem max_is_max z zs : agg_fold GMax SNone (map VInt (z :: zs)) = Ok (SVal (VInt (fold_left Z.max zs z))).
Proof. simpl agg_fold. apply fold_max. Qed.

Lemma fold_min zs : forall a, agg_fold GMin (SVal (VInt a)) (map VInt zs) = Ok (SVal (VInt (fold_left Z.min zs a))).
Proof.
  induction zs as [|z zs IH]; intros a; simpl; [reflexivity|].
  destruct (z <? a) eqn:L.
  - rewrite IH. f_equal. f_equal. f_equal. f_equal. apply Z.ltb_lt in L. lia.
  - destruct (a =? z) eqn:E; rewrite IH; f_equal; f_equal; f_equal; f_equal.
    + apply Z.eqb_eq in E. lia.
    + apply Z.ltb_ge in L. lia.
Qed.

Theorem min_is_min z zs : agg_fold GMin SNone (map VInt (z :: zs)) = Ok (SVal (VInt (fold_left Z.min zs z))).
Proof. simpl agg_fold. apply fold_min. Qed.

Lemma fold_avg zs : forall n a, agg_fold GAvg (SAvg n a) (map VInt zs) = Ok (SAvg (n + Z.of_nat (length zs)) (a + zsum zs)).
Proof.
  assert (G : forall l acc, fold_left Z.add l acc = acc + fold_left Z.add l 0).
  { induction l as [|x l IHl]; intros acc; simpl; [lia|]. rewrite IHl, (IHl x). lia. }
  induction zs as [|z zs IH]; intros n a; simpl.
  - unfold zsum. simpl. f_equal. f_equal; lia.
  - rewrite IH. f_equal. unfold zsum. simpl. rewrite (G zs z). f_equal; lia.
Qed.

(* avg = sum / len of the non-null values *)
Theorem avg_is_sum_over_len z zs :
  agg_fold GAvg SNone (map VInt (z :: zs)) = Ok (SAvg (Z.of_nat (length (z :: zs))) (zsum (z :: zs))).
Proof.
  assert (G : forall l acc, fold_left Z.add l acc = acc + fold_left Z.add l 0).
  { induction l as [|x l IHl]; intros acc; simpl; [lia|]. rewrite IHl, (IHl x). lia. }
  change (agg_fold GAvg SNone (map VInt (z :: zs))) with (agg_fold GAvg (SAvg 1 z) (map VInt zs)).
  rewrite fold_avg.
  assert (E1 : 1 + Z.of_nat (length zs) = Z.of_nat (length (z :: zs))) by (simpl length; lia).
  assert (E2 : z + zsum zs = zsum (z :: zs)) by (unfold zsum; simpl; rewrite (G zs z); lia).
  rewrite E1, E2. reflexivity.
Qed.

(* ================= the target pass ================= *)
Definition opt_list {A} (o : option A) : list A := match o with Some x => [x] | None => [] end.

Fixpoint join_each (fs : list jfield) (tkey : kspec) (m : jmode) (d : db) (rows : list row) (n : Z)
  : res (list (option row * option str)) :=
  match rows with
  | [] => Ok []
  | r :: rs => match join_row fs tkey m d r n with
               | Err c => Err c
               | Ok x => match join_each fs tkey m d rs (n + 1) with Err c => Err c | Ok xs => Ok (x :: xs) end
               end
  end.

(* target rows are handled one by one, in order *)
Theorem join_rows_rowwise fs tkey m d rows : forall n out used,
  join_rows fs tkey m d rows n = Ok (out, used) ->
  exists each, join_each fs tkey m d rows n = Ok each /\
               out = flat_map (fun x => opt_list (fst x)) each /\
               used = flat_map (fun x => opt_list (snd x)) each /\ length each = length rows.
Proof.
  induction rows as [|r rs IH]; intros n out used H; simpl in *.
  - injection H as <- <-. exists []. repeat split; reflexivity.
  - destruct (join_row fs tkey m d r n) as [[o u]|c] eqn:J; [|discriminate].
    destruct (join_rows fs tkey m d rs (n + 1)) as [[out' us']|c] eqn:R; [|discriminate].
    injection H as <- <-. destruct (IH _ _ _ R) as [each [E1 [E2 [E3 E4]]]].
    exists ((o, u) :: each). rewrite E1. simpl. subst. repeat split; try reflexivity.
    + destruct o; reflexivity.
    + destruct u; reflexivity.
    + simpl. lia.
Qed.

(* a target row whose key is in the index is extended with the finalised aggregates *)
Theorem join_row_matched fs tkey m d r n k e extra :
  render_key tkey r n = Ok k -> db_get d k = Some e -> create_extra fs (key_list tkey) e = Ok extra ->
  join_row fs tkey m d r n = Ok (Some (rupdate r extra), Some k).
Proof. intros R G C. unfold join_row. rewrite R, G, C. reflexivity. Qed.

(* inner mode drops exactly the unmatched target rows *)
Theorem join_row_unmatched_inner fs tkey m d r n k :
  is_inner m = true -> render_key tkey r n = Ok k -> db_get d k = None ->
  join_row fs tkey m d r n = Ok (None, None).
Proof. intros I R G. unfold join_row. rewrite R, G, I. reflexivity. Qed.

(* an unmatched target row kept by an outer join keeps its own values and gets nulls for new fields *)
Theorem join_row_unmatched fs tkey m d r n k :
  is_inner m = false -> render_key tkey r n = Ok k -> db_get d k = None ->
  join_row fs tkey m d r n = Ok (Some (rupdate r (map (fun f => (jf_target f, rget0 r (jf_target f))) fs)), None).
Proof. intros I R G. unfold join_row. rewrite R, G, I. reflexivity. Qed.

(* full-outer: one extra row per stored key that no target row used, in key order *)
Theorem unused_rows_one_per_key fs tkl d used : forall ex,
  unused_rows fs tkl d used = Ok ex ->
  length ex = length (filter (fun ke => negb (str_in (fst ke) used)) d).
Proof.
  induction d as [|[k e] d IH]; intros ex H; simpl in *.
  - injection H as <-. reflexivity.
  - destruct (str_in k used); simpl.
    + apply IH, H.
    + destruct (create_extra fs tkl e); [|discriminate].
      destruct (unused_rows fs tkl d used) as [o|c]; [|discriminate].
      injection H as <-. simpl. f_equal. apply IH. reflexivity.
Qed.

(* deduplication mode: exactly one aggregated row per stored (distinct) key, in key order *)
Theorem dedup_one_row_per_key fs d : forall rows, dedup_rows fs d = Ok rows -> length rows = length d.
Proof.
  induction d as [|[k e] d IH]; intros rows H; simpl in *.
  - injection H as <-. reflexivity.
  - destruct (finalise_list fs (e_fields e)); [|discriminate].
    destruct (dedup_rows fs d) as [o|c]; [|discriminate].
    injection H as <-. simpl. f_equal. apply IH. reflexivity.
Qed.

Theorem dedup_keys_distinct_sorted fs skey src d :
  index_rows fs skey false [] src 1 = Ok d -> StronglySorted klt d.
Proof. intros H. eapply index_sorted; [constructor|exact H]. Qed.
