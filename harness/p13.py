"""C13 load reproduces the source table faithfully."""
import copy, csv, io, re
from common import *
from flowutil import *
import dataflows as DF
from dataflows.processors.load import load as Load

PROP = 'C13'
PROPS_V = 'Props/C13.v'
COQ_IMPORTS = ['Base.Str', 'Base.Value', 'Proc.RowOps', 'Proc.Fields', 'Proc.Load', 'IO.Csv', 'IO.LoadCsv_proofs']
RULE = ('cases = (a) header lists with duplicates (case variants) through rename_duplicate_headers, (b) row lists through '
        'the stripper/limiter/stringer wrappers, (c) generated CSV files (quotes, delimiters, LF inside cells, unicode, '
        'numeric-looking and empty cells, duplicate headers) loaded with infer/cast strategies, strip, limit_rows, '
        'deduplicate flags and on_error policies, (d) the CSV reader/writer models against Python\'s csv on well-formed '
        'and malformed text; non-trivial = duplicates present / a value changes / a cell needs quoting; distinct = digest'
        '; round 4: extract_missing_values (sources, target name) x cast strategies on files with sentinel cells'
        "; round 7: '%' in headers with the de-duplication format, limit_rows over a counting source together with cast_schema (the source is read no further than the limit needs)"
        '; round 8: load((descriptor, resources)) over the live stream of flows with duplicate/join/concatenate/dumpers x selections that skip resources; a custom on_error that answers per field'
        '; round 9: the bare name datapackage.json loaded from inside the package directory; override_schema together with override_fields')
TRUSTED = ['Coq 8.16.1 kernel + vm_compute', 'harness/p13.py printers and oracle',
           'tabulator (third party) reads the file: dialect sniffing and type inference are outside the model; its deviations are findings',
           'Python csv.reader/csv.writer are the reference the CSV model is compared with']
ASSUMES = ['rectangular tables with non-empty, unpadded header names', 'no bare CR inside cells (universal-newline translation by tabulator: finding under C03)',
           'str.isspace modelled for the generated code points']

CELLS = ['a', 'b c', ' pad', 'pad ', '\tx', 'x\n', 'say "hi"', 'a,b', 'line1\nline2', '1', '02', '3.5', '-7', '', 'é☃', 'NULL',
         '"', ',', "it's", 'x;y', 'true', '2020-01-01']
HEADERS = ['id', 'name', 'Name', 'NAME', 'value', 'a (1)', 'x y', 'é', 'n']


def gen_cases(rng, tier):
    n = {'quick': 70, 'thorough': 700, 'search': 350}[tier]
    cases = []
    for i in range(n):
        hs = [rng.pick(['a', 'b', 'A', 'a (1)', 'a (2)', 'c', 'B', 'x', 'growth %', '%s', '100%%', 'a']) for _ in range(rng.randint(1, 6))]
        cases.append({'kind': 'headers', 'headers': hs, 'cs': rng.chance(0.6),
                      'fmt': rng.pick([[' (', ')'], ['_', ''], ['.', '']])})
    for i in range(n):
        rows = [dict((k, rng.pick(CELLS + [None, 5, True])) for k in ['p', 'q']) for _ in range(rng.randint(0, 6))]
        cases.append({'kind': 'wrappers', 'rows': rows_enc(rows), 'which': rng.pick(['stripper', 'limiter', 'stringer']),
                      'limit': rng.randint(1, 7)})
    for i in range(n):
        ncols = rng.randint(1, 4)
        if rng.chance(0.3):
            hs = [rng.pick(['a', 'A', 'b', 'a', 'share %', 'share %', '%d']) for _ in range(ncols)]
        else:
            hs = rng.sample(HEADERS, ncols)
        pool = rng.sample(CELLS, rng.randint(3, 9))
        rows = [[rng.pick(pool) for _ in range(ncols)] for _ in range(rng.randint(0, 8))]
        for r in rows:
            if r[0] == '':
                r[0] = 'k'
        opts = {'strip': rng.chance(0.6), 'limit_rows': rng.pick([None, None, 1, 3, 20]),
                'infer': rng.pick([None, 'strings', 'full']), 'cast': rng.pick([None, 'strings', 'nothing']),
                'dedup': rng.chance(0.6), 'cs': rng.chance(0.7)}
        cases.append({'kind': 'csvfile', 'headers': hs, 'rows': rows, 'opts': opts})
    for i in range(n):
        if rng.chance(0.5):
            recs = [[rng.pick(CELLS + ['a\r\nb', '\r']) for _ in range(rng.randint(1, 3))] for _ in range(rng.randint(0, 4))]
            cases.append({'kind': 'csv_write', 'records': recs})
        else:
            alphabet = ['a', 'b', ',', '"', '\n', '\r', '\r\n', ' ', '""', 'x,y', '"q"']
            text = ''.join(rng.pick(alphabet) for _ in range(rng.randint(0, 14)))
            cases.append({'kind': 'csv_read', 'text': text})
    for i in range(max(12, n // 2)):
        rows = [[str(rng.randint(0, 9)) if rng.chance(0.8) else rng.pick(['x', '', '1.5']), rng.pick(['u', 'v']),
                 rng.pick(['1.5', '2', '0.25'])] for _ in range(rng.randint(1, 8))]
        cases.append({'kind': 'cast_schema', 'rows': rows, 'policy': rng.pick(['raise', 'drop', 'ignore', 'clear'])})
    # a custom handler that answers per field (drop the row for a bad n, keep it for a bad m): a row goes on only if every
    # answer for it said so, whichever field comes first in the schema (round 8)
    for i in range(max(6, n // 6)):
        rows = [[rng.pick(['1', '2', 'x', 'y7']), rng.pick(['u', 'v']), rng.pick(['1.5', '2', 'zz', '0.25', 'q'])] for _ in range(rng.randint(2, 8))]
        rows.insert(rng.randint(0, len(rows)), ['bad', 'u', 'worse'])
        cases.append({'kind': 'cast_schema', 'rows': rows, 'policy': 'custom_n_drops_m_keeps'})
    # limit_rows with schema casting: exactly the first n rows, whatever stands in the line after them
    for n_ in (1, 3):
        for pol in ('raise', 'drop'):
            rows = [[str(j), 'u', '1.5'] for j in range(n_)] + [['oops', 'v', '2']] + [['7', 'u', '0.25']]
            cases.append({'kind': 'cast_schema', 'rows': rows, 'policy': pol, 'limit': n_})
    cases += gen_select_cases(rng, max(16, n // 4))
    cases += gen_live_cases()
    for sch in (True, False):
        for fl in (True, False):
            cases.append({'kind': 'override', 'schema': sch, 'fields': fl})
    for i in range(max(16, n // 3)):
        # schema casting with the schema inferred from the file itself (all rows are inside the inference sample): no row
        # can be offending, text cells keep their text (stripped when asked), whatever the padding of the cells
        pools = [['', ' a ', 'b', ' c', 'd ', '\tz'], ['1', ' 2', '3 ', '', '  ', '40'], ['2020-01-03', ' 2020-01-04', '2020-02-01 ', ''],
                 ['true', ' false', 'true ', ''], ['1.5', ' 2.25', '', '  ']]
        cols = rng.sample(range(len(pools)), rng.randint(1, 3))
        hs = ['c%d' % j for j in cols]
        rows = [[rng.pick(pools[j]) for j in cols] for _ in range(rng.randint(1, 7))]
        if rng.chance(0.5):
            rows[0] = ['' for _ in cols]          # a first data line without values
        if all(c == '' for r in rows for c in r):
            rows.append(['x' for _ in cols])
        cases.append({'kind': 'infer_cast', 'headers': hs, 'rows': rows, 'strip': rng.chance(0.7),
                      'policy': rng.pick(['raise', 'drop', 'ignore', 'clear'])})
    for i in range(max(12, n // 4)):
        # extract_missing_values: the sentinel cells are reported in an object field and read as null
        ncols = rng.randint(1, 3)
        hs = ['c%d' % j for j in range(ncols)]
        sent = rng.sample(['err1', 'mis1', 'n/a', '-'], rng.randint(1, 2))
        rows = [[rng.pick(sent) if rng.chance(0.3) else rng.pick(['1', '2', '30', '7']) for _ in hs] for _ in range(rng.randint(1, 6))]
        cases.append({'kind': 'missing', 'headers': hs, 'rows': rows, 'sent': sent,
                      'cast': rng.pick([None, 'strings', 'schema', 'nothing']),
                      'source': rng.pick([None, None, hs[0], [hs[-1]]]), 'target': rng.pick([None, 'mv'])})
    return cases


PKG_NAMES = ['sales.2020', 'sales-2020', 'sales_2020', 'a', 'ab', 'a.b', 'a+', 'axb']


def gen_select_cases(rng, n):
    """loading a package (datapackage.json or a (descriptor, resources) pair) with a resources selector:
    exactly the selected resources come back, each with its own rows"""
    cases = []
    for i in range(n):
        # a name with a regex metacharacter together with a sibling that the name, read as a pattern, would match
        pair = rng.pick([['sales.2020', 'sales-2020'], ['a.b', 'axb'], ['a+', 'a'], ['sales.2020', 'sales_2020']])
        names = pair + [x for x in rng.sample(PKG_NAMES, rng.randint(0, 2)) if x not in pair]
        rng.shuffle(names)
        k = rng.randint(0, 3)
        if k == 0:
            sel = ['none', None]
        elif k == 1:
            sel = ['list', [pair[0]] + [x for x in names if x not in pair and rng.chance(0.4)]]
        elif k == 2:
            sel = ['int', rng.pick([names.index(pair[0]), names.index(pair[0]) - len(names), rng.randint(-len(names), len(names) - 1)])]
        else:
            sel = ['re', rng.pick([names[0].replace('+', '\\+'), 'sales.2020', 'a.b', 'a.*', 'sales.*', 'a\\+', '.*2020'])]
        cases.append({'kind': 'pkgselect', 'names': names, 'sel': sel, 'how': rng.pick(['dp', 'tuple', 'dp', 'tuple', 'dp_cwd']),
                      'nrows': [rng.randint(0, 3) for _ in names]})
    # systematically: list selectors that name the resources in another order than the package holds them, and twice
    for how in ('dp', 'tuple', 'dp_cwd'):
        names = ['people', 'cities', 'rivers']
        for sel in (['rivers', 'people'], ['rivers', 'cities', 'people'], ['cities', 'people'], ['people', 'people', 'rivers']):
            cases.append({'kind': 'pkgselect', 'names': names, 'sel': ['list', sel], 'how': how, 'nrows': [2, 3, 1]})
    return cases


def run_override(case):
    """override_schema naming the fields and override_fields refining some of them, together: the refinements apply"""
    text = 'd,n,b,q\n31/12/2020,"1.234,5",ja,5\n01/02/2021,"7,25",nein,50\n'
    path = os.path.join(scratch(), 'ov_%s.csv' % digest(case))
    open(path, 'w', newline='', encoding='utf-8').write(text)
    kw = {}
    if case['schema']:
        kw['override_schema'] = {'fields': [{'name': n, 'type': 'string'} for n in ('d', 'n', 'b', 'q')], 'missingValues': ['', 'NA']}
    if case['fields']:
        kw['override_fields'] = {'d': {'type': 'date', 'format': '%d/%m/%Y'}, 'n': {'type': 'number', 'decimalChar': ',', 'groupChar': '.'},
                                 'b': {'type': 'boolean', 'trueValues': ['ja'], 'falseValues': ['nein']},
                                 'q': {'type': 'integer', 'constraints': {'maximum': 10}}}
    out = run_stream([], [Load(path, name='res', cast_strategy=Load.CAST_WITH_SCHEMA, on_error=Load.ERRORS_DROP, infer_strategy=Load.INFER_STRINGS, **kw)])
    if 'error' in out:
        return {'error': out['error'], 'exc': out['exc']}
    return {'rows': rows_enc(out['rows'][0]), 'types': [[f['name'], f['type']] for f in out['dp']['resources'][0]['schema']['fields']],
            'mv': out['dp']['resources'][0]['schema'].get('missingValues')}


LIVE_FLOWS = ['plain', 'duplicate', 'duplicate_end', 'join_keep', 'join_delete', 'concat', 'dump', 'delete', 'sort']


def live_links(which, d):
    """a flow whose datastream is handed, live, to load((descriptor, resources)): some of its steps need each resource to
    be read before the next one is taken (duplicate stores the rows it copies, join indexes its source, concatenate
    chains the selected resources), so a selector that skips a resource must not leave it unread"""
    links = [[{'k': i, 'v': 'x%d' % i} for i in range(3)], [{'k': i % 3, 'w': i} for i in range(5)], [{'b': 100 + i} for i in range(4)]]
    extra = {'plain': [], 'duplicate': [DF.duplicate('res_1')], 'duplicate_end': [DF.duplicate('res_1', duplicate_to_end=True)],
             'join_keep': [DF.join('res_1', ['k'], 'res_2', ['k'], {'v': {}}, source_delete=False)],
             'join_delete': [DF.join('res_1', ['k'], 'res_2', ['k'], {'v': {}})],
             'concat': [DF.concatenate({'k': []}, target={'name': 'merged'}, resources=['res_1', 'res_2'])],
             'dump': [DF.dump_to_path(d)], 'delete': [DF.delete_resource('res_2')], 'sort': [DF.sort_rows('{k}', resources=['res_1', 'res_2'])]}[which]
    return links + extra


def gen_live_cases():
    cases = []
    for which in LIVE_FLOWS:
        for sel in ([-1], [0], [1], [-1, 0], 'last_two'):
            cases.append({'kind': 'livepair', 'flow': which, 'sel': sel})
    return cases


def run_livepair(case):
    import shutil
    d = os.path.join(scratch(), 'lp_%s' % digest(case))
    try:
        with quiet():
            ref_rows, ref_dp, _ = Flow(*live_links(case['flow'], d)).results()
        names = [r.name for r in ref_dp.resources]
        if case['sel'] == 'last_two':
            sel = names[-2:]
        else:
            sel = [names[i] for i in case['sel'] if -len(names) <= i < len(names)]
        sel = [n for n in names if n in sel]
        shutil.rmtree(d, ignore_errors=True)
        try:
            with quiet():
                ds = Flow(*live_links(case['flow'], d)).datastream()
                # (the selector lists the names in reverse: a list selects the listed names, in the order of the package)
                rows, dp, _ = Flow(Load((ds.dp.descriptor, ds.res_iter), resources=list(reversed(sel)))).results()
        except Exception as e:
            c = e
            while type(c).__name__ == 'ProcessorError' and getattr(c, 'cause', None) is not None:
                c = c.cause
            return {'error': 1, 'exc': '%s: %s' % (type(c).__name__, str(c)[:200]), 'sel': sel, 'all': names}
        return {'sel': sel, 'all': names, 'nrows': [len(x) for x in ref_rows], 'names': [r.name for r in dp.resources],
                'rows': [rows_enc(x) for x in rows], 'ref': [rows_enc(ref_rows[names.index(n)]) for n in sel]}
    finally:
        shutil.rmtree(d, ignore_errors=True)


def witnesses():
    return [{'kind': 'headers', 'headers': ['a', 'a', 'a (1)'], 'cs': True, 'fmt': [' (', ')'], 'witness_of': 'C13.dedup_headers_collision'}]


def write_csv_file(headers, rows):
    buf = io.StringIO(newline='')
    w = csv.writer(buf)
    w.writerow(headers)
    for r in rows:
        w.writerow(r)
    return buf.getvalue()


def run_pkgselect(case):
    import shutil
    res = [{'name': nm, 'fields': [{'name': 'i', 'type': 'integer'}, {'name': 'src', 'type': 'string'}],
            'rows': [{'i': j, 'src': nm} for j in range(nr)]} for nm, nr in zip(case['names'], case['nrows'])]
    sel = case['sel'][1]
    d = os.path.join(scratch(), 'ps_%s' % digest(case))
    shutil.rmtree(d, ignore_errors=True)
    try:
        if case['how'] in ('dp', 'dp_cwd'):
            with quiet():
                Flow(Src(res), DF.dump_to_path(d)).process()
            if case['how'] == 'dp_cwd':
                # the package loaded by its bare file name, from inside its directory
                old = os.getcwd()
                os.chdir(d)
                try:
                    out = run_stream([], [Load('datapackage.json', resources=sel)])
                finally:
                    os.chdir(old)
                if 'error' in out:
                    return {'error': out['error'], 'exc': out['exc']}
                return {'names': [r['name'] for r in out['dp']['resources']], 'rows': [rows_enc(x) for x in out['rows']]}
            step = Load(os.path.join(d, 'datapackage.json'), resources=sel)
        else:
            ds = Flow(Src(res)).datastream()
            step = Load((ds.dp.descriptor, ds.res_iter), resources=sel)
        out = run_stream([], [step], rerun=(case['how'] == 'dp'))
    finally:
        shutil.rmtree(d, ignore_errors=True)
    if 'error' in out:
        return {'error': out['error'], 'exc': out['exc']}
    return {'names': [r['name'] for r in out['dp']['resources']], 'rows': [rows_enc(x) for x in out['rows']]}


def run_impl(case):
    k = case['kind']
    if k == 'pkgselect':
        return run_pkgselect(case)
    if k == 'livepair':
        return run_livepair(case)
    if k == 'override':
        return run_override(case)
    if k == 'headers':
        return {'headers': Load.rename_duplicate_headers(list(case['headers']), case_sensitive=case['cs'],
                                                         deduplicate_format=case['fmt'][0] + '%s' + case['fmt'][1])}
    if k == 'wrappers':
        ld = Load('x.csv', limit_rows=case['limit'])
        rows = rows_dec(case['rows'])
        try:
            return {'rows': rows_enc(list(getattr(ld, case['which'])(iter(copy.deepcopy(rows)))))}
        except Exception as e:
            return {'error': err_code(e), 'exc': str(e)}
    if k == 'csv_write':
        buf = io.StringIO(newline='')
        w = csv.writer(buf)
        for r in case['records']:
            w.writerow(r)
        return {'text': buf.getvalue()}
    if k == 'csv_read':
        try:
            return {'records': [list(r) for r in csv.reader(io.StringIO(case['text'], newline=''))]}
        except csv.Error as e:
            return {'error': 4, 'exc': str(e)}
    if k == 'infer_cast':
        text = write_csv_file(case['headers'], case['rows'])
        path = os.path.join(scratch(), 'i_%s.csv' % digest(case))
        open(path, 'w', newline='', encoding='utf-8').write(text)
        pol = {'raise': Load.ERRORS_RAISE, 'drop': Load.ERRORS_DROP, 'ignore': Load.ERRORS_IGNORE, 'clear': Load.ERRORS_CLEAR}[case['policy']]
        out = run_stream([], [Load(path, name='res', cast_strategy=Load.CAST_WITH_SCHEMA, on_error=pol, strip=case['strip'])])
        if 'error' in out:
            return {'error': out['error'], 'exc': out['exc']}
        return {'rows': rows_enc(out['rows'][0]), 'types': [f['type'] for f in out['dp']['resources'][0]['schema']['fields']]}
    if k == 'missing':
        text = write_csv_file(case['headers'], case['rows'])
        path = os.path.join(scratch(), 'm_%s.csv' % digest(case))
        open(path, 'w', newline='', encoding='utf-8').write(text)
        emv = {}
        if case['source'] is not None:
            emv['source'] = copy.deepcopy(case['source'])
        if case['target'] is not None:
            emv['target'] = case['target']
        kw = {'cast_strategy': case['cast']} if case['cast'] else {}
        out = run_results([], [Load(path, name='res', override_schema={'missingValues': list(case['sent'])},
                                    extract_missing_values=(emv or True), **kw)])
        if 'error' in out:
            return {'error': out['error'], 'exc': out['exc']}
        return {'rows': rows_enc(out['rows'][0]), 'fields': field_names(out['dp'], 0)}
    if k == 'cast_schema':
        text = write_csv_file(['n', 's', 'm'], case['rows'])
        path = os.path.join(scratch(), 'c_%s.csv' % digest(case))
        open(path, 'w', newline='', encoding='utf-8').write(text)
        pol = {'raise': Load.ERRORS_RAISE, 'drop': Load.ERRORS_DROP, 'ignore': Load.ERRORS_IGNORE, 'clear': Load.ERRORS_CLEAR,
               'custom_n_drops_m_keeps': (lambda res, row, i, e, field: field.name != 'n')}[case['policy']]
        out = run_stream([], [Load(path, name='res', cast_strategy=Load.CAST_WITH_SCHEMA, on_error=pol, limit_rows=case.get('limit'),
                                   override_fields={'n': {'type': 'integer'}, 'm': {'type': 'number'}}, infer_strategy=Load.INFER_STRINGS)])
        if 'error' in out:
            return {'error': out['error'], 'exc': out['exc'], 'exc_type': out.get('exc_type')}
        return {'rows': rows_enc(out['rows'][0])}
    text = write_csv_file(case['headers'], case['rows'])
    path = os.path.join(scratch(), 'f_%s.csv' % digest(case))
    open(path, 'w', newline='', encoding='utf-8').write(text)
    o = case['opts']
    kw = {}
    if o['infer']:
        kw['infer_strategy'] = o['infer']
    if o['cast']:
        kw['cast_strategy'] = o['cast']
    out = run_stream([], [Load(path, name='res', strip=o['strip'], limit_rows=o['limit_rows'], deduplicate_headers=o['dedup'],
                               deduplicate_headers_case_sensitive=o['cs'], **kw)])
    if 'error' in out:
        return {'error': out['error'], 'exc': out['exc'], 'text': text}
    return {'rows': rows_enc(out['rows'][0]), 'fields': field_names(out['dp'], 0), 'text': text}


def exp_headers(case):
    """what the property asks: unique names derived from the headers (the documented scheme)"""
    hs, cs = case['headers'], case['cs']
    keys = [h if cs else h.lower() for h in hs]
    out, seen = [], {}
    for h, k in zip(hs, keys):
        seen[k] = seen.get(k, 0) + 1
        out.append(h if keys.count(k) == 1 else h + case['fmt'][0] + str(seen[k]) + case['fmt'][1])
    return out


def py_strip(v):
    if v and isinstance(v, str) and (v[-1] in ' \t\n\r' or v[0] in ' \t\n\r'):
        return v.strip()
    return v


def true_parse(text):
    recs = list(csv.reader(io.StringIO(text, newline='')))
    return recs[0], recs[1:]


def oracle(case, out):
    k = case['kind']
    if k == 'override':
        what = 'load(override_schema=%s, override_fields=%s, cast with schema, drop on error)' % ('given' if case['schema'] else 'None', 'given' if case['fields'] else 'None')
        if 'error' in out:
            return '%s failed: %s' % (what, out['exc'])
        if case['fields']:
            want_types = [['d', 'date'], ['n', 'number'], ['b', 'boolean'], ['q', 'integer']]
            want_rows = [{'d': datetime.date(2020, 12, 31), 'n': decimal.Decimal('1234.5'), 'b': True, 'q': 5}]      # (the second row violates maximum: dropped)
        else:
            want_types = [[x, 'string'] for x in 'dnbq']
            want_rows = [{'d': '31/12/2020', 'n': '1.234,5', 'b': 'ja', 'q': '5'}, {'d': '01/02/2021', 'n': '7,25', 'b': 'nein', 'q': '50'}]
        if out['types'] != want_types or rows_dec(out['rows']) != want_rows:
            return '%s: fields %r rows %r; the overrides give %r and %r' % (what, out['types'], rows_dec(out['rows']), want_types, want_rows)
        if case['schema'] and out['mv'] != ['', 'NA']:
            return '%s: missingValues of override_schema not in the descriptor (%r)' % (what, out['mv'])
        return None
    if k == 'livepair':
        what = 'load((descriptor, resources), resources=%r) over the live stream of a flow with %s' % (out.get('sel'), case['flow'])
        if 'error' in out:
            return '%s failed: %s' % (what, out['exc'])
        if out['names'] != out['sel']:
            return '%s selected %r' % (what, out['names'])
        for nm, got, ref in zip(out['names'], out['rows'], out['ref']):
            if got != ref:
                return '%s: resource %r came back with %d rows %r, read in turn it has %d rows %r' % (
                    what, nm, len(got), rows_dec(got)[:2], len(ref), rows_dec(ref)[:2])
        return None
    if k == 'pkgselect':
        import re as _re
        names, (form, sel) = case['names'], case['sel']
        if form == 'none':
            want = list(names)
        elif form == 'list':
            want = [x for x in names if x in sel]
        elif form == 'int':
            want = [names[sel]]
        else:
            want = [x for x in names if _re.fullmatch(sel, x)]
        if 'error' in out:
            return 'load(%s, resources=%r) failed: %s' % (case['how'], sel, out['exc'])
        if out['names'] != want:
            return 'load(%s, resources=%r) of %r selected %r, the selector means %r' % (case['how'], sel, names, out['names'], want)
        for nm, rows in zip(out['names'], out['rows']):
            exp = [{'i': j, 'src': nm} for j in range(case['nrows'][names.index(nm)])]
            if rows_dec(rows) != exp:
                return 'load(%s, resources=%r): resource %r came back with rows %r' % (case['how'], sel, nm, rows_dec(rows)[:3])
        return None
    if k == 'headers':
        got = out['headers']
        if len(got) != len(case['headers']):
            return 'headers: %d names for %d headers' % (len(got), len(case['headers']))
        keys = [h if case['cs'] else h.lower() for h in case['headers']]
        if len(set(keys)) != len(keys) and len(set(got)) != len(got):
            return 'headers: de-duplicated headers are not unique: %r' % got
        if got != exp_headers(case):
            return 'headers: %r, documented scheme gives %r' % (got, exp_headers(case))
        return None
    if k == 'wrappers':
        rows = rows_dec(case['rows'])
        if 'error' in out:
            return 'wrapper %s failed: %s' % (case['which'], out['exc'])
        got = rows_dec(out['rows'])
        if case['which'] == 'limiter':
            return None if got == rows[:case['limit']] else 'limit_rows=%d yielded %d rows of %d' % (case['limit'], len(got), len(rows))
        if case['which'] == 'stringer':
            if any(not isinstance(v, str) for r in got for v in r.values()):
                return 'string strategy yielded a non-string value'
            exp = [dict((a, b if isinstance(b, str) else str(b)) for a, b in r.items()) for r in rows]
            return None if got == exp else 'stringer changed string content'
        exp = [dict((a, py_strip(b)) for a, b in r.items()) for r in rows]
        return None if got == exp and all(type(x[a]) is type(y[a]) for x, y in zip(got, exp) for a in x) else 'stripper: cell text changed beyond whitespace stripping'
    if k == 'csv_write':
        try:
            back = [list(r) for r in csv.reader(io.StringIO(out['text'], newline=''))]
        except csv.Error:
            return 'csv writer produced text the reader rejects'
        return None if back == [[str(c) for c in r] for r in case['records']] else None   # reference behaviour; compared with the model only
    if k == 'csv_read':
        return None
    if k == 'infer_cast':
        if 'error' in out:
            return 'load(cast_strategy=schema, on_error=%s, strip=%s) failed on a well-formed file whose schema it inferred itself: %s' % (
                case['policy'], case['strip'], out['exc'])
        got = rows_dec(out['rows'])
        if len(got) != len(case['rows']):
            return 'cast_strategy=schema/%s: %d rows from %d data lines although the schema was inferred from these very rows' % (
                case['policy'], len(got), len(case['rows']))
        for r, g in zip(case['rows'], got):
            for h, c, t in zip(case['headers'], r, out['types']):
                v = g.get(h)
                if isinstance(v, str):
                    want = py_strip(c) if case['strip'] else c
                    if t != 'string' and t != 'any':
                        return 'cell %r of column %s (inferred %s) was delivered uncast, as text %r' % (c, h, t, v)
                    if v != want:
                        return 'text cell %r was delivered as %r (strip=%s)' % (c, v, case['strip'])
                elif v is None and c.strip() != '' and not (c in ('',)):
                    return 'cell %r of column %s was delivered as null' % (c, h)
        return None
    if k == 'missing':
        hs, target = case['headers'], case['target'] or 'missingValues'
        src = case['source']
        src = hs if src is None else ([src] if isinstance(src, str) else src)
        if 'error' in out:
            return 'load(extract_missing_values, cast_strategy=%r) failed on a well-formed file: %s' % (case['cast'], out['exc'])
        if out['fields'] != hs + [target]:
            return 'extract_missing_values: fields %r, expected %r' % (out['fields'], hs + [target])
        got = rows_dec(out['rows'])
        if len(got) != len(case['rows']):
            return 'extract_missing_values: %d rows from %d data lines' % (len(got), len(case['rows']))
        for r, g in zip(case['rows'], got):
            exp_map = dict((h, c) for h, c in zip(hs, r) if c in case['sent'] and h in src)
            if g.get(target) != exp_map:
                return 'extract_missing_values: row %r reports %r, the sentinel cells are %r' % (r, g.get(target), exp_map)
            for h, c in zip(hs, r):
                if c in case['sent']:
                    if g[h] is not None:
                        return 'a missing value %r was delivered as %r' % (c, g[h])
                elif str(g[h]) != c:
                    return 'cell %r was delivered as %r' % (c, g[h])
        return None
    if k == 'cast_schema':
        rows = case['rows'][:case['limit']] if case.get('limit') else case['rows']
        bad = [i for i, r in enumerate(rows) if not re.fullmatch(r'-?\d+', r[0].strip()) and r[0].strip() != '']
        pol = case['policy']
        if pol == 'custom_n_drops_m_keeps':
            if 'error' in out:
                return 'cast_strategy=schema with a custom handler failed: %s' % out['exc']
            exp = []
            for i, r in enumerate(rows):
                if i in bad:
                    continue
                try:
                    m = decimal.Decimal(r[2])
                except Exception:
                    m = r[2]
                exp.append({'n': int(r[0].strip()) if r[0].strip() != '' else None, 's': r[1], 'm': m})
            got = [dict(n=g['n'], s=g['s'], m=g.get('m')) for g in rows_dec(out['rows'])]
            return None if got == exp else ('cast_strategy=schema, handler dropping rows with a bad n and keeping rows with a bad m: rows %r, '
                                            'the handler\'s answers give %r') % (got[:5], exp[:5])
        if pol == 'raise':
            if bad:
                return None if 'error' in out else 'cast_strategy=schema/raise: an uncastable cell did not abort the run'
            if 'error' in out:
                return 'cast_strategy=schema: failed on castable data: %s' % out['exc']
        if 'error' in out:
            return 'cast_strategy=schema/%s failed: %s' % (pol, out['exc'])
        got = rows_dec(out['rows'])
        exp = []
        for i, r in enumerate(rows):
            n = r[0].strip()
            if i in bad:
                if pol == 'drop':
                    continue
                v = None if pol == 'clear' else r[0]
            else:
                v = int(n) if n != '' else None
            exp.append({'n': v, 's': r[1], 'm': decimal.Decimal(r[2])})
        got = [dict(n=(g['n'].strip() if isinstance(g['n'], str) else g['n']), s=g['s'], m=g.get('m')) for g in got]
        exp = [dict(n=(e['n'].strip() if isinstance(e['n'], str) else e['n']), s=e['s'], m=e['m']) for e in exp]
        if got == exp and any(type(g['m']) is not type(e['m']) for g, e in zip(got, exp)):
            return 'cast_strategy=schema/%s: a later column of a row with an offending cell was left uncast' % pol
        return None if got == exp else 'cast_strategy=schema/%s: rows %r, expected %r' % (pol, got[:4], exp[:4])
    # csvfile
    o = case['opts']
    hs = case['headers']
    keys = hs if o['cs'] else [h.lower() for h in hs]
    dup = len(set(keys)) != len(keys)
    if dup and not o['dedup']:
        return None if 'error' in out else 'duplicate headers were accepted although de-duplication was not requested'
    if 'error' in out:
        return 'load failed on a well-formed file: %s' % out['exc']
    thead, trows = true_parse(out['text'])
    exp_fields = exp_headers({'headers': thead, 'cs': o['cs'], 'fmt': [' (', ')']}) if dup else thead
    if out['fields'] != exp_fields:
        return 'field names %r, expected %r' % (out['fields'], exp_fields)
    if len(set(out['fields'])) != len(out['fields']):
        return 'field names are not unique: %r' % out['fields']
    exp = [dict(zip(exp_fields, r)) for r in trows]
    if o['strip']:
        exp = [dict((a, py_strip(b)) for a, b in r.items()) for r in exp]
    if o['limit_rows']:
        exp = exp[:o['limit_rows']]
    got = [dict((a, '' if b is None else b) for a, b in r.items()) for r in rows_dec(out['rows'])]
    if (o['infer'] == 'strings' or o['cast'] == 'strings') and any(not isinstance(v, str) for r in got for v in r.values()):
        return 'a string strategy yielded a non-string value'
    got = [dict((a, b if isinstance(b, str) else str(b)) for a, b in r.items()) for r in got]
    if len(got) != len(exp):
        return '%d rows loaded from %d data lines (limit_rows=%r)' % (len(got), len(trows), o['limit_rows'])
    if got != exp:
        j = next(i for i in range(len(exp)) if got[i] != exp[i])
        return 'row %d loaded as %r, the file says %r' % (j, got[j], exp[j])
    return None


def finding(case, out, failure):
    if case['kind'] == 'headers':
        got = out.get('headers', [])
        originals = set(case['headers'])
        gen = [g for g, h in zip(got, case['headers']) if g != h]
        if len(set(got)) != len(got) and any(g in originals or gen.count(g) > 1 for g in gen):
            return 'C13.dedup_headers_collision'
        if got != exp_headers(case) and any(g in originals for g in exp_headers(case) if g not in case['headers'] or True) and len(set(got)) != len(got):
            return 'C13.dedup_headers_collision'
    if case['kind'] == 'csvfile' and 'text' in out:
        hs = case['headers']
        keys = hs if case['opts']['cs'] else [h.lower() for h in hs]
        if len(set(keys)) != len(keys) and 'fields' in out and len(set(out['fields'])) != len(out['fields']):
            return 'C13.dedup_headers_collision'
        # tabulator sniffed a dialect different from the one the file was written with
        try:
            sample = out['text'].replace('\r\n', '\n')
            d = csv.Sniffer().sniff(''.join(sample.splitlines(True)[:100]), ',\t;|')
            if d.delimiter != ',' or d.quotechar != '"' or d.skipinitialspace:
                return 'C13.tabulator_sniffer'
        except csv.Error:
            pass
    return None


def coq_term(case, out):
    k = case['kind']
    if k == 'override':
        return None
    if k == 'livepair':
        if 'error' in out:
            return None
        pairs = clist([cpair(cstr(nm), cnat(nr)) for nm, nr in zip(out['all'], out['nrows'])])
        got = clist([cpair(cstr(nm), cnat(len(r))) for nm, r in zip(out['names'], out['rows'])])
        return ('list_eqb (fun a b => str_eqb (fst a) (fst b) && Nat.eqb (snd a) (snd b)) '
                '(select_pairs (fun n => str_in n %s) (fun x => x) %s) %s' % (cstrs(out['sel']), pairs, got))
    if k == 'pkgselect':
        if 'error' in out:
            return None
        # the loader pairs descriptors and iterators through one predicate, in order (C13_selection_pairs)
        pairs = clist([cpair(cstr(nm), cnat(nr)) for nm, nr in zip(case['names'], case['nrows'])])
        got = clist([cpair(cstr(nm), cnat(len(r))) for nm, r in zip(out['names'], out['rows'])])
        return ('list_eqb (fun a b => str_eqb (fst a) (fst b) && Nat.eqb (snd a) (snd b)) '
                '(select_pairs (fun n => str_in n %s) (fun x => x) %s) %s' % (cstrs(out['names']), pairs, got))
    if k == 'headers':
        return 'list_eqb str_eqb (rename_duplicate_headers %s %s %s %s) %s' % (
            cbool(case['cs']), cstr(case['fmt'][0]), cstr(case['fmt'][1]), cstrs(case['headers']), cstrs(out['headers']))
    if k == 'wrappers':
        rows = rows_dec(case['rows'])
        if 'error' in out:
            return None
        got = crows(rows_dec(out['rows']))
        if case['which'] == 'limiter':
            return 'rows_eqb (limiter %s 0 %s) %s' % (cZ(case['limit']), crows(rows), got)
        if case['which'] == 'stripper':
            return 'rows_eqb (stripper %s) %s' % (crows(rows), got)
        return ('match map_res (fun r => map_res (fun kv => match stringer_value (snd kv) with Ok v => Ok (fst kv, v) | Err c => Err c end) r) %s '
                'with Ok rs => rows_eqb rs %s | Err c => (c =? 99) end') % (crows(rows), got)
    if k == 'csv_write':
        return 'str_eqb (write_csv %s) %s' % (clist([cstrs([str(c) for c in r]) for r in case['records']]), cstr(out['text']))
    if k == 'csv_read':
        if 'error' in out:
            return 'match read_csv %s with Err _ => true | Ok _ => false end' % cstr(case['text'])
        return 'match read_csv %s with Ok rs => list_eqb (list_eqb str_eqb) rs %s | Err _ => false end' % (
            cstr(case['text']), clist([cstrs(r) for r in out['records']]))
    if k == 'csvfile':
        if 'error' in out or finding(case, out, None):
            return None
        o = case['opts']
        keys = case['headers'] if o['cs'] else [h.lower() for h in case['headers']]
        if len(set(keys)) != len(keys):
            return None
        fields = cstrs(out['fields'])
        got = crows([dict((a, '' if b is None else (b if isinstance(b, str) else str(b))) for a, b in r.items()) for r in rows_dec(out['rows'])])
        lim = 'None' if not o['limit_rows'] else '(Some %s)' % cZ(o['limit_rows'])
        # load_csv is the definition the file-level theorem C13_file_rows_faithful speaks about
        return ('match load_csv %s %s with Ok rows => rows_eqb (wrap (fun x => x) %s %s rows) %s | Err _ => false end') % (
            fields, cstr(out['text']), cbool(o['strip']), lim, got)
    return None


def nontrivial(case, out):
    k = case['kind']
    if k == 'headers':
        return len(set(case['headers'])) != len(case['headers'])
    if k == 'wrappers':
        return out.get('rows') != case['rows']
    if k in ('csv_write', 'csv_read'):
        t = out.get('text', case.get('text', ''))
        return any(c in t for c in '",\n')
    return True


def shrinks(case):
    if case['kind'] == 'csvfile':
        for i in range(len(case['rows'])):
            c = copy.deepcopy(case)
            del c['rows'][i]
            yield c
    if case['kind'] == 'headers' and len(case['headers']) > 1:
        for i in range(len(case['headers'])):
            c = copy.deepcopy(case)
            del c['headers'][i]
            yield c
