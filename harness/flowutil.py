"""Helpers to run the real dataflows code on explicit, typed inputs."""
import copy, io, contextlib, os, sys, logging
from common import *

logging.disable(logging.CRITICAL)

import dataflows
from dataflows import Flow, DataStreamProcessor, DataStream
from dataflows.base.resource_wrapper import ResourceWrapper
from datapackage import Package


# Speed-up (harness process only, third-party library, not dataflows): datapackage
# re-validates its own constant profile JSON-schemas against the JSON-Schema
# metaschema each time a Package/Resource object is built (~40 ms each).  The
# outcome for a given profile name never changes, so it is memoised here.
if os.environ.get('VERIF_NO_SPEEDUP') != '1':
    import datapackage.profile as _dpp
    _orig_check = _dpp.Profile._check_schema
    _checked = set()

    def _cached_check(self):
        key = getattr(self, 'name', None)
        if key is not None and key in _checked:
            return
        _orig_check(self)
        if key is not None:
            _checked.add(key)
    _dpp.Profile._check_schema = _cached_check


class Src(DataStreamProcessor):
    """A user-level source step: appends explicitly described resources (name,
    schema fields, primary key) and streams deep copies of the given rows."""

    def __init__(self, resources, on_pull=None):
        super().__init__()
        self.resources_spec = resources
        self.on_pull = on_pull

    def process_datapackage(self, dp):
        for r in self.resources_spec:
            schema = {'fields': copy.deepcopy(r['fields'])}
            if r.get('pk') is not None:
                schema['primaryKey'] = r['pk'] if isinstance(r['pk'], str) else list(r['pk'])   # (the string form is legal Table Schema)
            if r.get('missingValues') is not None:
                schema['missingValues'] = list(r['missingValues'])
            # further schema-level properties (foreignKeys, custom keys): steps hand them on untouched
            schema.update(copy.deepcopy(r.get('schema_props', {})))
            d = {'name': r['name'], 'path': r.get('path', r['name'] + '.csv'), 'schema': schema,
                 'profile': 'tabular-data-resource'}
            d.update(copy.deepcopy(r.get('props', {})))
            dp.descriptor.setdefault('resources', []).append(d)
        return dp

    def process_resources(self, resources):
        yield from super().process_resources(resources)
        for ri, r in enumerate(self.resources_spec):
            yield self._rows(ri, r)

    def _rows(self, ri, r):
        for i, row in enumerate(r['rows']):
            if self.on_pull:
                self.on_pull(ri, i)
            yield copy.deepcopy(row)


@contextlib.contextmanager
def quiet():
    buf = io.StringIO()
    with contextlib.redirect_stdout(buf), contextlib.redirect_stderr(buf):
        yield buf


def run_results(resources, steps, on_error='default'):
    """Returns {'rows': [[row,...],...], 'dp': descriptor} or {'error': code, 'exc': text}"""
    try:
        with quiet():
            f = Flow(Src(resources), *steps)
            if on_error == 'default':
                res, dp, stats = f.results()
            else:
                res, dp, stats = f.results(on_error=on_error)
        return {'rows': res, 'dp': dp.descriptor, 'stats': stats}
    except Exception as e:
        c = e
        while type(c).__name__ == 'ProcessorError' and getattr(c, 'cause', None) is not None:
            c = c.cause
        return {'error': err_code(e), 'exc': '%s: %s' % (type(c).__name__, str(c)[:300]), 'exc_type': type(c).__name__}


def _run_once(resources, steps):
    with quiet():
        ds = Flow(Src(copy.deepcopy(resources)), *steps).datastream()
        rows = [list(r) for r in ds.res_iter]
    return {'rows': rows, 'dp': ds.dp.descriptor}


def _run_collect(resources, steps):
    """the consumer takes all the resources first, lets go of the resources iterator, and reads the rows afterwards"""
    import gc
    with quiet():
        ds = Flow(Src(copy.deepcopy(resources)), *steps).datastream()
        it = iter(ds.res_iter)
        # (exactly as many as the descriptor lists: the iterator is not driven past its last resource, which is where steps
        # tidy up - join closes its stores there - and it is dropped before the first row is read)
        taken = [next(it) for _ in ds.dp.descriptor.get('resources', [])]
        del it
        gc.collect()
        rows = [list(r) for r in taken]
    return {'rows': rows, 'dp': ds.dp.descriptor}


def run_stream(resources, steps, rerun=True, collect=False):
    """Raw rows as they leave the last step (Flow.datastream(), no final cast).
    With rerun (the default) the same step objects are executed a second time on a fresh copy of the source: a
    property that holds for a run holds for every run of the same steps, so the second run's output is what is
    returned and judged, and a second run that differs from the first is reported as a failure."""
    try:
        first = _run_once(resources, steps)
        if not rerun:
            return first
        try:
            second = _run_once(resources, steps)
        except Exception as e2:
            return {'error': E_OTHER, 'exc': 'the second run of the same step objects failed (%s: %s) although the first succeeded'
                    % (type(e2).__name__, str(e2)[:200]), 'exc_type': 'SecondRun'}
        if enc(second['rows']) != enc(first['rows']) or enc(second['dp']) != enc(first['dp']):
            return {'error': E_OTHER, 'exc': 'the second run of the same step objects differs from the first: %s vs %s'
                    % (str(enc(second['rows']))[:160], str(enc(first['rows']))[:160]), 'exc_type': 'SecondRun'}
        if collect:
            # lazily chained row- and field-level steps: what comes out does not depend on whether the consumer reads each
            # resource's rows before taking the next resource or takes all resources first
            try:
                third = _run_collect(resources, steps)
            except Exception as e3:
                return {'error': E_OTHER, 'exc': 'reading the rows after all resources were taken failed (%s: %s) although reading them in turn succeeds'
                        % (type(e3).__name__, str(e3)[:200]), 'exc_type': 'CollectFirst'}
            if enc(third['rows']) != enc(second['rows']):
                return {'error': E_OTHER, 'exc': 'the rows depend on the order in which the consumer takes resources and reads rows: %s (all resources '
                        'taken first) vs %s (in turn)' % (str(enc(third['rows']))[:160], str(enc(second['rows']))[:160]), 'exc_type': 'CollectFirst'}
        return second
    except Exception as e:
        c = e
        while type(c).__name__ == 'ProcessorError' and getattr(c, 'cause', None) is not None:
            c = c.cause
        return {'error': err_code(e), 'exc': '%s: %s' % (type(c).__name__, str(c)[:300]), 'exc_type': type(c).__name__}


def child_python(code, ascii_locale=False, timeout=120):
    """runs a script in a child interpreter (with /repo's dataflows first on its path), optionally under a locale whose
    default text encoding is ASCII (LC_ALL=C with UTF-8 mode and locale coercion switched off: a legitimate environment);
    returns (what the script printed after the marker RESULT as JSON, or None; the tail of its standard error)"""
    import subprocess
    env = dict(os.environ, PYTHONPATH=REPO, PYTHONHASHSEED='0')
    if ascii_locale:
        env.update(LC_ALL='C', LANG='C', PYTHONUTF8='0', PYTHONCOERCECLOCALE='0')
        env.pop('PYTHONIOENCODING', None)
    try:
        p = subprocess.run([PY, '-c', 'import sys; sys.path.insert(0, %r)\n' % REPO + code], stdout=subprocess.PIPE, stderr=subprocess.PIPE, timeout=timeout, env=env)
    except subprocess.TimeoutExpired:
        return None, 'no result within %d seconds' % timeout
    got = None
    for line in p.stdout.decode('ascii', 'replace').splitlines():
        if 'RESULT ' in line:
            got = json.loads(line[line.index('RESULT ') + 7:])
    return got, p.stderr.decode('ascii', 'replace')[-400:]


def rotate_keys(row):
    """a row step that leaves every value under its name but moves the row's first key to the end: steps address values by
    field name, so nothing downstream may depend on the order of a row's keys (round 8)"""
    if len(row) > 1:
        k = next(iter(row))
        row[k] = row.pop(k)


def reverse_keys(rows):
    """a rows step that re-builds every row with its keys in reverse order"""
    for row in rows:
        yield dict(reversed(list(row.items())))


def field_names(dp, i):
    return [f['name'] for f in dp['resources'][i]['schema']['fields']]


def infer_type(values):
    """mirror of nothing in particular: choose a Table Schema type able to hold all values"""
    types = set()
    for v in values:
        if v is None:
            continue
        if isinstance(v, bool):
            types.add('boolean')
        elif isinstance(v, int):
            types.add('integer')
        elif isinstance(v, (float, decimal.Decimal)):
            types.add('number')
        elif isinstance(v, str):
            types.add('string')
        elif isinstance(v, list):
            types.add('array')
        elif isinstance(v, dict):
            types.add('object')
        elif isinstance(v, datetime.datetime):
            types.add('datetime')
        elif isinstance(v, datetime.date):
            types.add('date')
        elif isinstance(v, datetime.time):
            types.add('time')
        else:
            types.add('any')
    if len(types) == 1:
        return types.pop()
    return 'any' if types else 'string'


def mk_resource(name, names, rows, pk=None, types=None):
    fields = []
    for n in names:
        t = (types or {}).get(n) or infer_type([r.get(n) for r in rows])
        fields.append({'name': n, 'type': t})
    return {'name': name, 'fields': fields, 'rows': rows, 'pk': pk}


def rows_enc(rows):
    return [enc(r) for r in rows]


def rows_dec(rows):
    return [dec(r) for r in rows]
