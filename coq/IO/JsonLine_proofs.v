(* A stream / checkpoint line: json.dumps of the extended-JSON encoding of a value, read back by
   json.loads and the decoding hook.  The text layer (IO/JsonText_proofs.v) and the tree layer
   (IO/EJson_proofs.v) compose: the line decodes to the value it was written from. *)
From Coq Require Import List ZArith Bool.
From DF Require Import Base.Str Base.Value IO.EJson IO.EJson_proofs IO.JsonText IO.JsonText_proofs.
Import ListNotations.
Open Scope Z_scope.

Section LINE.
  Variable K : rkeys.
  Variable dec_str : Z -> Z -> str.            Variable dec_parse : str -> option (Z * Z).
  Variable time_str : Z -> Z -> Z -> str.      Variable time_parse : str -> option (Z * Z * Z).
  Variable dt_str : Z -> Z -> Z -> Z -> Z -> Z -> str.
  Variable dt_parse : str -> option (Z * Z * Z * Z * Z * Z).
  Variable date_str : Z -> Z -> Z -> str.      Variable date_parse : str -> option (Z * Z * Z).
  Variable dur_str : Z -> Z -> Z -> str.       Variable dur_parse : str -> option (Z * Z * Z).

  Hypothesis dec_rt : forall m e, dec_parse (dec_str m e) = Some (m, e).
  Hypothesis time_rt : forall h mi sc, time_parse (time_str h mi sc) = Some (h, mi, sc).
  Hypothesis dt_rt : forall y mo d h mi sc, dt_parse (dt_str y mo d h mi sc) = Some (y, mo, d, h, mi, sc).
  Hypothesis date_rt : forall y mo d, date_parse (date_str y mo d) = Some (y, mo, d).
  Hypothesis dur_rt : forall d sc us, dur_parse (dur_str d sc us) = Some (d, sc, us).
  Hypothesis K_distinct :
    str_nodup [k_dec K; k_time K; k_dt K; k_date K; k_dur K; k_set K] = true.

  Definition write_line (v : value) : str := jprint (encode K dec_str time_str dt_str date_str dur_str v) ++ [10].
  Definition read_line (l : str) : option value :=
    match jparse l with
    | Some j => Some (decode K dec_parse time_parse dt_parse date_parse dur_parse j)
    | None => None
    end.

  (* premise jok: the tree holds no binary float and its strings (field names, texts, the scalar
     codecs' outputs) are sequences of valid code points *)
  Theorem line_roundtrip v : ejson_ok K v = true ->
    jok (encode K dec_str time_str dt_str date_str dur_str v) -> read_line (write_line v) = Some v.
  Proof.
    intros OK J. unfold read_line, write_line. rewrite (jparse_jprint_line _ J). f_equal.
    apply (ejson_roundtrip K dec_str dec_parse time_str time_parse dt_str dt_parse date_str date_parse dur_str dur_parse
             dec_rt time_rt dt_rt date_rt dur_rt K_distinct v OK).
  Qed.
End LINE.
