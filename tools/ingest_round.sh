#!/bin/bash
# usage: tools/ingest_round.sh <worktree prefix, e.g. /tmp/seed2_> <offset, e.g. 2> [Cxx ...]
# copies <prefix>Cxx/OUT/change{k} to seeded/_incoming/Cxx/change{k+offset} (patch.diff, demo.py, notes.txt only)
PFX=$1; OFF=$2; shift 2
HERE=$(cd "$(dirname "$0")/.." && pwd)
PROPS=${@:-$(seq -f "C%02g" 1 20)}
for P in $PROPS; do
  for k in 1 2; do
    S="$PFX$P/OUT/change$k"; T="$HERE/seeded/_incoming/$P/change$((k+OFF))"
    if [ -f "$S/patch.diff" ] && [ -f "$S/demo.py" ] && [ ! -d "$T" ]; then
      mkdir -p "$T"; cp "$S/patch.diff" "$S/demo.py" "$T/"; [ -f "$S/notes.txt" ] && cp "$S/notes.txt" "$T/"
      echo "$T"
    fi
  done
done
