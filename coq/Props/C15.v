(* C15: field-level processors change schema and rows in lockstep. *)
From Coq Require Import List ZArith Bool.
From DF Require Import Base.Str Base.ListX Base.Value Proc.RowOps Proc.Fields Proc.Fields_proofs.
Import ListNotations.
Open Scope Z_scope.

(* select_fields: schema in selection order; row keys = the selected set; values kept *)
Theorem C15_select_lockstep : forall pats names r k,
  rkeys r = names ->
  (In k (rkeys (keep_keys (select_names pats names) r)) <-> In k (select_names pats names)).
Proof. exact select_lockstep. Qed.
Print Assumptions C15_select_lockstep.

Theorem C15_select_is_selection : forall pats names k,
  In k (select_names pats names) <-> In k names /\ existsb (fun p => p k) pats = true.
Proof. exact select_names_In. Qed.
Print Assumptions C15_select_is_selection.

(* a field matched by several selectors is selected once *)
Theorem C15_select_no_repeats : forall pats names, NoDup names -> NoDup (select_names pats names).
Proof. exact select_names_nodup. Qed.
Print Assumptions C15_select_no_repeats.

Theorem C15_select_order : forall p ps names,
  select_names (p :: ps) names = filter p names ++ select_names ps (filter (fun n => negb (p n)) names).
Proof. exact select_names_order. Qed.
Print Assumptions C15_select_order.

Theorem C15_select_values : forall pats names r k,
  In k (select_names pats names) -> rget (keep_keys (select_names pats names) r) k = rget r k.
Proof. exact select_values. Qed.
Print Assumptions C15_select_values.

(* delete_fields: original order, exactly the unmatched names, values kept *)
Theorem C15_delete_lockstep : forall pats names r,
  rkeys r = names -> rkeys (keep_keys (delete_names pats names) r) = delete_names pats names.
Proof. exact delete_lockstep. Qed.
Print Assumptions C15_delete_lockstep.

Theorem C15_delete_exactly_unmatched : forall pats names k,
  In k (delete_names pats names) <-> In k names /\ existsb (fun p => p k) pats = false.
Proof. exact delete_names_spec. Qed.
Print Assumptions C15_delete_exactly_unmatched.

Theorem C15_delete_original_order : forall pats names, subseq (delete_names pats names) names.
Proof. exact delete_names_subseq. Qed.
Print Assumptions C15_delete_original_order.

Theorem C15_delete_values : forall pats names r k,
  In k (delete_names pats names) -> rget (keep_keys (delete_names pats names) r) k = rget r k.
Proof. exact delete_values. Qed.
Print Assumptions C15_delete_values.

(* rename_fields: schema names and row keys are renamed by the same map, in place; values kept *)
Theorem C15_rename_schema : forall pats names targets l m,
  rename_schema pats names targets = Ok (l, m) ->
  l = map (fun n => match rename_one pats n with Some t => t | None => n end) names /\
  (forall n, In n names -> NoDup names -> ren m n = match rename_one pats n with Some t => t | None => n end).
Proof. exact rename_schema_spec. Qed.
Print Assumptions C15_rename_schema.

Theorem C15_rename_lockstep : forall m r,
  NoDup (map (ren m) (rkeys r)) -> rkeys (rename_row m r) = map (ren m) (rkeys r).
Proof. exact rename_lockstep. Qed.
Print Assumptions C15_rename_lockstep.

Theorem C15_rename_values : forall m r k v,
  NoDup (map (ren m) (rkeys r)) -> NoDup (rkeys r) ->
  rget r k = Some v -> rget (rename_row m r) (ren m k) = Some v.
Proof. exact rename_values. Qed.
Print Assumptions C15_rename_values.

(* add_field / add_computed_field: new fields appended to schema and rows alike; others untouched *)
Theorem C15_add_schema_appends : forall schema fs,
  map fst (computed_schema schema fs) = map fst schema ++ map cf_target fs.
Proof. exact computed_schema_names. Qed.
Print Assumptions C15_add_schema_appends.

Theorem C15_add_rows_append : forall fs r out,
  compute_row fs r = Ok out ->
  (forall f, In f fs -> ~ In (cf_target f) (rkeys r)) -> NoDup (map cf_target fs) ->
  rkeys out = rkeys r ++ map cf_target fs.
Proof. exact compute_row_keys. Qed.
Print Assumptions C15_add_rows_append.

Theorem C15_add_untouched : forall r t v k, k <> t -> rget (rset r t v) k = rget r k.
Proof. exact add_field_untouched. Qed.
Print Assumptions C15_add_untouched.

Theorem C15_computed_sum : forall sources w r zs,
  ints_of (source_values sources r) = Some zs -> compute OpSum sources w r = Ok (VInt (zsum zs)).
Proof. exact compute_sum. Qed.
Print Assumptions C15_computed_sum.

Theorem C15_computed_max_is_max : forall zs z x, In x (z :: zs) -> x <= fold_left Z.max zs z.
Proof. exact fold_max_ge. Qed.
Print Assumptions C15_computed_max_is_max.

Theorem C15_computed_max_attained : forall zs z, In (fold_left Z.max zs z) (z :: zs).
Proof. exact fold_max_in. Qed.
Print Assumptions C15_computed_max_attained.

(* find_replace: keys and other fields untouched; the field gets the sequential substitutions *)
Theorem C15_find_replace_keys : forall fs r out, find_replace_row fs r = Ok out -> rkeys out = rkeys r.
Proof. exact find_replace_keys. Qed.
Print Assumptions C15_find_replace_keys.

Theorem C15_find_replace_untouched : forall fs r out k,
  find_replace_row fs r = Ok out -> (forall f, In f fs -> k <> fr_name f) -> rget out k = rget r k.
Proof. exact find_replace_untouched. Qed.
Print Assumptions C15_find_replace_untouched.

Theorem C15_find_replace_value : forall f r x subs g,
  rget r (fr_name f) = Some (VStr x) -> fr_subs f = g :: subs ->
  fr_apply f r = Ok (rset r (fr_name f) (VStr (fold_left (fun acc h => h acc) (g :: subs) x))).
Proof. exact fr_apply_value. Qed.
Print Assumptions C15_find_replace_value.

From Coq Require Import String.
Local Open Scope string_scope.
Example C15_nonvacuous :
  let r := [(s "a", VInt 3); (s "b", VNull); (s "c", VInt 4)] in
  compute_row [{| cf_op := OpSum; cf_sources := [s "a"; s "b"; s "c"]; cf_with := []; cf_target := s "t" |};
               {| cf_op := OpAvg; cf_sources := [s "a"; s "c"]; cf_with := []; cf_target := s "m" |}] r
  = Ok (app r [(s "t", VInt 7); (s "m", VFlt 7 (-1))])
  /\ select_names [fun n => str_eqb n (s "c"); fun n => negb (str_eqb n (s "b"))] [s "a"; s "b"; s "c"] = [s "c"; s "a"].
Proof. vm_compute. split; reflexivity. Qed.
