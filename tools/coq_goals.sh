#!/bin/bash
# usage: coq_goals.sh <file.v> <line> [extra tactics] [tail lines] : shows the goals after the given line
# (run from the coq directory being worked in; COQDIR overrides /verif/coq)
F=$1; N=$2; X=${3:-}
D=${COQDIR:-/verif/coq}
head -n "$N" "$D/$F" > /var/tmp/_goals.v
echo "$X" >> /var/tmp/_goals.v
echo "Show." >> /var/tmp/_goals.v
cd "$D" && timeout 120 coqtop -Q . DF -batch -load-vernac-source /var/tmp/_goals.v 2>&1 | tail -${4:-60}
