"""Regenerates /verif/MANIFEST.json from the table below (claimed checks) and
properties.jsonl (everything else is listed under not_applicable with a reason)."""
import json, os
HERE = os.path.dirname(os.path.abspath(__file__))
VERIF = os.path.dirname(HERE)

CLAIMED = {
 'C17': dict(
  text='Coq theorems (Props/C17.v) about an executable Gallina model of filter_rows, deduplicate and unpivot: filter = List.filter of the condition, equals/not_equals = any-of, dedup = first occurrence per key (subsequence, distinct keys, idempotent), unpivot = row-major flat_map with every cell conserved and field names partitioned; for all tables and configurations. Tied to the code on every run by correspondence (model evaluated by vm_compute against the real Flow on generated tables) plus a direct Python statement of the property on the real output.',
  note='Trusted: Coq kernel+vm_compute; harness printers/oracle; Python re decides field-name matches and back-reference substitution (given to the model as tables); py_eq models Python == on scalar keys (no floats); key_eq symmetry/transitivity are hypotheses of C17_dedup_first_occurrences.',
  technique='Coq proof over executable model + vm_compute correspondence + direct oracle', ref='5/C17'),
 'C10': dict(
  text='Coq theorems (Props/C10.v) about the model of ResourceMatcher and of selective application: None selects all, a string selects exactly the names it fully matches (executable regex matcher), a list selects the listed names, an integer selects exactly one position (negative from the end, out of range rejected), unselected resources keep descriptor and rows; plus a regenerated theorem that every ResourceMatcher call site in the processors passes the package. Correspondence: the model\'s selection vector is compared by vm_compute with what each of the 21 selector-taking call sites actually selected on generated packages/selectors; direct oracle: selected resources equal the all-selected run, unselected equal the run without the step.',
  note='Trusted: Coq kernel+vm_compute; Python re.fullmatch as the meaning of full match in the oracle (the Coq matcher is compared with it on every generated pattern); regex fragment without anchors/look-around/back-references; ast extraction of call-site arguments in gen_consts.py.',
  technique='Coq proof over executable model + generated call-site constants + vm_compute correspondence + direct oracle', ref='5/C10'),
 'C15': dict(
  text='Coq theorems (Props/C15.v) about executable models of select_fields, delete_fields, rename_fields, add_field/add_computed_field and find_replace: resulting field list and row keys agree (set equality in selection order for select; list equality in original order for delete/rename/find_replace; new fields appended for add_*), untouched and renamed fields keep their values, computed values equal the operation on that row (sum/max/min characterised, constant/join/format/callable by definition). Correspondence by vm_compute against the real processors on generated tables with metacharacter/prefix field names, regex on/off, two resources; direct oracle recomputes schema and rows from the documented rules.',
  note='Trusted: Coq kernel+vm_compute; Python re decides field-pattern matches and substitutions (tables); numeric operations modelled over integers (avg only where exactly representable); patterns without top-level alternation; rename targets not colliding with remaining names (domain guard).',
  technique='Coq proof over executable model + vm_compute correspondence + direct oracle', ref='5/C15'),
 'C12': dict(
  text='Coq theorems (Props/C12.v) about the model of sort_rows (key calculation incl. the sign-flipped binary64 image, row-number suffix, ordered key/value store): the store returns a sorted permutation; fixed-width hex suffixes order like their numbers; whenever no key is a proper prefix of another (always so for numeric keys) the output is strictly increasing in (key, input position) -- ascending, stable, a permutation -- for any number of rows below 16^8; reverse=True is exactly the reversed list. Correspondence by vm_compute against the real sort_rows (several batch sizes; above the 10240-entry cache in the thorough tier); direct oracle = stable sort by the property\'s order. Four known findings (prefix text keys, inexact doubles, -0.0, multi-field concatenation) are recognised individually.',
  note='Trusted: Coq kernel+vm_compute; KVFile specified as an ordered map (exercised, not verified); monotonicity of the binary64 bit image is validated by correspondence (adjacent doubles of both signs in the pool), not yet proved; harness oracle and recognisers.',
  technique='Coq proof over executable model + vm_compute correspondence + direct oracle + known-finding recognisers', ref='5/C12'),
 'C16': dict(
  text='Coq theorems (Props/C16.v) about executable models of concatenate, duplicate, delete_resource and appending sources over packages of any size: the concatenation target sits at the first selected position with prefix and suffix resources identical, non-consecutive selections are rejected, target rows are one per source row in resource order with exactly the target fields as keys; duplicate\'s copy read back from the ordered store equals the source rows for any length below 16^w (w regenerated from the source) and is placed right after the source or at the end with everything else unchanged; delete_resource filters exactly the selected resources keeping order; sources append. Correspondence by vm_compute against the real processors (batch sizes 1/7/1000, in-place edit after duplicate, four kinds of appending source); direct oracle from the property statement.',
  note='Trusted: Coq kernel+vm_compute; KVFile as ordered map; selections passed as explicit name lists (C10 covers selector meaning); harness oracle.',
  technique='Coq proof over executable model + generated constants + vm_compute correspondence + direct oracle', ref='5/C16'),
 'C14': dict(
  text='Coq theorems (Props/C14.v) about the model of schema_validator as used by set_type and validate, for ANY cast function (Table Schema\'s cast is a parameter): rows with all checked values valid are emitted with exactly the cast values under every policy and no handler call; raise aborts at the first offending row with its index; drop removes exactly the offending rows; ignore keeps all rows with offending values untouched; clear nulls exactly the offending fields; unchecked fields are untouched; set_type\'s transform is applied before the cast. Correspondence by vm_compute against the real set_type/validate with the cast table computed by the real tableschema; direct oracle from the property statement.',
  note='Trusted: Coq kernel+vm_compute; tableschema Field.cast_value is the oracle for the cast parameter; distinct checked field names; harness oracle.',
  technique='Coq proof (parametric in the cast) over executable model + vm_compute correspondence + direct oracle', ref='5/C14'),
 'C11': dict(
  text='Coq theorems (Props/C11.v) about an executable model of join/join_with_self (key rendering, per-key aggregation index in the ordered store, target pass, full-outer tail, deduplication): for every source table the index holds under each key exactly the fold over the rows rendering that key; closed forms of sum, avg (sum/len), max, min, first, last, count, array over the matching non-null values; target rows are processed one by one in order, matched rows extended, inner drops exactly the unmatched, outer modes keep them with nulls, full-outer adds one row per unused key in key order, deduplication emits one row per distinct key; declared field types follow the regenerated AGGREGATORS table. Correspondence by vm_compute against the real join on generated tables (all modes, key shapes incl. row number, wildcard mapping, source_delete, join_with_self; >10240 keys in thorough); direct oracle = declarative relational definition.',
  note='Trusted: Coq kernel+vm_compute; KVFile as ordered map; numeric aggregates modelled over integers (avg/median only where exactly representable), sum/min/max also over strings; set compared as a set, any as membership; harness mirror of fix/expand/order_fields for the field order; median/counters/set closed forms are validated by correspondence only.',
  technique='Coq proof over executable model + generated constants + vm_compute correspondence + direct oracle', ref='5/C11'),
 'C13': dict(
  text='Coq theorems (Props/C13.v) about executable models of load\'s own logic: limit_rows = firstn, string strategies yield only strings, stripping touches only string cells with whitespace at an end (Python rule) and keeps keys and row count, wrappers apply in the order cast -> strip -> limit, duplicate headers are rejected unless de-duplication is requested and unique headers are kept, tuple/package loading selects descriptor/iterator pairs by one predicate in order; the full header-uniqueness claim is refuted on the faithful model by a vm_compute witness (known finding). A model of Python\'s csv reader state machine and QUOTE_MINIMAL writer is compared with the csv module on well-formed and malformed text. Correspondence by vm_compute for headers, wrappers and whole CSV files loaded by the real load(); direct oracle = independent csv.reader parse of the same file plus the documented rules; cast_strategy=schema with on_error policies checked by oracle.',
  note='Partial by design: tabulator\'s dialect sniffing and type inference are third-party heuristics outside the model (their deviations are recognised as known finding C13.tabulator_sniffer); the CSV round-trip theorem is validated by correspondence here (proof obligations listed in DESIGN.md); str.isspace modelled for the generated code points.',
  technique='Coq proof over executable model + refutation witness + vm_compute correspondence + direct oracle', ref='5/C13'),
 'C07': dict(
  text='Coq theorems (Props/C07.v): the extended-JSON decode(encode v) = v for every value the encoding represents faithfully, at any nesting depth (nested induction; hook probing order modelled; reserved keys proved distinct by computation); the stream file format round-trips every resource and row in order including empty resources; for every run/delete history the model returns the first run\'s package on every run and executes the steps before the checkpoint exactly when no checkpoint exists. The microsecond loss of time/datetime is stated as a refutation lemma (known finding). Correspondence by vm_compute: ejson round trip on generated values of all claimed types and UTC offsets, blank-line structure of real stream files, upstream-executed flags of real histories (fresh and re-used Flow objects, two chained checkpoints, names containing the .active suffix); direct oracle: every run equals the first run, type-exact.',
  note='Trusted: Coq kernel+vm_compute; Python scalar text codecs satisfy parse(print x)=x (hypotheses; exercised); rows compared as mappings (stream sorts keys); re-iterable sources; the model of a re-used Flow object is stateless after the fix: commits (checkpoint chain, load lists).',
  technique='Coq proof (nested induction, history induction) + vm_compute correspondence + direct oracle + refutation lemma', ref='5/C07'),
 'C08': dict(
  text='Coq theorems (Props/C08.v) over the operation trace of saving a checkpoint (mkdir, open-truncate .active, write+flush per line, buffered separators, close, rename) for any package: after any prefix of k operations short of the rename the final name does not exist; a checkpoint that exists after a crash is the complete stream; re-running from any crash state yields the complete checkpoint; the temporary name differs from the final one because the regenerated ACTIVE_SUFFIX is non-empty. Tie: the real operation sequence is recorded from the unchanged stream module (open/os wrapped in its namespace in a child process) and compared with the model; fault enumeration kills a child before every single file operation and raises at every row and at exhaustion, then inspects the directory and re-runs.',
  note='Partial: rename atomicity and durability of flushed data across a process kill are OS facts (trusted); power loss out of scope. Kill points are exhaustive per package shape (0-3 resources, 0-5 rows quick; up to 120 rows thorough).',
  technique='Coq proof over file-operation traces + operation-trace correspondence + exhaustive kill/fault enumeration on the real code', ref='5/C08'),
 'C19': dict(
  text='Coq theorem (Props/C19.v) over the file-operation trace of dump_to_path for any number of resources with data files of any size written and copied in chunks: after a kill following any number k of operations into a fresh directory, if datapackage.json exists at all (complete or not) every data file it lists exists with its complete content; a copy in progress only ever holds a prefix. Tie: the real operation sequence of the unchanged dumper (tempfile/shutil.copy/os wrapped in its modules\' namespaces inside a forked child, copies chunked) is compared with the model\'s phase structure, and a child is killed before every single operation; the property oracle (parse the descriptor, check existence, size and md5 of every listed file) is evaluated on each resulting directory; every proper prefix of each real descriptor is checked to be unparseable.',
  note='Partial: durability of written data across a process kill and the directory semantics are OS facts; kill points are exhaustive per generated case (1-3 resources, CSV/JSON); the model treats temp-file writes as having no effect on the output directory.',
  technique='Coq proof over file-operation traces + trace correspondence + exhaustive kill enumeration on the real code', ref='5/C19'),
 'C09': dict(
  text='Coq theorems (Props/C09.v) over the dump model: the byte string that is counted and hashed is the one left at the recorded path (size and H(data) for any hash function H), package totals are the sums over resources, equal data gives equal hashes, dotted counter names set/get/increment the addressed nested attribute. Direct oracle on real dumps (csv/json x path/zip x counters renamed/nested/disabled x add_filehash_to_path x pretty_descriptor, each dumped twice): size, md5 and data-row count recomputed from the bytes on disk or in the zip; stats of process() compared with the written descriptor. Correspondence: totals and dotted-counter arithmetic evaluated by vm_compute against the observed descriptor.',
  note='Trusted: harness recomputation of size/md5/rows; md5 is a parameter. Known finding: stats bytes include the size of datapackage.json. The fix: commits for add_filehash_to_path and the per-resource row count are recorded in known_findings.json as fixed.',
  technique='Coq proof over dump model + vm_compute correspondence + direct oracle on bytes on disk', ref='5/C09'),
 'C03': dict(
  text='Coq theorems (Props/C03.v): for every listed field type, cast(stamped field)(serialise v) = v for typed values and null<->\'\' (hypotheses: Python scalar text codecs satisfy parse(print x)=x and never print empty text); row and table level: a table whose rows carry exactly the schema\'s keys with typed values is returned identically and in order, given the CSV layer\'s round trip of the written cell texts as a premise; the stamps the codecs rely on are regenerated from the source. The CSV layer is an executable model of Python\'s csv reader state machine and QUOTE_MINIMAL writer; on every generated CSV case vm_compute checks that the writer model reproduces the written file byte for byte and the reader model returns the cell texts (the premise, case by case). Direct oracles: real dump_to_path/dump_to_zip followed by real load, and an independent decoder that reads each written file with nothing but the recorded dialect/format/missingValues/field properties.',
  note='Partial: the general CSV round-trip lemma read_csv (write_csv recs) = recs is a premise discharged per generated case by vm_compute, not yet a proved theorem (see DESIGN.md 10); scalar codecs are hypotheses; tabulator (reader used by load) is third party -- its two deviations are known findings (JSON key sorting vs positional cast; universal-newline translation of CR LF inside cells).',
  technique='Coq proof (codecs, table level) + per-case vm_compute of the CSV model + direct oracles incl. independent decoder', ref='5/C03'),
 'C20': dict(
  text='Coq theorems (Props/C20.v) over a model of dump_to_sql + tableschema_sql.Writer (table = list of rows; batched INSERT buffer; Bloom filter; UPDATE .. WHERE keys): rewrite leaves exactly the dumped rows and append the previous rows plus the dumped rows for every batch size; update without the filter equals the fold of upsert; update WITH the filter equals the fold of upsert for every false-positive behaviour of the filter, every batch size and every existing table (invariant: every stored row\'s key is known to the filter; virtual table = flushed ++ buffered); any sequence of dumps is the fold of the per-mode specification; rows continue downstream in input order. Correspondence by vm_compute: after every dump of generated histories (1-5 dumps, modes, explicit/primary keys incl. composite and null keys, batch 1/2/1000, filter on/off, repeated keys, specs carrying update_keys in every mode) the real SQLite table (SELECT *) is compared, as a multiset, with the model and with the specification; updated flags compared; direct oracle = the mode semantics in Python.',
  note='Partial: SQLite, SQLAlchemy and the third-party Writer are modelled, not verified; Python equality of key tuples is assumed to be an equivalence (hypothesis); null keys match null keys (IS NULL), as observed; array/object columns are a known finding (rows jsonized in place).',
  technique='Coq proof (buffer/filter invariant) + vm_compute correspondence against real SQLite + direct oracle', ref='5/C20'),
 'C18': dict(
  text='Coq theorems (Props/C18.v) over the interleaving transition system of parallelize (producer, N workers, fetcher, collector; three FIFO queues; one transition per queue operation), for every N, input and schedule: in every reachable state the rows in the system are exactly the input rows (none lost, none duplicated); every delivered row has the row function applied exactly when the predicate selects it; every operation decreases a measure, so no schedule exceeds 6*(rows+workers) operations. Tie: the unchanged producer/work/fetcher/fork run with mp.Process, mp.Queue, queue.Queue and threading.Thread replaced in the module namespace by scheduler-controlled fakes; every observed trace (exhaustive for the smallest configurations, seeded random up to 4 workers x 8 rows) must be a path of the model\'s fire function ending in a terminated state with the same delivered sequence; direct oracle: ids delivered exactly once, row function applied once iff selected, no deadlock.',
  note='Partial: the theorems proved so far are safety (conservation, flags) and boundedness of every schedule; absence of deadlock and "terminated implies everything delivered" are checked on every explored schedule (model: final state has no enabled label and c_done) but not yet proved for all N (invariant sketched in DESIGN.md). Queue FIFO order/atomicity, pickling and process start-up/join are runtime behaviour the model does not exhibit; real processes are exercised in the thorough tier only.',
  technique='Coq proof over interleaving LTS + scheduler-driven trace validation of the real functions + exhaustive/random schedule exploration', ref='5/C18'),
}

NOT_YET = 'check not built yet (work in progress; will be claimed once its Coq model, theorems and correspondence check exist)'


def main():
    props = [json.loads(l) for l in open(os.path.join(VERIF, 'properties.jsonl'))]
    m = {
        'version': 1,
        'setup_cmd': 'make -C /verif setup',
        'hooks': {
            'guard': 'DATAFLOWS_VERIF',
            'enable': 'no hooks are needed: the harness drives the unchanged code by patching module namespaces from outside and by user-level probe steps; DATAFLOWS_VERIF is reserved',
            'baseline_off_cmd': 'cd /repo && /venv/bin/python -m pytest -ra -q -p no:cacheprovider --timeout=900 --continue-on-collection-errors',
            'source_commits': [],
            'add_only': True,
        },
        'engines': [{'name': 'coq-model+correspondence', 'path': '/verif/check',
                     'serves_properties': sorted(CLAIMED),
                     'kind_free_text': 'Coq 8.16 proofs over an executable Gallina model; model tied to /repo by generated constants and vm_compute correspondence on generated cases; direct Python oracle for failing-input search'}],
        'checks': [], 'not_applicable': [],
        'notes': 'See DESIGN.md. Every check: ./check Cxx --tier quick|thorough ; replay: ./check Cxx --replay <file>.',
    }
    for p in props:
        pid = p['id']
        if pid in CLAIMED:
            c = CLAIMED[pid]
            m['checks'].append({
                'property_id': pid,
                'quick_cmd': './check %s --tier quick' % pid,
                'thorough_cmd': './check %s --tier thorough' % pid,
                'evidence_file': '/verif/evidence/%s.json' % pid,
                'replay_cmd_template': './check %s --replay {path}' % pid,
                'engine': 'coq-model+correspondence',
                'level_claimed': {'category': 'proof', 'text': c['text'], 'design_ref': c['ref']},
                'level_note': c['note'],
                'technique': c['technique'],
            })
        else:
            m['not_applicable'].append({'property_id': pid, 'reason': NOT_YET})
    json.dump(m, open(os.path.join(VERIF, 'MANIFEST.json'), 'w'), indent=1)


if __name__ == '__main__':
    main()
