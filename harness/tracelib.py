"""Pipelines with probes: the same pipeline is built from real dataflows steps (recording the order of
observable events) and printed as a Gallina term over Frame/Events.v.  Used by C01, C04, C05, C06."""
import copy, shutil, json
from common import *
from flowutil import *
import dataflows as DF

import sys as _sys
SAMPLE = _sys.modules['dataflows.helpers.iterable_loader'].iterable_storage.SAMPLE_SIZE


class Boom(Exception):
    pass


EXN = {'generic': (RuntimeError, 'XGeneric'), 'assertion': (AssertionError, 'XAssertion'), 'validation': (None, 'XValidation'),
       'cast': (None, 'XCast'), 'unique': (None, 'XUniqueKey'), 'processor': (None, 'XProcessorError'), 'sourceload': (None, 'XSourceLoad'),
       'cast_nested': (None, 'XCast'), 'stopiteration': (None, 'XGeneric')}


def make_exc(kind):
    if kind == 'generic':
        return RuntimeError('injected')
    if kind == 'assertion':
        return AssertionError('injected')
    if kind == 'validation':
        return _sys.modules['dataflows.base.schema_validator'].ValidationError('r', {}, 0, None)
    if kind == 'cast':
        from tableschema.exceptions import CastError
        return CastError('injected cast error', errors=[])
    if kind == 'cast_nested':
        # the shape tableschema raises for a row with bad cells: one error carrying the per-cell errors
        from tableschema.exceptions import CastError
        return CastError('injected cast error with nested errors', errors=[CastError('nested cell error 1'), CastError('nested cell error 2')])
    if kind == 'stopiteration':
        return StopIteration('injected')
    if kind == 'unique':
        from tableschema.exceptions import UniqueKeyError
        return UniqueKeyError('injected unique key error')
    if kind == 'sourceload':
        from dataflows.base.exceptions import SourceLoadError
        return SourceLoadError('injected')
    if kind == 'processor':
        from dataflows.base.exceptions import ProcessorError
        return ProcessorError(RuntimeError('inner'), processor_name='x', processor_object=None, processor_position=0)
    raise ValueError(kind)


class CountingSource:
    """re-iterable source of n rows that logs every row it hands out"""

    def __init__(self, n, log, sparse=None):
        self.n, self.log, self.sparse = n, log, sparse

    def __iter__(self):
        for i in range(self.n):
            self.log.append(['pull', i])
            row = {'_i': i, 'v': i % 7, 's': 'x%d' % (i % 3)}
            if self.sparse == 'leading':          # a column that is null in the whole inference sample
                row['opt'] = None if i < self.n // 2 else i
            elif self.sparse == 'always':
                row['opt'] = None
            yield row


class SizedCountingSource(CountingSource):
    """the same source knowing its length (as a database result or a file-backed dataset does): still handed out lazily"""

    def __len__(self):
        return self.n


def build_step(st, k, log, workdir):
    """st: step description (dict); k: step number; returns a real Flow link"""
    t = st['t']
    fail = st.get('fail')          # {'at': row index | 'end' | 'open', 'exc': kind}

    def maybe_fail(where):
        if fail and fail['at'] == where:
            log.append(['fail', k])
            raise make_exc(fail['exc'])
    if t == 'probe_rows':           # rows function with code before/after the loop and around the yield
        def rows_fn(rows):
            log.append(['eff', k, 2])
            maybe_fail('open')
            for r in rows:
                log.append(['eff', k, 0])
                maybe_fail(r['_i'])
                r['v'] = r['v'] + 1
                yield r
                log.append(['eff', k, 1])
            maybe_fail('end')
            log.append(['eff', k, 3])
        rows_fn.__name__ = 'rows_fn'
        # dataflows dispatches on the parameter name
        return eval('lambda rows: _f(rows)', {'_f': rows_fn})
    if t == 'probe_row':
        def row_fn(row):
            log.append(['eff', k, 0])
            maybe_fail(row['_i'])
            row['v'] = row['v'] + 1
        return eval('lambda row: _f(row)', {'_f': row_fn})
    if t == 'filter':
        m = st['mod']
        return DF.filter_rows(condition=lambda row: row['_i'] % m != 0)
    if t == 'add_field':
        return DF.add_field('f%d' % k, 'integer', 5)
    if t == 'set_type':
        return DF.set_type('v', type='number')
    if t == 'unique':               # a field declared unique (its values are): a constraint, not a reason to hold rows back
        return DF.set_type('_i', type='integer', constraints={'unique': True})
    if t == 'required':
        return DF.set_type('s', type='string', constraints={'required': True, 'minLength': 1})
    if t == 'expand':               # unpivot-like: two rows per row, via a user rows function without effects
        def ex(rows):
            for r in rows:
                yield dict(r)
                yield dict(r, v=-1)
        return eval('lambda rows: _f(rows)', {'_f': ex})
    if t == 'printer':
        return DF.printer(table_print=lambda d, kw: log.append(['eff', k, 0]), header_print=lambda h, kw: None, num_rows=1)
    if t == 'dump':
        return DF.dump_to_path(os.path.join(workdir, 'dump%d' % k), format=st.get('format', 'csv'))
    if t == 'stream':
        return DF.stream(os.path.join(workdir, 'stream%d' % k, 'out.ndjson'))
    if t == 'checkpoint':
        return DF.checkpoint('c%d' % k, checkpoint_path=os.path.join(workdir, 'ck'))
    if t == 'finalizer':
        def cb():
            maybe_fail('callback')
            log.append(['eff', k, 5])
        return DF.finalizer(cb)
    if t == 'probe_pkg':            # package function with code after the last resource has been handed on
        def pkg_fn(package):
            yield package.pkg
            yield from package
            maybe_fail('pkg_end')
            log.append(['eff', k, 3])
        return eval('lambda package: _f(package)', {'_f': pkg_fn})
    if t == 'sort':
        return DF.sort_rows('{v}')
    if t == 'buffer':               # a user step that materialises
        def buf(rows):
            yield from list(rows)
        return eval('lambda rows: _f(rows)', {'_f': buf})
    raise ValueError(t)


def run_pipeline(n, steps, workdir, via='datastream', sparse=None, sized=False):
    """returns {'events': [...], 'outcome': 'returned' | ['raised', class name, cause class name], 'artifacts': {...}}"""
    log = []
    shutil.rmtree(workdir, ignore_errors=True)
    os.makedirs(workdir)
    links = [(SizedCountingSource if sized else CountingSource)(n, log, sparse)] + [build_step(st, k + 1, log, workdir) for k, st in enumerate(steps)]
    outcome = 'returned'
    delivered = []
    try:
        with quiet():
            if via == 'datastream':
                ds = Flow(*links).datastream()
                for res in ds.res_iter:
                    for r in res:
                        log.append(['deliver', r['_i']])
                        delivered.append(dict(r))
            elif via == 'results':
                res, dp, _ = Flow(*links).results()
                delivered = [dict(r) for r in res[0]] if res else []
            else:
                Flow(*links).process()
    except Exception as e:
        cause = getattr(e, 'cause', None)
        chain, c = [], cause
        while c is not None and len(chain) < 4:
            chain.append(type(c).__name__)
            c = c.__cause__ or c.__context__
        outcome = ['raised', type(e).__name__, type(cause).__name__ if cause is not None else None,
                   str(cause)[:80] if cause is not None else None, chain]
    second = None
    if outcome != 'returned' and via != 'datastream' and any(st['t'] == 'checkpoint' for st in steps):
        # the caller tries again (new Flow, same checkpoint directory): a failure that is still there fails the run again,
        # nothing left behind by the failed run may stand in for the steps that did not complete
        log2 = []
        try:
            with quiet():
                links2 = [(SizedCountingSource if sized else CountingSource)(n, log2, sparse)] + [build_step(st, k + 1, log2, workdir) for k, st in enumerate(steps)]
                if via == 'results':
                    Flow(*links2).results()
                else:
                    Flow(*links2).process()
            second = 'returned'
        except Exception as e2:
            second = 'raised'
    art = {}
    for k, st in enumerate(steps):
        if st['t'] == 'dump':
            d = os.path.join(workdir, 'dump%d' % (k + 1))
            art['dump%d' % (k + 1)] = {'descriptor': os.path.exists(os.path.join(d, 'datapackage.json')),
                                       'rows': count_csv_rows(os.path.join(d, 'res_1.csv'))}
        if st['t'] == 'stream':
            f = os.path.join(workdir, 'stream%d' % (k + 1), 'out.ndjson')
            art['stream%d' % (k + 1)] = {'committed': os.path.exists(f), 'rows': count_ndjson_rows(f)}
        if st['t'] == 'checkpoint':
            f = os.path.join(workdir, 'ck', 'c%d' % (k + 1), 'stream.ndjson')
            art['checkpoint%d' % (k + 1)] = {'committed': os.path.exists(f), 'rows': count_ndjson_rows(f)}
    shutil.rmtree(workdir, ignore_errors=True)
    return {'events': log, 'outcome': outcome, 'artifacts': art, 'delivered': rows_enc(delivered), 'second_attempt': second}


def count_csv_rows(p):
    if not os.path.exists(p):
        return None
    import csv
    return len(list(csv.reader(open(p, newline='')))) - 1


def count_ndjson_rows(p):
    if not os.path.exists(p):
        return None
    lines = [l for l in open(p).read().split('\n')]
    return len([l for l in lines[1:] if l.strip()])


# ---------------- the same pipeline as a Gallina term
def coq_step(st, k):
    """returns a Gallina function stream -> stream"""
    t = st['t']
    fail = st.get('fail')
    x = EXN[fail['exc']][1] if fail else None
    if t == 'probe_rows':
        if fail and isinstance(fail['at'], int):
            g = '(fun p r => if Nat.eqb p %d then [EEff %d 0; EFail %d %s] else [EEff %d 0; ERow p r; EEff %d 1])' % (fail['at'], k, k, x, k, k)
        else:
            g = '(fun p r => [EEff %d 0; ERow p r; EEff %d 1])' % (k, k)
        if fail and fail['at'] == 'open':
            return "(fun s => let '(pre, rest) := span_pulls s in pre ++ EEff %d 2 :: EFail %d %s :: lmap %s rest)" % (k, k, x, g)
        if fail and fail['at'] == 'end':
            return "(fun s => let '(pre, rest) := span_pulls s in pre ++ EEff %d 2 :: lmap %s rest ++ [EFail %d %s])" % (k, g, k, x)
        return '(with_open_close %d (lmap %s))' % (k, g)
    if t == 'probe_row':
        if fail and isinstance(fail['at'], int):
            return '(lmap (fun p r => if Nat.eqb p %d then [EEff %d 0; EFail %d %s] else [EEff %d 0; ERow p r]))' % (fail['at'], k, k, x, k)
        return '(lmap (fun p r => [EEff %d 0; ERow p r]))' % k
    if t == 'filter':
        return '(lmap (fun p r => if Nat.eqb (Nat.modulo p %d) 0 then [] else [ERow p r]))' % st['mod']
    if t in ('add_field', 'set_type', 'dump', 'stream', 'checkpoint', 'unique', 'required'):
        return '(fun s => s)'
    if t == 'expand':
        return '(lmap (fun p r => [ERow p r; ERow p r]))'
    if t == 'printer':
        return '(fun s => s ++ [EEff %d 0])' % k
    if t == 'finalizer':
        if fail:
            return '(fun s => s ++ [EFail %d %s])' % (k, x)
        return '(finalizing %d)' % k
    if t == 'probe_pkg':
        if fail:
            return '(fun s => s ++ [EFail %d %s])' % (k, x)
        return '(fun s => s ++ [EEff %d 3])' % k
    if t in ('sort', 'buffer'):
        return '(materialise (fun l => l))'
    raise ValueError(t)


def coq_pipeline(n, steps):
    term = '(source (fun _ => []) %d%%nat %d%%nat)' % (n, SAMPLE)
    for k, st in enumerate(steps):
        term = '(%s %s)' % (coq_step(st, k + 1), term)
    return '(deliver %s)' % term


def coq_events(events):
    out = []
    for e in events:
        if e[0] == 'pull':
            out.append('(0%%nat, %d%%nat, 0%%nat)' % e[1])
        elif e[0] == 'eff':
            out.append('(1%%nat, %d%%nat, %d%%nat)' % (e[1], e[2]))
        elif e[0] == 'deliver':
            out.append('(2%%nat, %d%%nat, 0%%nat)' % e[1])
    return clist(out)


def coq_trace_term(n, steps, out):
    """model trace (cut at the first failure) = observed event order, and same outcome class"""
    model = coq_pipeline(n, steps)
    obs = coq_events(out['events'])
    raised = out['outcome'] != 'returned'
    return '(let d := drive %s in skel_eqb (skel (fst d)) %s && Bool.eqb (is_raised (snd d)) %s)%%nat' % (model, obs, cbool(raised))
