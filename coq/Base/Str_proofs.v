From Coq Require Import List ZArith Bool Lia.
From DF Require Import Base.Str.
Import ListNotations.
Open Scope Z_scope.

Lemma str_eqb_refl a : str_eqb a a = true.
Proof. induction a as [|x a IH]; simpl; [reflexivity|]. rewrite Z.eqb_refl, IH. reflexivity. Qed.

Lemma str_eqb_eq a b : str_eqb a b = true <-> a = b.
Proof.
  split.
  - revert b; induction a as [|x a IH]; intros [|y b] H; simpl in H; try discriminate; [reflexivity|].
    apply andb_true_iff in H as [H1 H2]. apply Z.eqb_eq in H1. subst. f_equal. apply IH, H2.
  - intros ->. apply str_eqb_refl.
Qed.

Lemma str_eqb_neq a b : str_eqb a b = false <-> a <> b.
Proof.
  split.
  - intros H E. apply str_eqb_eq in E. congruence.
  - intros H. destruct (str_eqb a b) eqn:E; [|reflexivity]. apply str_eqb_eq in E. contradiction.
Qed.

Lemma str_eqb_sym a b : str_eqb a b = str_eqb b a.
Proof.
  destruct (str_eqb a b) eqn:E.
  - apply str_eqb_eq in E. subst. symmetry. apply str_eqb_refl.
  - symmetry. apply str_eqb_neq. apply str_eqb_neq in E. congruence.
Qed.

Lemma str_ltb_irrefl a : str_ltb a a = false.
Proof. induction a as [|x a IH]; simpl; [reflexivity|]. rewrite Z.ltb_irrefl, Z.eqb_refl, IH. reflexivity. Qed.

Lemma str_ltb_trans a b c : str_ltb a b = true -> str_ltb b c = true -> str_ltb a c = true.
Proof.
  revert b c; induction a as [|x a IH]; intros [|y b] [|z c] H1 H2; simpl in *; try discriminate; try reflexivity.
  apply orb_true_iff in H1. apply orb_true_iff in H2. apply orb_true_iff.
  destruct H1 as [H1|H1], H2 as [H2|H2].
  - left. apply Z.ltb_lt in H1, H2. apply Z.ltb_lt. lia.
  - apply andb_true_iff in H2 as [E _]. apply Z.eqb_eq in E. subst. left. exact H1.
  - apply andb_true_iff in H1 as [E _]. apply Z.eqb_eq in E. subst. left. exact H2.
  - apply andb_true_iff in H1 as [E1 L1]. apply andb_true_iff in H2 as [E2 L2].
    apply Z.eqb_eq in E1, E2. subst. right. rewrite Z.eqb_refl. simpl. eapply IH; eassumption.
Qed.

Lemma str_ltb_trichotomy a b : str_ltb a b = true \/ a = b \/ str_ltb b a = true.
Proof.
  revert b; induction a as [|x a IH]; intros [|y b]; simpl; auto.
  destruct (Z.lt_trichotomy x y) as [H|[H|H]].
  - left. apply orb_true_iff. left. apply Z.ltb_lt. exact H.
  - subst. rewrite Z.ltb_irrefl, Z.eqb_refl. simpl.
    destruct (IH b) as [H|[H|H]]; auto. subst. auto.
  - right. right. apply orb_true_iff. left. apply Z.ltb_lt. exact H.
Qed.

Lemma str_ltb_asym a b : str_ltb a b = true -> str_ltb b a = false.
Proof.
  intros H. destruct (str_ltb b a) eqn:E; [|reflexivity].
  pose proof (str_ltb_trans _ _ _ H E) as T. rewrite str_ltb_irrefl in T. discriminate.
Qed.

Lemma str_in_In x l : str_in x l = true <-> In x l.
Proof.
  unfold str_in. rewrite existsb_exists. split.
  - intros [y [Hy E]]. apply str_eqb_eq in E. subst. exact Hy.
  - intros H. exists x. split; [exact H|apply str_eqb_refl].
Qed.

Lemma str_nodup_NoDup l : str_nodup l = true <-> NoDup l.
Proof.
  induction l as [|x l IH]; simpl.
  - split; [constructor|reflexivity].
  - rewrite andb_true_iff, negb_true_iff, IH. split.
    + intros [H1 H2]. constructor; [|exact H2]. intros Hin. apply str_in_In in Hin. congruence.
    + intros H. inversion H as [|? ? Hn Hd]; subst. split; [|exact Hd].
      destruct (str_in x l) eqn:E; [|reflexivity]. apply str_in_In in E. contradiction.
Qed.
