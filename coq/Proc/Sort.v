(* sort_rows (dataflows/processors/sort_rows.py): key calculation, the ordered
   key/value store, and the row-number suffix. *)
From Coq Require Import List ZArith Bool Lia.
From DF Require Import Base.Str Base.Lits Base.Value Proc.RowOps.
Import ListNotations.
Open Scope Z_scope.

(* ---- KVFile as a specification: items() returns entries in ascending key
   order (keys are unique here); an insertion sort is the executable spec ---- *)
Fixpoint kv_insert {A} (k : str) (v : A) (l : list (str * A)) : list (str * A) :=
  match l with
  | [] => [(k, v)]
  | (k', v') :: l' => if str_ltb k k' then (k, v) :: l else
                      if str_eqb k k' then (k, v) :: l'          (* INSERT OR REPLACE *)
                      else (k', v') :: kv_insert k v l'
  end.

Definition kv_items {A} (entries : list (str * A)) : list (str * A) :=
  fold_left (fun acc kv => kv_insert (fst kv) (snd kv) acc) entries [].

(* ---- numeric key: hex of the sign-flipped binary64 image ---- *)

(* IEEE-754 binary64 bit pattern of the positive number m * 2^e, for m > 0
   with at most 53 significant bits and a normal exponent (exactly
   representable doubles; the harness only generates those) *)
Definition dbl_bits (m e : Z) : Z :=
  let k := Z.log2 m in
  let mant := if k <=? 52 then m * 2 ^ (52 - k) else m / 2 ^ (k - 52) in   (* exact: at most 53 significant bits *)
  (k + e + 1023) * 2 ^ 52 + (mant - 2 ^ 52).

(* bits.invert(0); if value < 0: bits.invert(range(1, 64)) *)
Definition num_key (m e : Z) : Z :=
  if m =? 0 then 2 ^ 63
  else if 0 <? m then 2 ^ 63 + dbl_bits m e
  else 2 ^ 63 - 1 - dbl_bits (- m) e.

(* exact dyadic form of the numeric values the generators produce *)
Fixpoint strip5 (fuel : nat) (m a : Z) : option (Z * Z) :=   (* m / 5^a if divisible *)
  match fuel with
  | O => None
  | S f => if a =? 0 then Some (m, 0) else
           if m mod 5 =? 0 then strip5 f (m / 5) (a - 1) else None
  end.

Definition dyadic_of (v : value) : option (Z * Z) :=
  match v with
  | VInt z => Some (z, 0)
  | VBool b => Some ((if b then 1 else 0), 0)
  | VFlt m e => Some (m, e)
  | VDec m e => if 0 <=? e then Some (m * 10 ^ e, 0)
                else match strip5 40 m (- e) with
                     | Some (q, _) => Some (q, e)          (* m/10^a = (m/5^a) * 2^-a *)
                     | None => None
                     end
  | _ => None
  end.

Definition E_UNMODELLED : Z := 99.

(* one key field, raw (not run through a format spec) *)
Definition enc_field (v : value) : res str :=
  match v with
  | VStr x => Ok x
  | VNull => Ok s_None
  | _ => match dyadic_of v with
         | Some (m, e) => Ok (hexw 16 (num_key m e))
         | None => Err E_UNMODELLED
         end
  end.

(* key given as a list of field names: concatenation of the per-field keys *)
Fixpoint key_calc (fields : list str) (r : row) : res str :=
  match fields with
  | [] => Ok []
  | f :: fs =>
      match rget r f with
      | None => Err E_KEY
      | Some v =>
          match enc_field v with
          | Err c => Err c
          | Ok a => match key_calc fs r with Err c => Err c | Ok b => Ok (a ++ b) end
          end
      end
  end.

(* process(): key = key_calc(row) + '{:08x}'.format(row_num) *)
Fixpoint keyed_rows (w : nat) (kc : row -> res str) (i : Z) (rows : list row) : res (list (str * row)) :=
  match rows with
  | [] => Ok []
  | r :: rs =>
      match kc r with
      | Err c => Err c
      | Ok k => match keyed_rows w kc (i + 1) rs with
                | Err c => Err c
                | Ok l => Ok ((k ++ hexw w i, r) :: l)
                end
      end
  end.

Definition sorter (w : nat) (kc : row -> res str) (reverse : bool) (rows : list row) : res (list row) :=
  match keyed_rows w kc 0 rows with
  | Err c => Err c
  | Ok entries =>
      let items := map snd (kv_items entries) in
      Ok (if reverse then rev items else items)
  end.
