"""Generic verdict driver (DESIGN.md section 7) shared by all property modules."""
import os, sys, json, time, traceback, collections
from common import *


def safe_impl(mod, case):
    try:
        return mod.run_impl(case)
    except Exception as e:  # harness-level problem: report as impl crash, never swallow
        return {'harness_exception': '%s: %s' % (type(e).__name__, e), 'tb': traceback.format_exc()[-1500:]}


def evaluate(mod, cases, do_coq=True):
    outs, fails, terms = [], [], []
    for i, c in enumerate(cases):
        out = safe_impl(mod, c)
        outs.append(out)
        try:
            f = mod.oracle(c, out)
        except Exception as e:
            f = 'oracle crashed: %s: %s' % (type(e).__name__, e)
        if isinstance(out, dict) and 'harness_exception' in out and not f:
            f = 'implementation run crashed in harness: ' + out['harness_exception']
        if f:
            fails.append((i, f))
        if do_coq:
            try:
                t = mod.coq_term(c, out)
            except Unrepresentable:
                t = None
            except Exception as e:
                t = None
                if not f:
                    fails.append((i, 'harness: building the model term crashed: %s: %s' % (type(e).__name__, e)))
            if t is not None:
                terms.append((i, t))
    return outs, fails, terms


def shrink(mod, case, budget=150):
    if not hasattr(mod, 'shrinks'):
        return case
    cur = case
    improved = True
    n = 0
    while improved and n < budget:
        improved = False
        for cand in mod.shrinks(cur):
            n += 1
            if n >= budget:
                break
            out = safe_impl(mod, cand)
            try:
                f = mod.oracle(cand, out)
            except Exception:
                f = None
            if f:
                cur = cand
                improved = True
                break
    return cur


def classify(mod, case, out, failure, known):
    fid = None
    if hasattr(mod, 'finding'):
        try:
            fid = mod.finding(case, out, failure)
        except Exception:
            fid = None
    if fid is not None and fid in known:
        return fid
    return None


def run_property(mod, tier, seed):
    t0 = time.time()
    prop = mod.PROP
    rng = Rng('%s/%d' % (prop, seed))
    known = open_findings(prop)
    lines, violations = [], 0
    build = build_cone(mod.PROPS_V)
    cases = []
    if hasattr(mod, 'witnesses'):
        cases += mod.witnesses()
    corpus_dir = os.path.join(VERIF, 'corpus', prop)
    if os.path.isdir(corpus_dir):
        for f in sorted(os.listdir(corpus_dir)):
            cases.append(json.load(open(os.path.join(corpus_dir, f)))['case'])
    n_fixed = len(cases)
    cases += mod.gen_cases(rng, tier)
    outs, fails, terms = evaluate(mod, cases)
    bad, coq_err = run_cases(prop, mod.COQ_IMPORTS, terms, shard=getattr(mod, 'SHARD', 400),
                             prelude=getattr(mod, 'PRELUDE', ''))
    # ---- verdict
    seen_known = collections.OrderedDict()
    new_fails = []
    for i, f in fails:
        fid = classify(mod, cases[i], outs[i], f, known)
        if fid is not None:
            seen_known.setdefault(fid, (i, f))
        else:
            new_fails.append((i, f))
    for fid, (i, f) in seen_known.items():
        lines.append('KNOWN-FINDING: property=%s %s: %s' % (prop, fid, known[fid]['what']))
    reported = set()
    for i, f in new_fails:
        key = f.split(':')[0]
        if key in reported and len(reported) >= 1:
            continue
        reported.add(key)
        small = shrink(mod, cases[i])
        out = safe_impl(mod, small)
        msg = None
        try:
            msg = mod.oracle(small, out)
        except Exception:
            pass
        if not msg:
            small, out, msg = cases[i], outs[i], f
        path = write_replay(prop, {'property': prop, 'kind': 'failing-input', 'failure': msg,
                                   'case': small, 'impl_output': out})
        lines.append('VIOLATION property=%s replay=%s' % (prop, path))
        violations += 1
    tie_broken = (not build['ok']) or bool(bad) or bool(coq_err)
    search_n = 0
    if tie_broken and not new_fails:
        # search: more cases, oracle on the implementation only
        found = None
        rng2 = Rng('%s/search/%d' % (prop, seed))
        extra = mod.gen_cases(rng2, 'search')
        # the disagreeing cases' neighbourhoods first
        if hasattr(mod, 'neighbours'):
            for i in sorted(bad)[:5]:
                extra = list(mod.neighbours(cases[i], rng2)) + extra
        for c in extra:
            search_n += 1
            out = safe_impl(mod, c)
            try:
                f = mod.oracle(c, out)
            except Exception as e:
                f = None
            if f and classify(mod, c, out, f, known) is None:
                found = (c, out, f)
                break
        if found:
            c, out, f = found
            small = shrink(mod, c)
            out2 = safe_impl(mod, small)
            path = write_replay(prop, {'property': prop, 'kind': 'failing-input', 'failure': f,
                                       'case': small, 'impl_output': out2,
                                       'found_by': 'search after broken proof/correspondence'})
            lines.append('VIOLATION property=%s replay=%s' % (prop, path))
        else:
            what = {}
            if not build['ok']:
                what['proof'] = build['failed'] or build.get('consts_log')
            if bad:
                i = sorted(bad)[0]
                what['correspondence'] = {'stream': cases[i].get('kind'), 'disagreeing_case': cases[i],
                                          'impl_output': outs[i], 'n_disagreeing': len(bad),
                                          'note': 'model (coq) and implementation disagree on this input; '
                                                  'the direct property oracle holds on it'}
            if coq_err:
                what['coq_error'] = coq_err[-1500:]
            path = write_replay(prop, {'property': prop, 'kind': 'tie-broken', 'no_longer_checks': what,
                                       'theorems': build['theorems'], 'searched_cases': search_n})
            lines.append('VIOLATION property=%s replay=%s no-failing-input-found' % (prop, path))
        violations += 1
    # ---- evidence
    sigs = set()
    nontriv = 0
    hist = collections.Counter()
    for c, o in zip(cases, outs):
        hist[c.get('kind', '?')] += 1
        try:
            nt = mod.nontrivial(c, o) if hasattr(mod, 'nontrivial') else True
        except Exception:
            nt = False
        if nt:
            d = digest(c)
            if d not in sigs:
                sigs.add(d)
                nontriv += 1
    err_hist = collections.Counter()
    for o in outs:
        if isinstance(o, dict) and o.get('error') is not None:
            err_hist[str(o.get('error'))[:40]] += 1
    samples = [{'case': c, 'impl_output': o} for c, o in list(zip(cases, outs))[n_fixed:n_fixed + 2]]
    if not samples:
        samples = [{'case': c, 'impl_output': o} for c, o in list(zip(cases, outs))[:2]]
    ev = {
        'property_id': prop, 'tier': 'thorough' if tier == 'thorough' else 'quick', 'seed': seed, 'level': 'proof',
        'coverage': {
            'obligations': build['obligations'], 'discharged': build['discharged'],
            'checker_cmd': build['checker_cmd'],
            'trusted_base': mod.TRUSTED + ['Print Assumptions per theorem of %s: %s' % (mod.PROPS_V, '; '.join(
                '%s=%s' % (n, a) for n, a in zip(build['theorems'], build['assumptions'])))],
            'theorems': build['theorems'],
            'programs': len(terms), 'disagreements_checked': len(bad),
            'evaluations': len(cases) + search_n, 'distinct_nontrivial': nontriv,
            'rule': getattr(mod, 'RULE', ''),
            'samples': samples,
            'case_kinds': dict(hist), 'impl_error_kinds': dict(err_hist),
            'oracle_failures': len(fails), 'known_findings_seen': list(seen_known.keys()),
            'correspondence': 'model evaluated by vm_compute on %d cases; %d disagreements%s' % (
                len(terms), len(bad), '; coq error: ' + coq_err[-300:] if coq_err else ''),
            'build': {k: build[k] for k in ('ok', 'failed', 'wall_s', 'cone')},
            'exhaustive': False,
        },
        'assumptions': mod.ASSUMES,
        'wall_s': round(time.time() - t0, 1),
        'violations': violations,
    }
    write_evidence(prop, ev)
    for l in lines:
        print(l)
    print('%s: %d cases (%d distinct non-trivial), %d model evaluations, %d disagreements, %d oracle failures '
          '(%d known), proofs %d/%d, %.0fs' % (prop, len(cases), nontriv, len(terms), len(bad), len(fails),
                                               len(fails) - len(new_fails), build['discharged'],
                                               build['obligations'], time.time() - t0))
    cleanup_scratch()
    return 1 if violations else 0


def replay(mod, path):
    payload = json.load(open(path))
    prop = mod.PROP
    if payload.get('kind') == 'tie-broken':
        print(json.dumps(payload, indent=1)[:4000])
        b = build_cone(mod.PROPS_V)
        print('build ok' if b['ok'] else 'build FAILED: %r' % (b['failed'],))
        c = (payload['no_longer_checks'].get('correspondence') or {}).get('disagreeing_case')
        if c is None:
            return 0 if b['ok'] else 1
        payload = {'case': c}
    case = payload['case']
    out = safe_impl(mod, case)
    print('case:', json.dumps(case)[:3000])
    print('implementation output:', json.dumps(out, default=str)[:3000])
    f = mod.oracle(case, out)
    print('oracle:', f or 'property holds on this input')
    try:
        t = mod.coq_term(case, out)
    except Unrepresentable:
        t = None
    if t is not None:
        terms = [t]
        if hasattr(mod, 'coq_model_term'):
            terms.append(mod.coq_model_term(case))
        rc, o = eval_terms(prop, mod.COQ_IMPORTS, terms, prelude=getattr(mod, 'PRELUDE', ''))
        print('model (agreement with implementation, then model output):')
        print(o[-3000:])
    cleanup_scratch()
    return 1 if f else 0
