"""C07 Resuming from a checkpoint reproduces the first run."""
import copy, shutil, json
from common import *
from flowutil import *
import dataflows as DF
from dataflows.helpers.extended_json import ejson

PROP = 'C07'
PROPS_V = 'Props/C07.v'
COQ_IMPORTS = ['Base.Str', 'Base.Value', 'IO.EJson', 'IO.EJsonInst', 'IO.JsonText', 'IO.SortKeys', 'IO.Stream']
RULE = ('cases = (a) values of every type the extended JSON claims (decimals, dates, times, naive/zone-aware datetimes with '
        'any UTC offset, durations, nested arrays/objects, unicode) through ejson.dumps/loads, (b) packages streamed to a '
        'file and read back, (c) run/delete histories of flows with one or two chained checkpoints, with a fresh Flow '
        'object per run or one object re-used; non-trivial = a non-JSON-native value / a history with a resume or a '
        'delete; distinct = distinct case digest'
        '; round 4: the stream file\'s text is split and joined by the model and compared with the real file and readline()'
        "; round 8: histories with failing runs (a step in front of the checkpoint raises mid-stream or at exhaustion) followed by complete runs; rows reaching the checkpoint with their keys in another order than the schema's fields"
        '; round 9: resources without fields (rows are empty dicts); the first and the resumed run by an interpreter under an ASCII default text encoding')
TRUSTED = ['Coq 8.16.1 kernel + vm_compute', 'harness/p07.py printers and oracle',
           'Python scalar text codecs (str(Decimal)/Decimal(str), strftime/strptime, isodate) satisfy parse(print x) = x: hypotheses of C07_ejson_roundtrip, exercised by the unit stream',
           'sources are re-iterable (a one-shot generator source is outside the domain)']
ASSUMES = ['rows compare as mappings (the stream file sorts keys)', 'object values have string keys and none of the reserved type{...} keys']

TZS = [None, 0, 3600, -18000, 19800, -43200, 50400, -34200]


def gen_value(rng, depth=0):
    k = rng.randint(0, 13 if depth < 2 else 10)
    if k == 0:
        return None
    if k == 1:
        return rng.pick([0, 1, -5, 2 ** 40, True, False])
    if k == 2:
        return rng.pick(['', 'a', 'é☃𝄞', 'line\nbreak', 'type{date}', '"q"'])
    if k == 3:
        return decimal.Decimal(rng.pick(['1.50', '-0.001', '1E+3', '123456789012345678901234567890.123456789', '0', '-7']))
    if k == 4:
        return datetime.date(rng.pick([1, 999, 1999, 2024]), rng.randint(1, 12), rng.randint(1, 28))
    if k == 5:
        return datetime.time(rng.randint(0, 23), rng.randint(0, 59), rng.randint(0, 59), rng.pick([0, 0, 0, 123456]))
    if k in (6, 7):
        tz = rng.pick(TZS)
        tzinfo = None if tz is None else datetime.timezone(datetime.timedelta(seconds=tz), rng.pick(['X', 'UTC+?', 'é']))
        return datetime.datetime(rng.pick([999, 1970, 2024]), rng.randint(1, 12), rng.randint(1, 28), rng.randint(0, 23),
                                 rng.randint(0, 59), rng.randint(0, 59), rng.pick([0, 0, 0, 999999]), tzinfo=tzinfo)
    if k == 8:
        return datetime.timedelta(days=rng.pick([0, 1, -1, 400]), seconds=rng.randint(0, 86399), microseconds=rng.pick([0, 5]))
    if k == 9:
        return rng.pick([1.5, -0.25, 1e300, 0.1])
    if k == 10:
        return rng.pick([[], {}, 'x'])
    if k in (11, 12):
        return [gen_value(rng, depth + 1) for _ in range(rng.randint(0, 3))]
    return dict((rng.pick(['a', 'b', 'k é', 'z']), gen_value(rng, depth + 1)) for _ in range(rng.randint(0, 3)))


def gen_cases(rng, tier):
    n = {'quick': 200, 'thorough': 2500, 'search': 1000}[tier]
    cases = []
    for i in range(n):
        cases.append({'kind': 'value', 'value': enc(gen_value(rng))})
    for i in range(n // 5):
        nres = rng.randint(0, 3)
        pk = [[{'a': j, 'v': enc(gen_value(rng, 1))} for j in range(rng.randint(0, 4))] for _ in range(nres)]
        cases.append({'kind': 'stream', 'pkg': pk})
    for asc in (True, False):
        cases.append({'kind': 'locale', 'ascii': asc})
    # a resource without fields (its rows are empty dicts, written as the line {}) in front of, between and behind ordinary ones
    for pk in ([[{}, {}, {}], [{'a': 1, 'v': enc('x')}]], [[{'a': 1, 'v': enc('x')}], [{}], [{'a': 2, 'v': enc('y')}, {'a': 3, 'v': enc(None)}]], [[{}, {}]]):
        cases.append({'kind': 'stream', 'pkg': pk})
    for i in range({'quick': 14, 'thorough': 120, 'search': 50}[tier]):
        h = [rng.pick(['run', 'run', 'delete']) for _ in range(rng.randint(2, 6))]
        h[0] = 'run'
        # built-in steps placed before the checkpoint: on a recomputation (first run, or after the directory was removed)
        # they run again, with the same Flow object when it is re-used
        ups = rng.sample(['validate', 'computed', 'join_self', 'set_type', 'sort', 'add_field', 'rotate', 'reverse'], rng.randint(0, 3))
        cases.append({'kind': 'history', 'history': h, 'reuse': rng.chance(0.5), 'two': rng.chance(0.4), 'ups': ups,
                      'loader': rng.chance(0.3),
                      'names': rng.pick([['one', 'two'], ['one', 'one.active'], ['x.active.y', 'two'], ['one.active', 'one']]),
                      'rows': [{'a': j, 'v': enc(gen_value(rng, 2))} for j in range(rng.randint(0, 4))]})
    # two chained checkpoints with only the later one removed ('delete2'): the run resumes from the earlier one, nothing
    # before it executes - a generator source is not even started
    for h in (['run', 'delete2', 'run'], ['run', 'delete2', 'run', 'run'], ['run', 'delete', 'run', 'delete2', 'run'], ['run', 'run', 'delete2', 'run']):
        for gen_source in (True, False):
            cases.append({'kind': 'history', 'history': h, 'reuse': False, 'two': True, 'ups': [], 'loader': False, 'names': ['one', 'two'],
                          'gen_source': gen_source, 'rows': [{'a': j, 'v': enc(j * 2)} for j in range(3)]})
    # a later step that stops reading each resource early: the resumed runs must return what the first run returned
    for two in (False, True):
        for h in (['run', 'run'], ['run', 'run', 'delete', 'run', 'run']):
            cases.append({'kind': 'history', 'history': h, 'reuse': False, 'two': two, 'ups': [], 'loader': False, 'names': ['one', 'two'],
                          'take2': True, 'rows': [{'a': j, 'v': enc('v%d' % j)} for j in range(5)]})
    # rows with their keys in another order than the schema's fields, through one and two checkpoints
    for ko in ('rotate', 'reverse'):
        for two in (False, True):
            cases.append({'kind': 'history', 'history': ['run', 'run', 'run'], 'reuse': False, 'two': two, 'ups': [ko], 'loader': False, 'names': ['one', 'two'],
                          'rows': [{'a': j, 'v': enc('v%d' % j)} for j in range(3)]})
    # a failed run (the step in front of the checkpoint raises after one row, or after the last row), then complete runs:
    # the run after the failed one recomputes and saves, the one after that resumes (round 8)
    for h in (['fail', 'run', 'run'], ['failend', 'run', 'run'], ['run', 'delete', 'fail', 'run', 'run'], ['fail', 'fail', 'run', 'run'],
              ['failend', 'run', 'delete', 'run', 'run']):
        for two in (False, True):
            for reuse in (False, True):
                cases.append({'kind': 'history', 'history': h, 'reuse': reuse, 'two': two, 'ups': [], 'loader': False, 'names': ['one', 'two'],
                              'rows': [{'a': j, 'v': enc('v%d' % j)} for j in range(3)]})
    # the known sub-second loss inside a history whose steps before the checkpoint add fields (recognised as the known finding)
    cases.append({'kind': 'history', 'history': ['run', 'run'], 'reuse': True, 'two': True, 'ups': ['validate', 'add_field'], 'loader': False,
                  'names': ['one', 'two'], 'rows': [{'a': 0, 'v': enc(datetime.time(23, 28, 5))},
                                                      {'a': 1, 'v': enc(datetime.datetime(999, 4, 14, 7, 46, 53, 999999))}]})
    # the same zone name with different offsets (a zone whose offset changed over the years) within one value
    msk = [datetime.datetime(2012, 6, 1, 12, 0, 0, tzinfo=datetime.timezone(datetime.timedelta(hours=4), 'MSK')),
           datetime.datetime(2020, 6, 1, 12, 0, 0, tzinfo=datetime.timezone(datetime.timedelta(hours=3), 'MSK')),
           datetime.datetime(2021, 1, 1, 0, 0, 0, tzinfo=datetime.timezone(datetime.timedelta(hours=5, minutes=30), 'IST')),
           datetime.datetime(2021, 1, 1, 0, 0, 0, tzinfo=datetime.timezone(datetime.timedelta(hours=2), 'IST'))]
    cases.append({'kind': 'value', 'value': enc(msk)})
    cases.append({'kind': 'value', 'value': enc({'a': msk[1], 'b': [msk[0], msk[3]], 'c': msk[2]})})
    return cases


def witnesses():
    return [{'kind': 'value', 'value': enc(datetime.time(1, 2, 3, 5)), 'witness_of': 'C07.subsecond_and_time_zone_lost'}]


def strip_subsec(v):
    """what the known finding does to a value: microseconds of time/datetime dropped, tz of time dropped"""
    if isinstance(v, datetime.datetime):
        return v.replace(microsecond=0)
    if isinstance(v, datetime.time):
        return v.replace(microsecond=0, tzinfo=None)
    if isinstance(v, list):
        return [strip_subsec(x) for x in v]
    if isinstance(v, dict):
        return dict((k, strip_subsec(x)) for k, x in v.items())
    return v


def type_exact_eq(a, b):
    if type(a) is not type(b):
        return False
    if isinstance(a, list):
        return len(a) == len(b) and all(type_exact_eq(x, y) for x, y in zip(a, b))
    if isinstance(a, dict):
        return set(a) == set(b) and all(type_exact_eq(a[k], b[k]) for k in a)
    if isinstance(a, datetime.datetime):
        return a == b and a.utcoffset() == b.utcoffset() and a.tzname() == b.tzname() and (a.tzinfo is None) == (b.tzinfo is None)
    if isinstance(a, decimal.Decimal):
        return a.as_tuple() == b.as_tuple()
    return a == b


def mk_flow(case, d, log, switch=None):
    def up(rows):
        log.append('up')
        for i, r in enumerate(rows):
            if switch and switch.get('fail') == 'row' and i == 1:
                raise RuntimeError('tripped at row 1')
            yield r
        if switch and switch.get('fail') == 'end':
            raise RuntimeError('tripped at the end')

    def mid(rows):
        log.append('mid')
        yield from rows
    rows = rows_dec(case['rows'])
    if case['loader']:
        # a re-iterable file source read by load(): a package dumped beforehand
        pk = os.path.join(d + '_src')
        if not os.path.exists(os.path.join(pk, 'datapackage.json')):
            with quiet():
                Flow(Src([{'name': 'r', 'fields': [{'name': 'a', 'type': 'integer'}, {'name': 'w', 'type': 'integer'}],
                           'rows': [{'a': j, 'w': 2 * j} for j in range(len(rows))]}]), DF.dump_to_path(pk)).process()
        src = DF.load(os.path.join(pk, 'datapackage.json'))
    elif case.get('take2'):
        # two resources, and (below) a step after the checkpoints that stops reading each resource after two rows
        src = Src([{'name': 'r', 'fields': [{'name': 'a', 'type': 'integer'}, {'name': 'v', 'type': 'any'}], 'rows': rows},
                   {'name': 'q', 'fields': [{'name': 'b', 'type': 'integer'}], 'rows': [{'b': 10 + j} for j in range(4)]}])
    elif case.get('gen_source'):
        def gen():
            log.append('src')
            for r in rows:
                yield dict(r)
        src = gen()
    else:
        src = Src([{'name': 'r', 'fields': [{'name': 'a', 'type': 'integer'}, {'name': 'v', 'type': 'any'}], 'rows': rows}])
    n1, n2 = case.get('names', ['one', 'two'])
    builtins_ = {'validate': lambda: DF.validate(),
                 'computed': lambda: DF.add_computed_field([dict(target='c', operation='sum', source=['a'])]),
                 'join_self': lambda: DF.join_with_self('r', ['a'], {'a': None, 'n': {'aggregate': 'count'}}),
                 'set_type': lambda: DF.set_type('a', type='number'),
                 'sort': lambda: DF.sort_rows('{a}', reverse=True),
                 'add_field': lambda: DF.add_field('z', 'integer', 7),
                 # rows reach the checkpoint with their keys in another order than the schema lists the fields
                 'rotate': lambda: rotate_keys, 'reverse': lambda: reverse_keys}
    steps = [src, up] + [builtins_[u]() for u in case.get('ups', [])] + [DF.checkpoint(n1, checkpoint_path=d)]
    if case['two']:
        steps += [mid, DF.checkpoint(n2, checkpoint_path=d)]
    if case.get('take2'):
        def first_two(rows):
            for i, r in enumerate(rows):
                if i >= 2:
                    break
                yield r
        steps.append(first_two)
    return Flow(*steps)


LOCALE_CHILD = '''
import json, shutil
from dataflows import Flow, checkpoint
d = %(dir)r
shutil.rmtree(d, ignore_errors=True)
log = []
def up(rows):
    log.append('up')
    yield from rows
def run():
    del log[:]
    r = Flow([{'a': 1, 'v': 'caf' + chr(233) + ' ' + chr(9731)}, {'a': 2, 'v': chr(26085) + chr(26412)}], up, checkpoint('c' + chr(233) * %(nonascii_name)d, checkpoint_path=d)).results()
    return [r[0], [f['name'] for f in r[1].descriptor['resources'][0]['schema']['fields']], list(log)]
print('RESULT ' + json.dumps([run(), run()]))
'''


def run_impl(case):
    k = case['kind']
    if k == 'locale':
        # the first run and the resumed run by an interpreter whose default text encoding is ASCII
        d = os.path.join(scratch(), 'loc_%s' % digest(case))
        got, err = child_python(LOCALE_CHILD % {'dir': d, 'nonascii_name': 0}, ascii_locale=case['ascii'])
        shutil.rmtree(d, ignore_errors=True)
        return {'got': got, 'err': err}
    if k == 'value':
        v = dec(case['value'])
        try:
            back = ejson.loads(ejson.dumps(v, sort_keys=True, ensure_ascii=True))
        except Exception as e:
            return {'error': err_code(e), 'exc': '%s: %s' % (type(e).__name__, e)}
        text = ejson.dumps(v, sort_keys=True, ensure_ascii=True)
        # the same value as the encoder writes it with the keys in the order the row has them: input of the model's sorting
        plain = ejson.dumps(v, sort_keys=False, ensure_ascii=True)
        return {'back': enc(back), 'same': type_exact_eq(v, back), 'text': text, 'plain': plain}
    if k == 'stream':
        f = os.path.join(scratch(), 's_%s.ndjson' % digest(case))
        res = [{'name': 'r%d' % i, 'fields': [{'name': 'a', 'type': 'integer'}, {'name': 'v', 'type': 'any'}], 'rows': rows_dec(rows)}
               for i, rows in enumerate(case['pkg'])]
        for i, rows in enumerate(case['pkg']):
            if rows and all(r == {} or r == {'$obj': []} for r in rows):
                res[i]['fields'] = []          # a table with no fields at all: its rows are empty dicts
        plain = []

        def tap(rows):
            # every row as the stream step receives it, written by the same encoder without sort_keys
            cur = []
            plain.append(cur)
            for row in rows:
                cur.append(ejson.dumps(row, sort_keys=False, ensure_ascii=True))
                yield row

        with quiet():
            Flow(Src(res), tap, DF.stream(f)).process()
            lines = open(f).read().split('\n')
            ds = Flow(DF.unstream(f)).datastream()
            got = [list(r) for r in ds.res_iter]
        # the file as text, and the lines readline() hands to the reader (text mode, as unstream opens it)
        raw = open(f, 'rb').read().decode('utf-8')
        with open(f) as fh:
            rl = []
            while True:
                l = fh.readline()
                if not l:
                    break
                rl.append(l)
        text = {'text': raw, 'readlines': rl, 'plain': plain} if len(raw) <= 2500 else {}
        return {'rows': [rows_enc(x) for x in got], 'names': [r['name'] for r in ds.dp.descriptor.get('resources', [])], **text,
                'blank': [len(l.strip()) == 0 for l in lines[:-1]] if lines and lines[-1] == '' else [len(l.strip()) == 0 for l in lines]}
    d = os.path.join(scratch(), 'h_%s' % digest(case))
    shutil.rmtree(d, ignore_errors=True)
    log = []
    switch = {}
    flow = mk_flow(case, d, log, switch)
    runs = []
    for op in case['history']:
        switch['fail'] = {'fail': 'row', 'failend': 'end'}.get(op)
        if op == 'delete':
            shutil.rmtree(d, ignore_errors=True)
            continue
        if op == 'delete2':
            shutil.rmtree(os.path.join(d, case.get('names', ['one', 'two'])[1]), ignore_errors=True)
            continue
        del log[:]
        if not case['reuse']:
            flow = mk_flow(case, d, log, switch)
        try:
            with quiet():
                res, dp, _ = flow.results()
            runs.append({'rows': [rows_enc(x) for x in res], 'fields': [[f['name'], f['type']] for r in dp.descriptor['resources'] for f in r['schema']['fields']],
                         'nres': len(dp.descriptor['resources']), 'log': list(log)})
        except Exception as e:
            runs.append({'error': '%s: %s' % (type(e).__name__, str(e)[:200])})
    shutil.rmtree(d, ignore_errors=True)
    shutil.rmtree(d + '_src', ignore_errors=True)
    return {'runs': runs}


def oracle(case, out):
    k = case['kind']
    if k == 'locale':
        what = 'a checkpointed flow over non-ASCII text, run twice by an interpreter with %s default text encoding' % ('an ASCII' if case['ascii'] else 'the usual')
        if out['got'] is None:
            return '%s failed: %s' % (what, out['err'][-250:])
        want = [{'a': 1, 'v': 'caf\u00e9 \u2603'}, {'a': 2, 'v': '\u65e5\u672c'}]
        (r1, f1, l1), (r2, f2, l2) = out['got']
        if r1 != [want] or r2 != [want] or f1 != f2:
            return '%s: first run %r, resumed run %r' % (what, r1, r2)
        if l1 != ['up'] or l2 != []:
            return '%s: steps before the checkpoint ran %r in the first and %r in the second run' % (what, l1, l2)
        return None
    if k == 'value':
        if 'error' in out:
            return 'extended JSON failed on a value it claims: %s' % out['exc']
        return None if out['same'] else 'value %r came back as %r' % (dec(case['value']), dec(out['back']))
    if k == 'stream':
        exp = [rows_dec(r) for r in case['pkg']]
        got = [rows_dec(r) for r in out['rows']]
        if len(got) != len(exp) or any(len(a) != len(b) for a, b in zip(got, exp)):
            return 'stream/unstream: resources or row counts differ'
        for a, b in zip(got, exp):
            for x, y in zip(a, b):
                if not type_exact_eq(dict(x), dict(y)):
                    return 'stream/unstream: row %r came back as %r' % (y, x)
        return None
    runs = out['runs']
    first = ([r for r in runs if 'error' not in r] or runs)[0]
    have1 = have2 = False
    ri = 0
    for op in case['history']:
        if op in ('fail', 'failend') and not have1:
            # the step in front of the first checkpoint raises: the run fails and saves nothing that a later run could resume from
            r = runs[ri]
            ri += 1
            if 'error' not in r:
                return 'history %r: run %d was to fail in front of the checkpoint and returned normally' % (case['history'], ri)
            continue
        if op == 'delete':
            have1 = have2 = False
            continue
        if op == 'delete2':
            have2 = False
            continue
        r = runs[ri]
        ri += 1
        if 'error' in r:
            return 'history %r: run %d failed: %s' % (case['history'], ri, r['error'])
        if r['rows'] != first['rows'] or r['fields'] != first['fields'] or r['nres'] != first['nres']:
            if all(type_exact_eq(a, b) for x, y in zip(r['rows'], first['rows']) for a, b in zip(rows_dec(x), rows_dec(y))) and \
                    [len(x) for x in r['rows']] == [len(x) for x in first['rows']] and r['fields'] == first['fields']:
                pass
            else:
                return 'history %r (reuse=%s): run %d returned a different result than the first run (%d vs %d resources)' % (
                    case['history'], case['reuse'], ri, r['nres'], first['nres'])
        if case['two']:
            want = [] if have2 else (['mid'] if have1 else ['up', 'mid'])
        else:
            want = [] if have1 else ['up']
        if case.get('gen_source') and not have1:
            want = want + ['src']
        if case.get('take2') and sorted(set(r['log'])) == sorted(set(want)):
            pass            # (two resources: the steps before the checkpoint log once per resource)
        elif sorted(r['log']) != sorted(want):
            return 'history %r (reuse=%s): run %d executed %r, expected %r' % (case['history'], case['reuse'], ri, r['log'], want)
        have1 = True
        have2 = have2 or case['two']
    return None


def finding(case, out, failure):
    if case['kind'] == 'value' and 'back' in out:
        v = dec(case['value'])
        if type_exact_eq(strip_subsec(v), dec(out['back'])) and not type_exact_eq(v, strip_subsec(v)):
            return 'C07.subsecond_and_time_zone_lost'
    if case['kind'] == 'stream' and 'rows' in out:
        exp = [strip_subsec(rows_dec(r)) for r in case['pkg']]
        got = [rows_dec(r) for r in out['rows']]
        if len(got) == len(exp) and all(len(a) == len(b) and all(type_exact_eq(dict(x), dict(y)) for x, y in zip(a, b)) for a, b in zip(got, exp)):
            return 'C07.subsecond_and_time_zone_lost'
    if case['kind'] == 'history':
        rows = rows_dec(case['rows'])
        if any(not type_exact_eq(r, strip_subsec(r)) for r in rows) and 'different result' in (failure or ''):
            runs = out['runs']
            # what the first run returned (steps before the checkpoint included), with the sub-second parts dropped
            # (rows are dicts: a step that re-orders their keys before the checkpoint must not hide the recognition)
            canon = lambda rws: [[sorted(r.items(), key=lambda kv: kv[0]) for r in rows_dec(x)] for x in rws]
            ok_runs = [r for r in runs if 'error' not in r]
            first = canon(ok_runs[0]['rows']) if ok_runs else None
            want = [[sorted(strip_subsec(dict(r)).items(), key=lambda kv: kv[0]) for r in x] for x in first] if first is not None else None
            if ok_runs and all(('error' in r) or type_exact_eq(canon(r['rows']), first) or type_exact_eq(canon(r['rows']), want) for r in runs) \
                    and not any(o.startswith('fail') for o in case['history']) and all('error' not in r for r in runs):
                return 'C07.subsecond_and_time_zone_lost'
    return None


def modelable(v):
    if isinstance(v, float):
        return True
    if isinstance(v, datetime.time) and v.tzinfo is not None:
        return False
    if isinstance(v, list):
        return all(modelable(x) for x in v)
    if isinstance(v, dict):
        return all(isinstance(k, str) and modelable(x) for k, x in v.items())
    return True


def sorted_keys(v):
    if isinstance(v, dict):
        return dict((k, sorted_keys(v[k])) for k in sorted(v))
    if isinstance(v, list):
        return [sorted_keys(x) for x in v]
    return v


def coq_term(case, out):
    k = case['kind']
    if k == 'value':
        v = dec(case['value'])
        if 'error' in out or not modelable(v):
            return None
        t = 'veqb (rt_model %s) %s' % (cval(sorted_keys(v)), cval(dec(out['back'])))
        # the same with the sorting done by the model: the value in its own key order goes in, the value Python read comes out
        t += ' && veqb (rt_sorted %s) %s' % (cval(v), cval(dec(out['back'])))
        # the JSON text layer: the printer model writes exactly the text the json module wrote, and the parser model reads
        # it as the tree the json module reads (no object hook); trees with binary floats are outside the text model
        tree = json.loads(out['text'], object_pairs_hook=lambda kv: ('obj', kv))
        cj = cjson(tree)
        if cj is not None:
            t += ' && str_eqb (jprint %s) %s && match jparse %s with Some j => json_eqb j %s | None => false end' % (
                cj, cstr(out['text']), cstr(out['text'] + '\n'), cj)
            # sort_keys=True is the model's sorting: the tree in the row's own key order, sorted and printed by the model,
            # is the text the real encoder wrote
            cu = cjson(json.loads(out['plain'], object_pairs_hook=lambda kv: ('obj', kv))) if 'plain' in out else None
            if cu is not None:
                t += ' && str_eqb (sorted_text %s) %s' % (cu, cstr(out['text']))
        return t
    if k == 'stream':
        shape = clist([clist(['tt'] * len(r)) for r in case['pkg']])
        t = ('list_eqb Bool.eqb (map (fun l => match l with [] => true | _ => false end) '
             '(stream_lines unit unit (fun _ => [1]) (fun _ => [1]) (tt, %s))) %s') % (shape, clist([cbool(b) for b in out['blank']]))
        if 'text' in out and all(l.endswith('\n') for l in out['readlines']):
            # the model's line splitting and joining against the real file and the real readline()
            ls = clist([cstr(l[:-1]) for l in out['readlines']])
            t += ' && list_eqb str_eqb (split_lines %s) %s && str_eqb (file_text %s) %s' % (cstr(out['text']), ls, ls, cstr(out['text']))
            # stream.py's write(): every row line of the real file is the model's sorted text of the row the step received
            cus = [[cjson(json.loads(p, object_pairs_hook=lambda kv: ('obj', kv))) for p in rs] for rs in out.get('plain', [])]
            if 'plain' in out and all(c is not None for rs in cus for c in rs):
                t += (' && list_eqb str_eqb (flat_map (fun rows : list json => (map sorted_text rows ++ [[]])%%list) %s) %s'
                      % (clist([clist(rs) for rs in cus]), clist([cstr(l[:-1]) for l in out['readlines'][1:]])))
        return t
    if k == 'history' and not case['two'] and all('error' not in r for r in out['runs']) and not any(o.startswith('fail') for o in case['history']):
        h = clist(['HRun' if o == 'run' else 'HDelete' for o in case['history']])
        obs = clist([cbool('up' in r['log']) for r in out['runs']])
        return ('list_eqb Bool.eqb (map snd (history unit unit (fun _ => [1]) (fun _ => Some tt) (fun _ => [1]) (fun _ => Some tt) (fun _ => 1%%nat) '
                '[1] [2] (tt, [[tt]]) %s {| files := []; buffered := [] |})) %s') % (h, obs)
    return None


def nontrivial(case, out):
    if case['kind'] == 'value':
        v = dec(case['value'])
        return not isinstance(v, (type(None), bool, int, str))
    return True


def shrinks(case):
    if case['kind'] == 'history' and len(case['history']) > 2:
        for i in range(1, len(case['history'])):
            c = copy.deepcopy(case)
            del c['history'][i]
            yield c
