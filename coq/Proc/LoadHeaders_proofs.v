(* rename_duplicate_headers in closed form: the loop of load.py (counter, in-place renaming of the first occurrence when
   the second one shows up) computes the documented numbering scheme -- a header whose key (the header itself, or its
   lower-case form) occurs once is kept, the j-th of several headers with the same key becomes header ++ pre ++ j ++ post. *)
From Coq Require Import List ZArith Bool Lia.
From DF Require Import Base.Str Base.Str_proofs Proc.Load IO.JsonText IO.JsonText_proofs.
Import ListNotations.
Open Scope Z_scope.

Definition hkey (cs : bool) (h : str) : str := if cs then h else lower h.

Fixpoint cnt (k : str) (l : list str) : Z :=
  match l with [] => 0 | x :: r => (if str_eqb k x then 1 else 0) + cnt k r end.

Section Scheme.
  Variables (cs : bool) (pre post : str).

  Definition entry (all seen : list str) (h : str) : str :=
    let k := hkey cs h in
    if 1 <? cnt k all then fmt_dup pre post h (cnt k seen + 1) else h.

  Fixpoint scheme_from (all seen : list str) (l : list str) : list str :=
    match l with
    | [] => []
    | h :: r => entry all seen h :: scheme_from all (seen ++ [hkey cs h]) r
    end.

  Definition scheme (hs : list str) : list str := scheme_from (map (hkey cs) hs) [] hs.

  Lemma cnt_nonneg k l : 0 <= cnt k l.
  Proof. induction l as [|x r IH]; simpl; [lia|]. destruct (str_eqb k x); lia. Qed.

  Lemma cnt_app k a b : cnt k (a ++ b) = cnt k a + cnt k b.
  Proof. induction a as [|x r IH]; simpl; [lia|]. rewrite IH. lia. Qed.

  Lemma cnt_snoc_same k a : cnt k (a ++ [k]) = cnt k a + 1.
  Proof. rewrite cnt_app. simpl. rewrite str_eqb_refl. lia. Qed.

  Lemma cnt_snoc_other k k' a : str_eqb k' k = false -> cnt k' (a ++ [k]) = cnt k' a.
  Proof. intros H. rewrite cnt_app. simpl. rewrite H. lia. Qed.

  Lemma cnt_pos_in k h l : In h l -> hkey cs h = k -> 1 <= cnt k (map (hkey cs) l).
  Proof.
    induction l as [|x r IH]; simpl; [tauto|]. intros [->|Hin] Hk.
    - rewrite Hk, str_eqb_refl. pose proof (cnt_nonneg k (map (hkey cs) r)). lia.
    - specialize (IH Hin Hk). destruct (str_eqb k (hkey cs x)); lia.
  Qed.

  Lemma scheme_from_snoc all seen l h :
    scheme_from all seen (l ++ [h]) = scheme_from all seen l ++ [entry all (seen ++ map (hkey cs) l) h].
  Proof.
    revert seen. induction l as [|x r IH]; intros seen; simpl.
    - now rewrite app_nil_r.
    - rewrite IH. now rewrite <- app_assoc.
  Qed.

  (* a further occurrence of key k leaves every entry alone unless it is the second one *)
  Lemma scheme_from_more all seen l k :
    (forall h, In h l -> hkey cs h = k -> cnt k all <> 1) ->
    scheme_from (all ++ [k]) seen l = scheme_from all seen l.
  Proof.
    revert seen. induction l as [|x r IH]; intros seen H; simpl; [reflexivity|].
    rewrite IH by (intros h Hh; apply H; now right). f_equal.
    unfold entry. destruct (str_eqb (hkey cs x) k) eqn:E.
    - apply str_eqb_eq in E. rewrite E, cnt_snoc_same.
      assert (cnt k all <> 1) by (apply (H x); [now left|exact E]).
      pose proof (cnt_nonneg k all).
      destruct (1 <? cnt k all + 1) eqn:A, (1 <? cnt k all) eqn:B; try reflexivity; lia.
    - now rewrite cnt_snoc_other.
  Qed.

  (* the second occurrence renames the first one, in place *)
  Lemma scheme_from_second all seen l k :
    cnt k all = 1 -> cnt k seen = 0 -> cnt k (map (hkey cs) l) = 1 ->
    let i := index_of k (map (hkey cs) l) in
    scheme_from (all ++ [k]) seen l =
    set_nth i (fmt_dup pre post (nth i (scheme_from all seen l) []) 1) (scheme_from all seen l).
  Proof.
    revert seen. induction l as [|x r IH]; intros seen Hall Hseen Hl; simpl in *.
    - pose proof I. lia.
    - destruct (str_eqb k (hkey cs x)) eqn:E.
      + apply str_eqb_eq in E. simpl. f_equal.
        * unfold entry. rewrite <- E, cnt_snoc_same, Hall, Hseen. reflexivity.
        * apply scheme_from_more. intros h Hh Hk.
          pose proof (cnt_pos_in k h r Hh Hk). lia.
      + simpl. f_equal.
        * unfold entry. rewrite cnt_snoc_other; [reflexivity|]. rewrite (str_eqb_sym (hkey cs x) k). exact E.
        * apply IH; [exact Hall| |lia]. rewrite cnt_app. simpl. rewrite E. lia.
  Qed.

  (* the counter of the loop *)
  Lemma count_get_inc m k k' :
    count_get (count_inc m k) k' = count_get m k' + (if str_eqb k' k then 1 else 0).
  Proof.
    induction m as [|[a n] r IH]; simpl.
    - destruct (str_eqb k' k); lia.
    - destruct (str_eqb k a) eqn:E; simpl.
      + apply str_eqb_eq in E. subst a. destruct (str_eqb k' k); lia.
      + destruct (str_eqb k' a) eqn:E2.
        * apply str_eqb_eq in E2. subst a. rewrite (str_eqb_sym k' k), E. lia.
        * exact IH.
  Qed.

  Lemma index_of_snoc k l : 1 <= cnt k l -> index_of k (l ++ [k]) = index_of k l.
  Proof.
    induction l as [|x r IH]; simpl; [lia|]. intros H. destruct (str_eqb k x); [reflexivity|].
    f_equal. apply IH. lia.
  Qed.

  Lemma loop_spec input : forall p counter,
    (forall k, count_get counter k = cnt k (map (hkey cs) p)) ->
    rename_loop cs pre post input counter (scheme p) (map (hkey cs) p) = scheme (p ++ input).
  Proof.
    induction input as [|h rest IH]; intros p counter Hc; simpl.
    - now rewrite app_nil_r.
    - fold (hkey cs h). set (k := hkey cs h). set (keys := map (hkey cs) p).
      assert (Hget : count_get (count_inc counter k) k = cnt k keys + 1).
      { rewrite count_get_inc, Hc, str_eqb_refl. reflexivity. }
      assert (Hc' : forall k', count_get (count_inc counter k) k' = cnt k' (map (hkey cs) (p ++ [h]))).
      { intros k'. rewrite count_get_inc, Hc, map_app, cnt_app. simpl. fold k. lia. }
      assert (Hkeys : keys ++ [k] = map (hkey cs) (p ++ [h])) by (now rewrite map_app).
      assert (Hsn : scheme (p ++ [h]) =
                    scheme_from (keys ++ [k]) [] p ++ [if 1 <? cnt k keys + 1 then fmt_dup pre post h (cnt k keys + 1) else h]).
      { unfold scheme. rewrite <- Hkeys, scheme_from_snoc. f_equal. f_equal. unfold entry. fold k.
        rewrite cnt_snoc_same. reflexivity. }
      pose proof (cnt_nonneg k keys) as Hnn.
      replace (p ++ h :: rest) with ((p ++ [h]) ++ rest) by (now rewrite <- app_assoc).
      rewrite Hget. destruct (1 <? cnt k keys + 1) eqn:Hgt.
      + destruct (cnt k keys + 1 =? 2) eqn:H2.
        * (* the second occurrence *)
          assert (H1 : cnt k keys = 1) by lia.
          rewrite Hkeys. rewrite <- (IH (p ++ [h]) _ Hc'). f_equal.
          rewrite Hsn. f_equal.
          rewrite <- Hkeys, index_of_snoc by (fold keys; lia).
          unfold scheme. fold keys. symmetry. apply scheme_from_second; [exact H1|reflexivity|exact H1].
        * rewrite Hkeys. rewrite <- (IH (p ++ [h]) _ Hc'). f_equal.
          rewrite Hsn. f_equal. unfold scheme. fold keys. symmetry. apply scheme_from_more.
          intros _ _ _. lia.
      + rewrite Hkeys. rewrite <- (IH (p ++ [h]) _ Hc'). f_equal.
        rewrite Hsn. f_equal. unfold scheme. fold keys. symmetry. apply scheme_from_more.
        intros h' Hh' Hk'. pose proof (cnt_pos_in k h' p Hh' Hk'). fold keys in H. lia.
  Qed.

  Theorem rename_duplicate_headers_scheme hs : rename_duplicate_headers cs pre post hs = scheme hs.
  Proof. unfold rename_duplicate_headers. apply (loop_spec hs [] []). intros k. reflexivity. Qed.

  (* consequences of the closed form *)
  Lemma scheme_from_length all seen l : length (scheme_from all seen l) = length l.
  Proof. revert seen. induction l as [|x r IH]; intros seen; simpl; [reflexivity|]. now rewrite IH. Qed.

  Theorem rename_length hs : length (rename_duplicate_headers cs pre post hs) = length hs.
  Proof. rewrite rename_duplicate_headers_scheme. apply scheme_from_length. Qed.

  (* ---------- uniqueness, when the first character of the format occurs in no header ---------- *)
  Fixpoint before (c : Z) (l : str) : str :=
    match l with [] => [] | x :: r => if x =? c then [] else x :: before c r end.

  Lemma before_app c h rest : ~ In c h -> before c (h ++ c :: rest) = h.
  Proof.
    induction h as [|x r IH]; simpl; intros H.
    - now rewrite Z.eqb_refl.
    - destruct (x =? c) eqn:E; [apply Z.eqb_eq in E; tauto|]. f_equal. apply IH. tauto.
  Qed.

  Lemma str_of_Z_inj a b : str_of_Z a = str_of_Z b -> a = b.
  Proof.
    intros H. pose proof (pnum_print a [] I) as Pa. pose proof (pnum_print b [] I) as Pb.
    rewrite app_nil_r in Pa, Pb. rewrite H in Pa. congruence.
  Qed.

  Lemma in_scheme_from all seen l e :
    In e (scheme_from all seen l) ->
    exists h r, In h l /\ cnt (hkey cs h) seen + 1 <= r <= cnt (hkey cs h) (seen ++ map (hkey cs) l)
                /\ e = if 1 <? cnt (hkey cs h) all then fmt_dup pre post h r else h.
  Proof.
    revert seen. induction l as [|x t IH]; intros seen; simpl; [tauto|]. intros [<-|Hin].
    - exists x, (cnt (hkey cs x) seen + 1). split; [now left|]. split; [|reflexivity].
      rewrite cnt_app. simpl. rewrite str_eqb_refl. pose proof (cnt_nonneg (hkey cs x) (map (hkey cs) t)). lia.
    - destruct (IH _ Hin) as (h & r & Hh & Hr & He). exists h, r. split; [now right|]. split; [|exact He].
      rewrite <- app_assoc in Hr. simpl in Hr. rewrite !cnt_app in Hr. rewrite cnt_app. simpl in *.
      destruct (str_eqb (hkey cs h) (hkey cs x)); lia.
  Qed.

  Lemma NoDup_snoc (A : Type) (a : list A) (x : A) : NoDup a -> ~ In x a -> NoDup (a ++ [x]).
  Proof.
    induction a as [|y r IH]; simpl; intros Ha Hx.
    - constructor; [tauto|constructor].
    - inversion Ha as [|? ? Hy Hr]; subst. constructor.
      + rewrite in_app_iff. simpl. intros [?|[?|[]]]; [tauto|subst; tauto].
      + apply IH; tauto.
  Qed.

  Lemma fmt_split c0 pre' h r : pre = c0 :: pre' -> fmt_dup pre post h r = h ++ c0 :: (pre' ++ str_of_Z r ++ post).
  Proof. intros ->. unfold fmt_dup. reflexivity. Qed.

  Lemma nodup_scheme_from c0 pre' all seen l :
    pre = c0 :: pre' ->
    (forall h, In h l -> ~ In c0 h) ->
    (forall k, cnt k (seen ++ map (hkey cs) l) <= cnt k all) ->
    NoDup (scheme_from all seen l).
  Proof.
    intros Hpre. induction l as [|h l' IH] using (@rev_ind str); intros Hc Hall; [constructor|].
    rewrite scheme_from_snoc. apply NoDup_snoc.
    - apply IH; [intros x Hx; apply Hc, in_or_app; now left|].
      intros k. specialize (Hall k). rewrite map_app, !cnt_app in Hall. rewrite cnt_app. simpl in Hall.
      match type of Hall with context [if ?b then _ else _] => destruct b end; lia.
    - intros Hin. apply in_scheme_from in Hin as (h' & r' & Hh' & Hr' & He).
      assert (Nh : ~ In c0 h) by (apply Hc, in_or_app; right; now left).
      assert (Nh' : ~ In c0 h') by (apply Hc, in_or_app; now left).
      unfold entry in He.
      (* the number of occurrences of h's key known to [all] *)
      assert (Hk : hkey cs h' = hkey cs h -> 2 <= cnt (hkey cs h) all).
      { intros E. specialize (Hall (hkey cs h)). rewrite map_app, !cnt_app in Hall. simpl in Hall.
        rewrite str_eqb_refl in Hall. pose proof (cnt_pos_in (hkey cs h) h' l' Hh' E).
        pose proof (cnt_nonneg (hkey cs h) seen). lia. }
      destruct (1 <? cnt (hkey cs h) all) eqn:F, (1 <? cnt (hkey cs h') all) eqn:F'.
      + (* both numbered *)
        rewrite (fmt_split c0 pre' h _ Hpre), (fmt_split c0 pre' h' _ Hpre) in He.
        assert (E : h = h').
        { pose proof (f_equal (before c0) He) as B.
          rewrite (before_app c0 h _ Nh), (before_app c0 h' _ Nh') in B. exact B. }
        subst h'. apply app_inv_head in He. injection He as He. apply app_inv_head in He.
        apply app_inv_tail in He. apply str_of_Z_inj in He. lia.
      + rewrite (fmt_split c0 pre' h _ Hpre) in He. apply Nh'. rewrite <- He. apply in_or_app. right. now left.
      + rewrite (fmt_split c0 pre' h' _ Hpre) in He. apply Nh. rewrite He. apply in_or_app. right. now left.
      + subst h'. specialize (Hk eq_refl). lia.
  Qed.

  Theorem rename_unique c0 pre' hs :
    pre = c0 :: pre' -> (forall h, In h hs -> ~ In c0 h) ->
    NoDup (rename_duplicate_headers cs pre post hs).
  Proof.
    intros Hpre Hc. rewrite rename_duplicate_headers_scheme. unfold scheme.
    apply (nodup_scheme_from c0 pre'); [exact Hpre|exact Hc|]. intros k. simpl. lia.
  Qed.

  (* every name still starts with its header, and headers whose key is unique are kept as they are *)
  Lemma is_prefix_app (a b : str) : is_prefix a (a ++ b) = true.
  Proof. induction a as [|x r IH]; simpl; [reflexivity|]. now rewrite Z.eqb_refl. Qed.

  Lemma scheme_from_prefix all seen l :
    Forall2 (fun h e => is_prefix h e = true /\ (cnt (hkey cs h) all <= 1 -> e = h)) l (scheme_from all seen l).
  Proof.
    revert seen. induction l as [|x r IH]; intros seen; simpl; constructor; [|apply IH].
    unfold entry. destruct (1 <? cnt (hkey cs x) all) eqn:E.
    - split; [apply is_prefix_app|]. intros H. lia.
    - split; [|reflexivity]. rewrite <- (app_nil_r x) at 2. apply is_prefix_app.
  Qed.

  Theorem rename_keeps_headers hs :
    Forall2 (fun h e => is_prefix h e = true /\ (cnt (hkey cs h) (map (hkey cs) hs) <= 1 -> e = h))
            hs (rename_duplicate_headers cs pre post hs).
  Proof. rewrite rename_duplicate_headers_scheme. apply scheme_from_prefix. Qed.
End Scheme.
