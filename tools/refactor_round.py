#!/usr/bin/env python3
"""Round-6 material: behaviour-preserving refactorings written by sub-agents (their own differential tests attached).
usage: tools/refactor_round.py ingest <worktree prefix>   -> seeded/harmless/R<Cxx>-<k>/ (patch.diff, notes.txt, meta.json)
       tools/refactor_round.py run [ids...]                -> runs, for each refactoring, the quick check of every property whose
                                                              relevant source files it touches (tools/try_patch.sh); prints one line each"""
import os, sys, json, re, glob, shutil, subprocess
V = os.path.dirname(os.path.dirname(os.path.abspath(__file__)))
FP = json.load(open(os.path.join(V, 'tools', 'file_props.json')))


def touched(patch):
    return re.findall(r'^diff --git a/(\S+) ', open(patch).read(), re.M)


def ingest(prefix):
    for p in ['C%02d' % i for i in range(1, 21)]:
        for k in (1, 2):
            src = '%s%s/OUT/change%d' % (prefix, p, k)
            if not (os.path.exists(os.path.join(src, 'patch.diff')) and os.path.exists(os.path.join(src, 'notes.txt')) and os.path.exists(os.path.join(src, 'actual.txt'))):
                continue
            dst = os.path.join(V, 'seeded', 'harmless', 'R%s-%d' % (p, k))
            os.makedirs(dst, exist_ok=True)
            for fn in ('patch.diff', 'notes.txt', 'difftest.py'):
                if os.path.exists(os.path.join(src, fn)):
                    shutil.copy(os.path.join(src, fn), os.path.join(dst, fn))
            files = touched(os.path.join(dst, 'patch.diff'))
            checks = sorted(set([p] + [q for f in files for q in FP.get(f, [])]))
            same = None
            if os.path.exists(os.path.join(src, 'expected.txt')) and os.path.exists(os.path.join(src, 'actual.txt')):
                same = open(os.path.join(src, 'expected.txt'), 'rb').read() == open(os.path.join(src, 'actual.txt'), 'rb').read()
            json.dump({'id': 'R%s-%d' % (p, k), 'kind': 'behaviour-preserving refactoring written by a sub-agent for property %s' % p,
                       'files': files, 'checks': checks, 'agent_difftest_identical': same,
                       'what': (open(os.path.join(dst, 'notes.txt')).read()[:600] if os.path.exists(os.path.join(dst, 'notes.txt')) else '')},
                      open(os.path.join(dst, 'meta.json'), 'w'), indent=1)
            print(dst, checks, same)


def run(ids):
    dirs = sorted(glob.glob(os.path.join(V, 'seeded', 'harmless', 'RC*')))
    for d in dirs:
        rid = os.path.basename(d)
        if ids and rid not in ids:
            continue
        meta = json.load(open(os.path.join(d, 'meta.json')))
        res = {}
        for prop in meta['checks']:
            p = subprocess.run([os.path.join(V, 'tools', 'try_patch.sh'), os.path.join(d, 'patch.diff'), prop], stdout=subprocess.PIPE,
                               stderr=subprocess.STDOUT, text=True, env=dict(os.environ, SEED_REPLAY_DIR='/var/tmp/refactor_replays/%s_%s' % (rid, prop)))
            v = len(re.findall(r'^VIOLATION', p.stdout, re.M))
            res[prop] = {'rc': p.returncode, 'violations': v, 'summary': p.stdout.strip().splitlines()[-1][:200] if p.stdout.strip() else ''}
            print(rid, prop, 'rc=%d violations=%d' % (p.returncode, v), '::', res[prop]['summary'][:110], flush=True)
        meta['result'] = res
        meta['silent'] = all(r['rc'] == 0 and r['violations'] == 0 for r in res.values())
        json.dump(meta, open(os.path.join(d, 'meta.json'), 'w'), indent=1)


if __name__ == '__main__':
    if sys.argv[1] == 'ingest':
        ingest(sys.argv[2])
    else:
        run(sys.argv[2:])
