From Coq Require Import List ZArith Bool Permutation Lia.
From DF Require Import Base.Str Base.Str_proofs Base.Value IO.RowCells.
Import ListNotations.

Lemma rget_not_in r k : ~ In k (rkeys r) -> rget r k = None.
Proof.
  induction r as [|[k' v] r IH]; intros Hn; cbn [rget]; [reflexivity|].
  destruct (str_eqb k k') eqn:E.
  - apply str_eqb_eq in E. subst. exfalso. apply Hn. left. reflexivity.
  - apply IH. intros Hin. apply Hn. right. exact Hin.
Qed.

Lemma rget_in r k v : NoDup (rkeys r) -> In (k, v) r -> rget r k = Some v.
Proof.
  induction r as [|[k' v'] r IH]; intros Hnd Hin; [destruct Hin|].
  cbn [rkeys map fst] in Hnd. inversion Hnd as [|a l Ha Hl]; subst.
  cbn [rget]. destruct Hin as [He|Hin].
  - inversion He; subst. rewrite str_eqb_refl. reflexivity.
  - destruct (str_eqb k k') eqn:E.
    + apply str_eqb_eq in E. subst. exfalso. apply Ha. change (In k' (rkeys r)). unfold rkeys.
      apply in_map_iff. exists (k', v). split; [reflexivity | exact Hin].
    + apply IH; [exact Hl | exact Hin].
Qed.

(* looking a name up does not depend on the order of the row's keys *)
Theorem rget_perm r r' k : NoDup (rkeys r) -> Permutation r r' -> rget r k = rget r' k.
Proof.
  intros Hnd Hp.
  assert (NoDup (rkeys r')) as Hnd'.
  { unfold rkeys in *. eapply Permutation_NoDup; [apply Permutation_map; exact Hp | exact Hnd]. }
  destruct (rget r k) as [v|] eqn:E.
  - assert (In (k, v) r) as Hin.
    { clear Hnd Hp Hnd'. induction r as [|[k' v'] r IH]; cbn [rget] in E; [discriminate|].
      destruct (str_eqb k k') eqn:Ek.
      - apply str_eqb_eq in Ek. subst. inversion E; subst. left. reflexivity.
      - right. apply IH. exact E. }
    symmetry. apply rget_in; [exact Hnd' | eapply Permutation_in; [exact Hp | exact Hin]].
  - destruct (rget r' k) as [v'|] eqn:E'; [|reflexivity].
    assert (In (k, v') r') as Hin.
    { clear Hnd Hp Hnd' E. induction r' as [|[k' v''] r' IH]; cbn [rget] in E'; [discriminate|].
      destruct (str_eqb k k') eqn:Ek.
      - apply str_eqb_eq in Ek. subst. inversion E'; subst. left. reflexivity.
      - right. apply IH. exact E'. }
    apply Permutation_sym in Hp.
    rewrite (rget_in r k v' Hnd (Permutation_in _ Hp Hin)) in E. discriminate.
Qed.

(* so the cells written under a header are the same for every order of the row's keys ... *)
Theorem row_cells_perm headers r r' :
  NoDup (rkeys r) -> Permutation r r' -> row_cells headers r = row_cells headers r'.
Proof.
  intros Hnd Hp. unfold row_cells. apply map_ext. intros k. unfold rget0.
  rewrite (rget_perm r r' k Hnd Hp). reflexivity.
Qed.

(* ... and for a row whose keys are in header order they are the row's values *)
Theorem row_cells_in_order r : NoDup (rkeys r) -> row_cells (rkeys r) r = row_values r.
Proof.
  intros Hnd. unfold row_cells, row_values, rkeys. rewrite map_map.
  apply map_ext_in. intros [k v] Hin. cbn [fst snd]. unfold rget0.
  rewrite (rget_in r k v Hnd Hin). reflexivity.
Qed.

Theorem csv_records_perm headers rows rows' :
  Forall2 (fun r r' => NoDup (rkeys r) /\ Permutation r r') rows rows' ->
  csv_records headers rows = csv_records headers rows'.
Proof.
  intros H. unfold csv_records. f_equal.
  induction H as [|r r' rs rs' [Hnd Hp] _ IH]; cbn [map]; [reflexivity|].
  rewrite (row_cells_perm headers r r' Hnd Hp), IH. reflexivity.
Qed.

(* writing the row's values as they come is not that: two rows that are the same dict give different lines *)
Theorem positional_cells_refuted :
  exists headers r r', NoDup (rkeys r) /\ Permutation r r' /\ row_values r = row_cells headers r /\ row_values r' <> row_cells headers r'.
Proof.
  exists [[97]; [98]], [([97], VInt 1); ([98], VInt 2)], [([98], VInt 2); ([97], VInt 1)].
  split; [|split; [|split]].
  - cbv. constructor; [intros [H|[]]; discriminate | constructor; [intros [] | constructor]].
  - apply perm_swap.
  - reflexivity.
  - cbv. discriminate.
Qed.
