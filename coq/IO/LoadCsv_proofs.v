(* load of a well-formed delimited file, file level: the CSV text of a table (header record, then one
   record per row, every record as wide as the header) is read back as one row per data line, in file
   order, keyed by the header, every cell holding the written text. *)
From Coq Require Import List ZArith Bool Lia.
From DF Require Import Base.Str Base.Value Base.ListX Proc.RowOps IO.Csv IO.Csv_proofs.
Import ListNotations.
Open Scope Z_scope.

(* rows of a delimited text under given field names (the header after de-duplication) *)
Definition load_csv (fields : list str) (text : str) : res (list row) :=
  match read_csv text with
  | Ok (_ :: recs) => Ok (map (fun rc => combine fields (map VStr rc)) recs)
  | Ok [] => Ok []
  | Err c => Err c
  end.

Theorem load_csv_written hdr recs :
  load_csv hdr (write_csv (hdr :: recs)) = Ok (map (fun rc => combine hdr (map VStr rc)) recs).
Proof. unfold load_csv. rewrite csv_roundtrip. reflexivity. Qed.

Lemma combine_keys (hdr : list str) (vals : list value) : length vals = length hdr -> map fst (combine hdr vals) = hdr.
Proof.
  revert vals. induction hdr as [|h hdr IH]; intros [|v vals] L; cbn in *; try reflexivity; try discriminate.
  f_equal. apply IH. lia.
Qed.

Lemma combine_nth (hdr : list str) (cells : list str) i h c :
  nth_error hdr i = Some h -> nth_error cells i = Some c ->
  nth_error (combine hdr (map VStr cells)) i = Some (h, VStr c).
Proof.
  revert cells i. induction hdr as [|h0 hdr IH]; intros [|c0 cells] [|i] H1 H2; cbn in *; try discriminate.
  - injection H1 as ->. injection H2 as ->. reflexivity.
  - apply IH; assumption.
Qed.

(* one row per data line, in file order; keys are the header; the i-th cell is the written text *)
Theorem load_csv_faithful hdr recs rows :
  (forall rc, In rc recs -> length rc = length hdr) ->
  load_csv hdr (write_csv (hdr :: recs)) = Ok rows ->
  length rows = length recs /\
  (forall k rc, nth_error recs k = Some rc ->
     exists r, nth_error rows k = Some r /\ map fst r = hdr /\
       forall i h c, nth_error hdr i = Some h -> nth_error rc i = Some c -> nth_error r i = Some (h, VStr c)).
Proof.
  intros W H. rewrite load_csv_written in H. injection H as <-. split; [apply map_length|].
  intros k rc N. exists (combine hdr (map VStr rc)). split; [apply (map_nth_error (fun rc0 => combine hdr (map VStr rc0)) k recs N)|]. split.
  - apply combine_keys. rewrite map_length. apply W. eapply nth_error_In. exact N.
  - intros i h c H1 H2. apply combine_nth; assumption.
Qed.
