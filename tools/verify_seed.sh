#!/bin/bash
# usage: tools/verify_seed.sh <dir with patch.diff demo.py>  -> prints a JSON line with what was confirmed
# Confirms on a scratch worktree of /repo HEAD: demo passes without the patch, fails with it, test suite still passes with it.
D=$(realpath "$1")
W=$(mktemp -d /tmp/vseed_XXXXXX); rmdir "$W"
git -C /repo worktree add -q --detach "$W" HEAD || exit 2
cd "$W"
run_demo() { PYTHONPATH="$W" PYTHONHASHSEED=0 timeout 600 /venv/bin/python "$D/demo.py" > "$W/.demo.log" 2>&1; echo $?; }
CLEAN=$(run_demo)
if ! git apply --check "$D/patch.diff" 2>/dev/null; then
  echo "{\"dir\": \"$D\", \"applies\": false}"; cd /; git -C /repo worktree remove --force "$W"; exit 0
fi
git apply "$D/patch.diff"
MUT=$(run_demo)
PYTHONPATH="$W" timeout 1500 /venv/bin/python -m pytest -q -p no:cacheprovider --timeout=900 --continue-on-collection-errors \
  --deselect tests/test_cli.py::test_init_remote --deselect tests/test_examples.py::test_example_3 \
  --deselect tests/test_examples.py::test_example_4 --deselect tests/test_examples.py::test_example_5 > "$W/.suite.log" 2>&1
SUITE=$(tail -1 "$W/.suite.log" | tr -d '"')
echo "{\"dir\": \"$D\", \"applies\": true, \"demo_clean_rc\": $CLEAN, \"demo_patched_rc\": $MUT, \"suite\": \"$SUITE\"}"
cd /; git -C /repo worktree remove --force "$W"
