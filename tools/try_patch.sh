#!/bin/bash
# usage: tools/try_patch.sh <patch.diff> <Cxx> [tier]
# Runs a check against a scratch copy of /repo with the patch applied, from a scratch copy of /verif
# (so that neither /repo, nor /verif's generated constants, build outputs and evidence are touched).
set -e
P=$(realpath "$1"); PROP=$2; TIER=${3:-quick}
HERE=$(cd "$(dirname "$0")/.." && pwd)
D=$(mktemp -d /var/tmp/mrepo_XXXXXX)
V=$(mktemp -d /var/tmp/vcopy_XXXXXX)
trap 'rm -rf "$D" "$V"' EXIT
cp -r /repo/dataflows "$D/"; [ -d /repo/data ] && ln -s /repo/data "$D/data"
(cd "$D" && patch -p1 -s < "$P") || { echo "PATCH DOES NOT APPLY"; exit 2; }
rsync -a --exclude .git --exclude replays --exclude seeded --exclude corpus_tmp "$HERE/" "$V/"
cd "$V"
set +e
VERIF_REPO="$D" ./check "$PROP" --tier "$TIER" 2>&1 | grep -v "conda" | tail -6
RC=${PIPESTATUS[0]}
# (for tools/seed_matrix.py and tools/build_corpus.py) keep the replay files of this run
if [ -n "$SEED_REPLAY_DIR" ] && ls "$V"/replays/"$PROP"/*.json >/dev/null 2>&1; then
  rm -rf "$SEED_REPLAY_DIR"; mkdir -p "$SEED_REPLAY_DIR"; cp "$V"/replays/"$PROP"/*.json "$SEED_REPLAY_DIR"/
fi
exit $RC
