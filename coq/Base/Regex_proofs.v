(* The executable matcher decides the language of the expression: fullmatch r s = true iff s is in
   the language of r, given as the usual inductive relation.  So "a string selects the names it
   fully matches as a regular expression" is stated against the mathematical meaning of a regular
   expression, not against the matcher's own code. *)
From Coq Require Import List ZArith Bool Lia.
From DF Require Import Base.Str Base.Regex.
Import ListNotations.
Open Scope Z_scope.

Inductive Matches : re -> str -> Prop :=
| MEps : Matches REps []
| MLeaf r c : chr_ok r c = true -> Matches r [c]          (* RChr, RAny, RClass: one admissible character *)
| MSeq a b s1 s2 : Matches a s1 -> Matches b s2 -> Matches (RSeq a b) (s1 ++ s2)
| MAltL a b s : Matches a s -> Matches (RAlt a b) s
| MAltR a b s : Matches b s -> Matches (RAlt a b) s
| MStar0 a : Matches (RStar a) []
| MStarS a s1 s2 : Matches a s1 -> Matches (RStar a) s2 -> Matches (RStar a) (s1 ++ s2)
| MPlus a s1 s2 : Matches a s1 -> Matches (RStar a) s2 -> Matches (RPlus a) (s1 ++ s2)
| MOpt0 a : Matches (ROpt a) []
| MOptS a s : Matches a s -> Matches (ROpt a) s.

(* ---------- the iteration used for star and plus ---------- *)
Local Open Scope nat_scope.

Section ITER.
  Variable f : str -> list str.
  Fixpoint star_iter (n : nat) (s : str) : list str :=
    match n with
    | O => [s]
    | S n' => s :: flat_map (fun t => if Nat.ltb (length t) (length s) then star_iter n' t else []) (f s)
    end.
End ITER.

Lemma mres_star a s : mres (RStar a) s = star_iter (mres a) (length s) s.
Proof. reflexivity. Qed.

Lemma mres_plus a s : mres (RPlus a) s = flat_map (fun s1 => star_iter (mres a) (length s1) s1) (mres a s).
Proof. reflexivity. Qed.

(* every star match splits into non-empty iterations *)
Lemma star_nf a p : Matches (RStar a) p ->
  p = [] \/ exists p1 p2, p1 <> [] /\ p = p1 ++ p2 /\ Matches a p1 /\ Matches (RStar a) p2.
Proof.
  intros H. remember (RStar a) as r eqn:R. revert a R.
  induction H as [|r c C|a b s1 s2 _ _ _ _|a b s _ _|a b s _ _|a|a s1 s2 H1 _ H2 IH2|a s1 s2 _ _ _ _|a|a s _ _];
    intros a0 R; try discriminate.
  - subst r. discriminate C.
  - left. reflexivity.
  - injection R as ->. destruct s1 as [|c s1].
    + simpl. apply IH2. reflexivity.
    + right. exists (c :: s1), s2. repeat split; try assumption. discriminate.
Qed.

Section STAR.
  Variable a : re.
  Variable f : str -> list str.
  Hypothesis f_sound : forall s t, In t (f s) -> exists p, s = p ++ t /\ Matches a p.
  Hypothesis f_complete : forall p t, Matches a p -> In t (f (p ++ t)).

  Lemma star_iter_sound : forall n s t, In t (star_iter f n s) -> exists p, s = p ++ t /\ Matches (RStar a) p.
  Proof.
    induction n as [|n IH]; intros s t H; simpl in H.
    - destruct H as [<-|[]]. exists []. split; [reflexivity|constructor].
    - destruct H as [<-|H]; [exists []; split; [reflexivity|constructor]|].
      apply in_flat_map in H as (t1 & H1 & H2).
      destruct (Nat.ltb (length t1) (length s)); [|destruct H2].
      destruct (f_sound s t1 H1) as (p1 & E1 & M1). destruct (IH t1 t H2) as (p2 & E2 & M2).
      exists (p1 ++ p2). split; [rewrite <- app_assoc, <- E2; exact E1|constructor; assumption].
  Qed.

  Lemma star_iter_complete : forall n p t, Matches (RStar a) p -> length (p ++ t) <= n -> In t (star_iter f n (p ++ t)).
  Proof.
    induction n as [|n IH]; intros p t M L.
    - destruct p as [|c p]; [simpl; left; reflexivity|simpl in L; lia].
    - destruct (star_nf a p M) as [->|(p1 & p2 & NE & -> & M1 & M2)]; [simpl; left; reflexivity|].
      simpl. right. apply in_flat_map. exists (p2 ++ t). split.
      + rewrite <- app_assoc. apply f_complete. exact M1.
      + assert (LT : length (p2 ++ t) < length ((p1 ++ p2) ++ t)).
        { rewrite <- app_assoc, (app_length p1). destruct p1; [congruence|simpl; lia]. }
        apply Nat.ltb_lt in LT as LT'. rewrite LT'. apply IH; [exact M2|]. lia.
  Qed.
End STAR.

(* ---------- the matcher computes exactly the residuals of the language ---------- *)
Lemma leaf_mres r s t : (match r with RChr _ | RAny | RClass _ _ => True | _ => False end) ->
  (In t (mres r s) <-> exists c, s = c :: t /\ chr_ok r c = true).
Proof.
  intros L. assert (E : mres r s = match s with c :: t' => if chr_ok r c then [t'] else [] | [] => [] end)
    by (destruct r; try contradiction; reflexivity).
  rewrite E. destruct s as [|c t'].
  - split; [intros []|intros (c & X & _); discriminate].
  - destruct (chr_ok r c) eqn:C.
    + split; [intros [<-|[]]; exists c; auto|intros (c' & X & _); injection X as -> ->; left; reflexivity].
    + split; [intros []|intros (c' & X & C'); injection X as -> ->; congruence].
Qed.

Lemma chr_ok_leaf r c : chr_ok r c = true -> match r with RChr _ | RAny | RClass _ _ => True | _ => False end.
Proof. destruct r; simpl; intros H; try discriminate; exact I. Qed.

Theorem mres_spec : forall r s t, In t (mres r s) <-> exists p, s = p ++ t /\ Matches r p.
Proof.
  induction r as [|x| |neg rs|a IHa b IHb|a IHa b IHb|a IHa|a IHa|a IHa]; intros s t.
  - (* eps *) simpl. split.
    + intros [<-|[]]. exists []. split; [reflexivity|constructor].
    + intros (p & -> & M). inversion M; subst; [left; reflexivity|discriminate].
  - rewrite leaf_mres by exact I. split.
    + intros (c & -> & C). exists [c]. split; [reflexivity|constructor; exact C].
    + intros (p & -> & M). inversion M; subst. exists c. split; [reflexivity|assumption].
  - rewrite leaf_mres by exact I. split.
    + intros (c & -> & C). exists [c]. split; [reflexivity|constructor; exact C].
    + intros (p & -> & M). inversion M; subst. exists c. split; [reflexivity|assumption].
  - rewrite leaf_mres by exact I. split.
    + intros (c & -> & C). exists [c]. split; [reflexivity|constructor; exact C].
    + intros (p & -> & M). inversion M; subst. exists c. split; [reflexivity|assumption].
  - (* seq *) simpl. rewrite in_flat_map. split.
    + intros (t1 & H1 & H2). apply IHa in H1 as (p1 & -> & M1). apply IHb in H2 as (p2 & -> & M2).
      exists (p1 ++ p2). split; [apply app_assoc|constructor; assumption].
    + intros (p & -> & M). inversion M; subst; [discriminate|].
      exists (s2 ++ t). split; [apply IHa; exists s1; split; [symmetry; apply app_assoc|assumption]|].
      apply IHb. exists s2. split; [reflexivity|assumption].
  - (* alt *) simpl. rewrite in_app_iff, IHa, IHb. split.
    + intros [(p & E & M)|(p & E & M)]; exists p; (split; [exact E|]); [apply MAltL|apply MAltR]; exact M.
    + intros (p & E & M). inversion M; subst; [discriminate|left|right]; exists p; auto.
  - (* star *) rewrite mres_star. split.
    + apply star_iter_sound. intros s0 t0 H. apply IHa. exact H.
    + intros (p & -> & M). apply (star_iter_complete a); [|exact M|lia].
      intros p0 t0 M0. apply IHa. exists p0. auto.
  - (* plus *) rewrite mres_plus, in_flat_map. split.
    + intros (t1 & H1 & H2). apply IHa in H1 as (p1 & -> & M1).
      apply (star_iter_sound a (mres a)) in H2 as (p2 & -> & M2); [|intros s0 t0 H; apply IHa; exact H].
      exists (p1 ++ p2). split; [apply app_assoc|constructor; assumption].
    + intros (p & -> & M). inversion M; subst; [discriminate|].
      exists (s2 ++ t). split; [apply IHa; exists s1; split; [symmetry; apply app_assoc|assumption]|].
      apply (star_iter_complete a); [|assumption|lia]. intros p0 t0 M0. apply IHa. exists p0. auto.
  - (* opt *) simpl. rewrite IHa. split.
    + intros [<-|(p & E & M)]; [exists []; split; [reflexivity|constructor]|exists p; split; [exact E|apply MOptS; exact M]].
    + intros (p & -> & M). inversion M; subst; [discriminate|left; reflexivity|right; exists p; auto].
Qed.

Lemma existsb_is_nil (l : list str) : existsb is_nil l = true <-> In [] l.
Proof.
  rewrite existsb_exists. split.
  - intros (x & H & N). destruct x; [exact H|discriminate].
  - intros H. exists []. auto.
Qed.

Theorem fullmatch_spec r s : fullmatch r s = true <-> Matches r s.
Proof.
  unfold fullmatch. rewrite existsb_is_nil, mres_spec. split.
  - intros (p & E & M). rewrite app_nil_r in E. subst. exact M.
  - intros M. exists s. split; [symmetry; apply app_nil_r|exact M].
Qed.

Theorem prefixmatch_spec r s : prefixmatch r s = true <-> exists p t, s = p ++ t /\ Matches r p.
Proof.
  unfold prefixmatch. split.
  - intros H. destruct (mres r s) as [|t l] eqn:E; [discriminate|].
    assert (X : In t (mres r s)) by (rewrite E; left; reflexivity).
    apply mres_spec in X as (p & E' & M). exists p, t. auto.
  - intros (p & t & E & M). assert (X : In t (mres r s)) by (apply mres_spec; exists p; auto).
    destruct (mres r s); [destruct X|reflexivity].
Qed.
