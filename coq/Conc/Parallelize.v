(* parallelize (dataflows/processors/parallelize.py): producer thread, N worker
   processes, fetcher thread and the collecting generator, communicating through
   three FIFO queues.  One transition per queue operation. *)
From Coq Require Import List ZArith Bool Lia.
Import ListNotations.

(* a row: identity, whether the predicate selects it, whether row_func has been applied *)
Record item := { iid : nat; isel : bool; idone : bool }.

Definition process (x : item) : item := {| iid := iid x; isel := isel x; idone := true |}.

Inductive wst :=
| WIdle                    (* about to q_in.get() *)
| WHold (x : item)         (* got a row; row_func applied at the put *)
| WEnd                     (* got the end marker; about to q_out.put(None) *)
| WDone.

Inductive fst_ :=
| FIdle (expected : nat)               (* about to q_out.get(), expected_nones *)
| FHold (expected : nat) (x : item)    (* got a row; about to q_internal.put(row) *)
| FLast                                (* got the last end marker; about to q_internal.put(None) *)
| FDone.

Record state := {
  p_rem : list item;              (* producer: rows not yet put *)
  p_marks : nat;                  (* producer: end markers still to put on q_in *)
  q_in : list (option item);
  workers : list wst;
  q_out : list (option item);
  fetcher : fst_;
  q_int : list (option item);
  delivered : list item;          (* yielded by the collector, in order *)
  c_done : bool                   (* collector saw the end marker *)
}.

Definition init (n : nat) (input : list item) : state :=
  {| p_rem := input; p_marks := n; q_in := []; workers := repeat WIdle n; q_out := [];
     fetcher := FIdle n; q_int := []; delivered := []; c_done := false |}.

Inductive label :=
| LProd              (* producer: next put (row to q_in / q_internal, or an end marker to q_in) *)
| LWGet (i : nat)    (* worker i: q_in.get() *)
| LWPut (i : nat)    (* worker i: q_out.put(row or None) *)
| LFGet              (* fetcher: q_out.get() *)
| LFPut              (* fetcher: q_internal.put(..) *)
| LCol.              (* collector: q_internal.get() *)

Fixpoint set_nth {A} (n : nat) (x : A) (l : list A) : list A :=
  match l, n with
  | [], _ => []
  | _ :: r, O => x :: r
  | y :: r, S n' => y :: set_nth n' x r
  end.

Definition upd_w (s : state) (i : nat) (w : wst) (qi : list (option item)) (qo : list (option item)) : state :=
  {| p_rem := p_rem s; p_marks := p_marks s; q_in := qi; workers := set_nth i w (workers s); q_out := qo;
     fetcher := fetcher s; q_int := q_int s; delivered := delivered s; c_done := c_done s |}.

Definition fire (s : state) (l : label) : option state :=
  match l with
  | LProd =>
      match p_rem s with
      | x :: rest =>
          if isel x
          then Some {| p_rem := rest; p_marks := p_marks s; q_in := q_in s ++ [Some x]; workers := workers s; q_out := q_out s;
                       fetcher := fetcher s; q_int := q_int s; delivered := delivered s; c_done := c_done s |}
          else Some {| p_rem := rest; p_marks := p_marks s; q_in := q_in s; workers := workers s; q_out := q_out s;
                       fetcher := fetcher s; q_int := q_int s ++ [Some x]; delivered := delivered s; c_done := c_done s |}
      | [] =>
          match p_marks s with
          | O => None
          | S m => Some {| p_rem := []; p_marks := m; q_in := q_in s ++ [None]; workers := workers s; q_out := q_out s;
                           fetcher := fetcher s; q_int := q_int s; delivered := delivered s; c_done := c_done s |}
          end
      end
  | LWGet i =>
      match nth_error (workers s) i, q_in s with
      | Some WIdle, Some x :: rest => Some (upd_w s i (WHold x) rest (q_out s))
      | Some WIdle, None :: rest => Some (upd_w s i WEnd rest (q_out s))
      | _, _ => None
      end
  | LWPut i =>
      match nth_error (workers s) i with
      | Some (WHold x) => Some (upd_w s i WIdle (q_in s) (q_out s ++ [Some (process x)]))
      | Some WEnd => Some (upd_w s i WDone (q_in s) (q_out s ++ [None]))
      | _ => None
      end
  | LFGet =>
      match fetcher s, q_out s with
      | FIdle e, Some x :: rest =>
          Some {| p_rem := p_rem s; p_marks := p_marks s; q_in := q_in s; workers := workers s; q_out := rest;
                  fetcher := FHold e x; q_int := q_int s; delivered := delivered s; c_done := c_done s |}
      | FIdle (S O), None :: rest =>
          Some {| p_rem := p_rem s; p_marks := p_marks s; q_in := q_in s; workers := workers s; q_out := rest;
                  fetcher := FLast; q_int := q_int s; delivered := delivered s; c_done := c_done s |}
      | FIdle (S (S e)), None :: rest =>
          Some {| p_rem := p_rem s; p_marks := p_marks s; q_in := q_in s; workers := workers s; q_out := rest;
                  fetcher := FIdle (S e); q_int := q_int s; delivered := delivered s; c_done := c_done s |}
      | _, _ => None
      end
  | LFPut =>
      match fetcher s with
      | FHold e x =>
          Some {| p_rem := p_rem s; p_marks := p_marks s; q_in := q_in s; workers := workers s; q_out := q_out s;
                  fetcher := FIdle e; q_int := q_int s ++ [Some x]; delivered := delivered s; c_done := c_done s |}
      | FLast =>
          Some {| p_rem := p_rem s; p_marks := p_marks s; q_in := q_in s; workers := workers s; q_out := q_out s;
                  fetcher := FDone; q_int := q_int s ++ [None]; delivered := delivered s; c_done := c_done s |}
      | _ => None
      end
  | LCol =>
      if c_done s then None else
      match q_int s with
      | Some x :: rest =>
          Some {| p_rem := p_rem s; p_marks := p_marks s; q_in := q_in s; workers := workers s; q_out := q_out s;
                  fetcher := fetcher s; q_int := rest; delivered := delivered s ++ [x]; c_done := false |}
      | None :: rest =>
          Some {| p_rem := p_rem s; p_marks := p_marks s; q_in := q_in s; workers := workers s; q_out := q_out s;
                  fetcher := fetcher s; q_int := rest; delivered := delivered s; c_done := true |}
      | [] => None
      end
  end.

Fixpoint run (s : state) (ls : list label) : option state :=
  match ls with
  | [] => Some s
  | l :: rest => match fire s l with Some s' => run s' rest | None => None end
  end.

(* all labels that could possibly be enabled in a state with n workers *)
Definition all_labels (n : nat) : list label :=
  [LProd; LFGet; LFPut; LCol] ++ map LWGet (seq 0 n) ++ map LWPut (seq 0 n).

Definition enabled (s : state) : list label :=
  filter (fun l => match fire s l with Some _ => true | None => false end) (all_labels (length (workers s))).

(* fork(): rows before the first selected row are yielded directly, in order *)
Fixpoint lazy_prefix (input : list item) : list item * list item :=
  match input with
  | [] => ([], [])
  | x :: rest => if isel x then ([], input) else let '(a, b) := lazy_prefix rest in (x :: a, b)
  end.

(* comparison helpers for case files *)
Definition item_eqb (a b : item) : bool := Nat.eqb (iid a) (iid b) && Bool.eqb (isel a) (isel b) && Bool.eqb (idone a) (idone b).
Fixpoint items_eqb (a b : list item) : bool :=
  match a, b with [], [] => true | x :: r, y :: r' => item_eqb x y && items_eqb r r' | _, _ => false end.
