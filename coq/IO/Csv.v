(* Python's csv writer (QUOTE_MINIMAL, doublequote, lineterminator CR LF) and
   reader (the _csv.c state machine) under the dialect dataflows records:
   delimiter comma, quotechar double-quote, doubleQuote, no escapechar, skipInitialSpace false. *)
From Coq Require Import List ZArith Bool Lia.
From DF Require Import Base.Str Base.Value.
Import ListNotations.
Open Scope Z_scope.

Definition DELIM : Z := 44.     (* , *)
Definition QUOTE : Z := 34.     (* double quote *)
Definition CR : Z := 13.
Definition LF : Z := 10.

(* ---------- writer ---------- *)
Definition special (c : Z) : bool := (c =? DELIM) || (c =? QUOTE) || (c =? CR) || (c =? LF).

Definition needs_quote (f : str) : bool := existsb special f.

Fixpoint escape (f : str) : str :=
  match f with
  | [] => []
  | c :: r => if c =? QUOTE then QUOTE :: QUOTE :: escape r else c :: escape r
  end.

Definition write_field (f : str) : str :=
  if needs_quote f then QUOTE :: escape f ++ [QUOTE] else f.

Fixpoint join_fields (fs : list str) : str :=
  match fs with
  | [] => []
  | [f] => write_field f
  | f :: r => write_field f ++ DELIM :: join_fields r
  end.

(* a record consisting of one empty field is written as two quote characters *)
Definition write_record (fs : list str) : str :=
  match fs with
  | [[]] => [QUOTE; QUOTE; CR; LF]
  | _ => join_fields fs ++ [CR; LF]
  end.

Definition write_csv (records : list (list str)) : str := flat_map write_record records.

(* ---------- reader ---------- *)
Inductive tok := Chr (c : Z) | EOL.

(* physical lines (universal newlines, line ends kept); EOL is fed after every line *)
Fixpoint tokens (t : str) : list tok :=
  match t with
  | [] => []
  | c :: r =>
      if c =? LF then Chr c :: EOL :: tokens r
      else if c =? CR then
             match r with
             | c2 :: _ => if c2 =? LF then Chr c :: tokens r else Chr c :: EOL :: tokens r
             | [] => [Chr c; EOL]
             end
      else match r with
           | [] => [Chr c; EOL]
           | _ => Chr c :: tokens r
           end
  end.

Inductive rstate := StartRecord | StartField | InField | InQuoted | QuoteInQuoted | EatCRNL.

Record rd := {
  st : rstate;
  field : str;                 (* reversed characters of the current field *)
  fields : list str;           (* reversed list of finished fields of the current record *)
  recs : list (list str);      (* reversed list of finished records *)
  err : bool
}.

Definition save_field (s : rd) : rd :=
  {| st := st s; field := []; fields := rev (field s) :: fields s; recs := recs s; err := err s |}.
Definition add_char (c : Z) (s : rd) : rd :=
  {| st := st s; field := c :: field s; fields := fields s; recs := recs s; err := err s |}.
Definition set_st (x : rstate) (s : rd) : rd :=
  {| st := x; field := field s; fields := fields s; recs := recs s; err := err s |}.
Definition end_record (s : rd) : rd :=
  {| st := StartRecord; field := []; fields := []; recs := rev (fields s) :: recs s; err := err s |}.
Definition fail (s : rd) : rd :=
  {| st := st s; field := field s; fields := fields s; recs := recs s; err := true |}.

Definition is_nl (c : Z) : bool := (c =? LF) || (c =? CR).

(* START_FIELD behaviour, shared by START_RECORD's fall-through *)
Definition start_field (t : tok) (s : rd) : rd :=
  match t with
  | EOL => end_record (save_field s)                       (* save empty field, back to START_RECORD *)
  | Chr c =>
      if is_nl c then set_st EatCRNL (save_field s)
      else if c =? QUOTE then set_st InQuoted s
      else if c =? DELIM then set_st StartField (save_field s)
      else set_st InField (add_char c s)
  end.

Definition step (s : rd) (t : tok) : rd :=
  if err s then s else
  match st s with
  | StartRecord =>
      match t with
      | EOL => end_record s                                 (* empty line: [] *)
      | Chr c => if is_nl c then set_st EatCRNL s else start_field t s
      end
  | StartField => start_field t s
  | InField =>
      match t with
      | EOL => end_record (save_field s)
      | Chr c =>
          if is_nl c then set_st EatCRNL (save_field s)
          else if c =? DELIM then set_st StartField (save_field s)
          else add_char c s
      end
  | InQuoted =>
      match t with
      | EOL => s
      | Chr c => if c =? QUOTE then set_st QuoteInQuoted s else add_char c s
      end
  | QuoteInQuoted =>
      match t with
      | EOL => end_record (save_field s)
      | Chr c =>
          if c =? QUOTE then set_st InQuoted (add_char c s)
          else if c =? DELIM then set_st StartField (save_field s)
          else if is_nl c then set_st EatCRNL (save_field s)
          else set_st InField (add_char c s)                (* not strict: keep going *)
      end
  | EatCRNL =>
      match t with
      | EOL => end_record s
      | Chr c => if is_nl c then s else fail s              (* new-line character seen in unquoted field *)
      end
  end.

Definition rd0 : rd := {| st := StartRecord; field := []; fields := []; recs := []; err := false |}.

(* at end of input inside a quoted field the reader returns what it has (non-strict) *)
Definition finish (s : rd) : res (list (list str)) :=
  if err s then Err 4
  else match st s with
       | StartRecord => Ok (rev (recs s))
       | _ => Ok (rev (recs (end_record (save_field s))))
       end.

Definition read_csv (t : str) : res (list (list str)) := finish (fold_left step (tokens t) rd0).
