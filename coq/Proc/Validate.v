(* schema_validator (dataflows/base/schema_validator.py) and its users set_type /
   validate.  Table Schema's cast is a parameter: [cast f v = Some v'] when
   Field(f).cast_value(v) returns v', [None] when it raises CastError. *)
From Coq Require Import List ZArith Bool Lia.
From DF Require Import Base.Str Base.Value Proc.RowOps.
Import ListNotations.
Open Scope Z_scope.

Inductive policy :=
| PRaise                                   (* raise_exception *)
| PDrop | PIgnore | PClear
| PCustom (keep : str -> row -> Z -> bool). (* custom handler: its truthiness; called once per offending field *)

Record vstate := {
  vs_out : list row;                 (* rows yielded so far (in order) *)
  vs_calls : list (str * Z);         (* handler invocations (field, row index), in order *)
  vs_raised : option (Z * str * row) (* ValidationError: row index, field, row as passed *)
}.

Section Validator.
  Variable cast : str -> value -> option value.

  (* the inner loop over the checked fields of one row;
     returns (row, okay, calls) or the raise *)
  Fixpoint check_fields (pol : policy) (fields : list str) (i : Z) (r : row) (okay : bool)
           (calls : list (str * Z)) : (row * bool * list (str * Z)) + (str * row * list (str * Z)) :=
    match fields with
    | [] => inl (r, okay, calls)
    | f :: fs =>
        match cast f (rget0 r f) with
        | Some v => check_fields pol fs i (rset r f v) okay calls
        | None =>
            match pol with
            | PRaise => inr (f, r, calls ++ [(f, i)])
            | PDrop => check_fields pol fs i r false (calls ++ [(f, i)])
            | PIgnore => check_fields pol fs i r okay (calls ++ [(f, i)])
            | PClear => check_fields pol fs i (rset r f VNull) okay (calls ++ [(f, i)])
            | PCustom keep => check_fields pol fs i r (okay && keep f r i) (calls ++ [(f, i)])
            end
        end
    end.

  Fixpoint validator (pol : policy) (fields : list str) (i : Z) (rows : list row) (st : vstate) : vstate :=
    match rows with
    | [] => st
    | r :: rs =>
        match check_fields pol fields i r true (vs_calls st) with
        | inr (f, r', calls) => {| vs_out := vs_out st; vs_calls := calls; vs_raised := Some (i, f, r') |}
        | inl (r', okay, calls) =>
            validator pol fields (i + 1) rs
                      {| vs_out := if okay then vs_out st ++ [r'] else vs_out st; vs_calls := calls; vs_raised := None |}
        end
    end.

  Definition run_validator pol fields rows :=
    validator pol fields 0 rows {| vs_out := []; vs_calls := []; vs_raised := None |}.

  (* ---- specification-level notions ---- *)
  Definition is_bad (r : row) (f : str) : bool :=
    match cast f (rget0 r f) with Some _ => false | None => true end.
  Definition bad_fields (fields : list str) (r : row) : list str := filter (is_bad r) fields.

  (* every castable checked value replaced by its cast; the others left alone *)
  Fixpoint cast_row (fields : list str) (r : row) : row :=
    match fields with
    | [] => r
    | f :: fs => match cast f (rget0 r f) with
                 | Some v => cast_row fs (rset r f v)
                 | None => cast_row fs r
                 end
    end.

  (* ... and the offending ones nulled *)
  Fixpoint clear_row (fields : list str) (r : row) : row :=
    match fields with
    | [] => r
    | f :: fs => match cast f (rget0 r f) with
                 | Some v => clear_row fs (rset r f v)
                 | None => clear_row fs (rset r f VNull)
                 end
    end.
End Validator.

(* set_type's transformer: row[f] = transform(row.get(f)) for the selected fields, before casting *)
Fixpoint transform_row (tr : str -> value -> value) (fields : list str) (r : row) : row :=
  match fields with
  | [] => r
  | f :: fs => transform_row tr fs (rset r f (tr f (rget0 r f)))
  end.

(* set_type: which fields get the new options (anchored name pattern, decided by re) *)
Definition set_type_fields (m : str -> bool) (names : list str) : list str := filter m names.

(* table-backed cast for case files *)
Fixpoint tbl_cast (t : list (str * value * option value)) (f : str) (v : value) : option value :=
  match t with
  | [] => None
  | (f', v', o) :: t' => if str_eqb f f' && veqb v v' then o else tbl_cast t' f v
  end.

Definition calls_eqb (a b : list (str * Z)) : bool :=
  list_eqb (fun x y => str_eqb (fst x) (fst y) && (snd x =? snd y)) a b.
