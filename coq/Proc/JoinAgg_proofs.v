(* Closed forms of the remaining join aggregates: set, counters and median. *)
From Coq Require Import List ZArith Bool Lia Sorted Permutation.
From DF Require Import Base.Str Base.Str_proofs Base.ListX Base.Value Base.Value_proofs Base.PyEq_proofs
     Proc.RowOps Proc.Fields Proc.Sort Proc.Sort_proofs Proc.Join Proc.Join_proofs.
Import ListNotations.
Open Scope Z_scope.

(* ---------- set: the distinct values ---------- *)
Lemma vmem_In v l : vmem v l = true <-> In v l.
Proof.
  unfold vmem. rewrite existsb_exists. split.
  - intros (x & H & E). apply veqb_eq in E. subst. exact H.
  - intros H. exists v. split; [exact H|apply veqb_refl].
Qed.

Lemma fold_set vals : forall l, NoDup l ->
  exists l', agg_fold GSet (SSet l) vals = Ok (SSet l') /\ NoDup l' /\ (forall x, In x l' <-> In x l \/ In x vals).
Proof.
  induction vals as [|v vs IH]; intros l ND; simpl.
  - exists l. split; [reflexivity|]. split; [exact ND|]. intros x. tauto.
  - destruct (vmem v l) eqn:M.
    + destruct (IH l ND) as (l' & E & ND' & S). exists l'. split; [exact E|]. split; [exact ND'|].
      intros x. rewrite S. apply vmem_In in M. split; [tauto|]. intros [H|[<-|H]]; auto.
    + assert (NI : ~ In v l) by (intros H; apply vmem_In in H; congruence).
      assert (ND2 : NoDup (l ++ [v])).
      { apply NoDup_app_intro; [exact ND|constructor; [intros []|constructor]|].
        intros x H1 [<-|[]]. exact (NI H1). }
      destruct (IH (l ++ [v]) ND2) as (l' & E & ND' & S). exists l'. split; [exact E|]. split; [exact ND'|].
      intros x. rewrite S, in_app_iff. simpl. tauto.
Qed.

Theorem set_is_the_set_of_values v vals :
  exists l, agg_fold GSet SNone (v :: vals) = Ok (SSet l) /\ NoDup l /\ (forall x, In x l <-> In x (v :: vals)).
Proof.
  simpl. destruct (fold_set vals [v]) as (l & E & ND & S); [constructor; [intros []|constructor]|].
  exists l. split; [exact E|]. split; [exact ND|]. intros x. rewrite S. simpl. tauto.
Qed.

(* ---------- counters: one entry per distinct value with its number of occurrences ---------- *)
Definition vcount (x : value) (vals : list value) : Z := Z.of_nat (length (filter (veqb x) vals)).

Definition counts_ok (l : list (value * Z)) (vals : list value) : Prop :=
  NoDup (map fst l) /\ (forall x, In x (map fst l) <-> In x vals) /\ (forall x n, In (x, n) l -> n = vcount x vals).

Lemma counter_add_keys v l : forall x, In x (map fst (counter_add v l)) <-> In x (map fst l) \/ x = v.
Proof.
  induction l as [|[y n] r IH]; intros x; simpl.
  - split; [intros [<-|[]]; auto|intros [[]| ->]; auto].
  - destruct (veqb v y) eqn:E; simpl.
    + apply veqb_eq in E. subst y. split; [tauto|]. intros [[H|H]| ->]; auto.
    + rewrite IH. tauto.
Qed.

Lemma counter_add_nodup v l : NoDup (map fst l) -> NoDup (map fst (counter_add v l)).
Proof.
  induction l as [|[y n] r IH]; simpl; intros ND.
  - constructor; [intros []|constructor].
  - inversion ND as [|? ? NI ND']; subst. destruct (veqb v y) eqn:E; simpl.
    + constructor; assumption.
    + constructor; [|apply IH; exact ND']. rewrite counter_add_keys. intros [H| ->]; [exact (NI H)|].
      rewrite veqb_refl in E. discriminate.
Qed.

Lemma counter_add_entry v l : NoDup (map fst l) -> forall x n, In (x, n) (counter_add v l) ->
  (x = v /\ ((~ In v (map fst l) /\ n = 1) \/ exists m, In (v, m) l /\ n = m + 1)) \/ (x <> v /\ In (x, n) l).
Proof.
  induction l as [|[y k] r IH]; simpl; intros ND x n H.
  - destruct H as [H|[]]. injection H as <- <-. left. split; [reflexivity|]. left. split; [intros []|reflexivity].
  - inversion ND as [|? ? NI ND']; subst. destruct (veqb v y) eqn:E.
    + apply veqb_eq in E. subst y. destruct H as [H|H].
      * injection H as <- <-. left. split; [reflexivity|]. right. exists k. split; [left; reflexivity|reflexivity].
      * right. split; [|right; exact H]. intros ->. apply NI. apply in_map_iff. exists (v, n). auto.
    + assert (NE : y <> v) by (intros ->; rewrite veqb_refl in E; discriminate).
      destruct H as [H|H].
      * injection H as <- <-. right. split; [exact NE|left; reflexivity].
      * destruct (IH ND' x n H) as [(-> & [(NI' & ->)|(m & Hm & ->)])|(NX & Hx)].
        -- left. split; [reflexivity|]. left. split; [|reflexivity]. intros [X|X]; [exact (NE X)|exact (NI' X)].
        -- left. split; [reflexivity|]. right. exists m. split; [right; exact Hm|reflexivity].
        -- right. split; [exact NX|right; exact Hx].
Qed.

Lemma vcount_snoc x vals v : vcount x (vals ++ [v]) = vcount x vals + (if veqb x v then 1 else 0).
Proof.
  unfold vcount. rewrite filter_app, app_length. simpl. destruct (veqb x v); simpl; lia.
Qed.

Lemma vcount_zero x vals : ~ In x vals -> vcount x vals = 0.
Proof.
  unfold vcount. induction vals as [|y r IH]; simpl; intros NI; [reflexivity|].
  destruct (veqb x y) eqn:E; [apply veqb_eq in E; subst; exfalso; apply NI; left; reflexivity|].
  apply IH. intros H. apply NI. right. exact H.
Qed.

Lemma counts_ok_add l vals v : counts_ok l vals -> counts_ok (counter_add v l) (vals ++ [v]).
Proof.
  intros (ND & K & C). split; [apply counter_add_nodup; exact ND|]. split.
  - intros x. rewrite counter_add_keys, in_app_iff, K. simpl. split; [intros [H| ->]; auto|intros [H|[<-|[]]]; auto].
  - intros x n H. rewrite vcount_snoc.
    destruct (counter_add_entry v l ND x n H) as [(-> & [(NI & ->)|(m & Hm & ->)])|(NX & Hx)].
    + rewrite veqb_refl, vcount_zero; [reflexivity|]. intros X. apply NI. apply K. exact X.
    + rewrite veqb_refl, (C v m Hm). reflexivity.
    + rewrite (C x n Hx). destruct (veqb x v) eqn:E; [apply veqb_eq in E; congruence|lia].
Qed.

Lemma fold_counters vals : forall l seen, counts_ok l seen ->
  exists l', agg_fold GCounters (SCounter l) vals = Ok (SCounter l') /\ counts_ok l' (seen ++ vals).
Proof.
  induction vals as [|v vs IH]; intros l seen OK; simpl.
  - exists l. rewrite app_nil_r. auto.
  - destruct (IH (counter_add v l) (seen ++ [v]) (counts_ok_add l seen v OK)) as (l' & E & OK').
    exists l'. split; [exact E|]. rewrite <- app_assoc in OK'. exact OK'.
Qed.

Theorem counters_count_occurrences v vals :
  exists l, agg_fold GCounters SNone (v :: vals) = Ok (SCounter l) /\ counts_ok l (v :: vals).
Proof.
  simpl. destruct (fold_counters vals [(v, 1)] [v]) as (l & E & OK).
  - split; [constructor; [intros []|constructor]|]. split.
    + intros x. simpl. tauto.
    + intros x n [H|[]]. injection H as <- <-. unfold vcount. simpl. rewrite veqb_refl. reflexivity.
  - exists l. auto.
Qed.

(* the finaliser lists the entries by count, descending: a sorted permutation of the counter *)
Lemma cinsert_perm p l : Permutation (cinsert p l) (p :: l).
Proof.
  induction l as [|q r IH]; simpl; [apply Permutation_refl|].
  destruct (snd q <=? snd p); [apply Permutation_refl|].
  apply (Permutation_trans (l' := q :: p :: r)); [constructor; exact IH|apply perm_swap].
Qed.

Theorem most_common_perm l : Permutation (most_common l) l.
Proof.
  induction l as [|p r IH]; simpl; [constructor|].
  apply (Permutation_trans (cinsert_perm p (most_common r))). constructor. exact IH.
Qed.

Definition cge (p q : value * Z) : Prop := snd q <= snd p.

Lemma cinsert_sorted p l : Sorted cge l -> Sorted cge (cinsert p l).
Proof.
  induction l as [|q r IH]; simpl; intros S.
  - constructor; constructor.
  - destruct (snd q <=? snd p) eqn:E.
    + constructor; [exact S|]. constructor. unfold cge. apply Z.leb_le. exact E.
    + inversion S as [|? ? S' HD]; subst. constructor; [apply IH; exact S'|].
      apply Z.leb_gt in E. destruct r as [|q2 r2]; simpl.
      * constructor. unfold cge. lia.
      * destruct (snd q2 <=? snd p); constructor; [unfold cge; lia|]. inversion HD; subst. assumption.
Qed.

Theorem most_common_sorted l : Sorted cge (most_common l).
Proof. induction l as [|p r IH]; simpl; [constructor|apply cinsert_sorted; exact IH]. Qed.

(* ---------- median: the middle of the sorted values ---------- *)
Lemma zinsert_perm x l : Permutation (zinsert x l) (x :: l).
Proof.
  induction l as [|y r IH]; simpl; [apply Permutation_refl|].
  destruct (x <=? y); [apply Permutation_refl|].
  apply (Permutation_trans (l' := y :: x :: r)); [constructor; exact IH|apply perm_swap].
Qed.

Theorem zsort_perm l : Permutation (zsort l) l.
Proof.
  induction l as [|x r IH]; simpl; [constructor|].
  apply (Permutation_trans (zinsert_perm x (zsort r))). constructor. exact IH.
Qed.

Lemma zinsert_sorted x l : Sorted Z.le l -> Sorted Z.le (zinsert x l).
Proof.
  induction l as [|y r IH]; simpl; intros S.
  - constructor; constructor.
  - destruct (x <=? y) eqn:E.
    + constructor; [exact S|]. constructor. apply Z.leb_le. exact E.
    + inversion S as [|? ? S' HD]; subst. constructor; [apply IH; exact S'|].
      apply Z.leb_gt in E. destruct r as [|y2 r2]; simpl.
      * constructor. lia.
      * destruct (x <=? y2); constructor; [lia|]. inversion HD; subst. assumption.
Qed.

Theorem zsort_sorted l : Sorted Z.le (zsort l).
Proof. induction l as [|x r IH]; simpl; [constructor|apply zinsert_sorted; exact IH]. Qed.

Lemma ints_of_ints zs : ints_of (map VInt zs) = Some zs.
Proof. induction zs as [|z r IH]; simpl; [reflexivity|]. rewrite IH. reflexivity. Qed.

Lemma fold_median vals : forall l, agg_fold GMedian (SList l) vals = Ok (SList (l ++ vals)).
Proof. induction vals as [|v vs IH]; intros l; simpl; [rewrite app_nil_r; reflexivity|]. rewrite IH, <- app_assoc. reflexivity. Qed.

(* median over integers zs (non-empty): with srt the ascending permutation of zs, the middle element
   when the count is odd, the mean of the two middle elements when it is even *)
Theorem median_is_middle_of_sorted z zs :
  exists srt, Permutation srt (z :: zs) /\ Sorted Z.le srt /\
    agg_fold GMedian SNone (map VInt (z :: zs)) = Ok (SList (map VInt (z :: zs))) /\
    finalise GMedian (SList (map VInt (z :: zs))) =
      (let n := Z.of_nat (length srt) in
       let mid := Z.to_nat (n / 2) in
       if n mod 2 =? 0 then exact_div (nth (mid - 1) srt 0 + nth mid srt 0) 2 else Ok (VInt (nth mid srt 0))).
Proof.
  exists (zsort (z :: zs)). split; [apply zsort_perm|]. split; [apply zsort_sorted|]. split.
  - change (map VInt (z :: zs)) with (VInt z :: map VInt zs). cbn [agg_fold agg_func]. rewrite fold_median. reflexivity.
  - unfold finalise. rewrite ints_of_ints. reflexivity.
Qed.
