From Coq Require Import List Arith Bool Lia.
From DF Require Import Frame.Pull.
Import ListNotations.

Section PullProofs.
  Variable R : Type.
  Notation ost := (ost R).

  (* nothing is lost or invented by any request: with the drain, the observer's account of the package never changes *)
  Lemma ostep_account (s : ost) o : account R (fst (ostep R true s o)) = account R s.
  Proof.
    destruct s as [d c t]. destruct o; unfold ostep, account, close_cur; cbn [done cur todo fst].
    - destruct t as [|x ts]; destruct c as [[seen rest]|]; cbn [done cur todo fst];
        rewrite <- ?app_assoc; cbn [app]; rewrite ?app_nil_r; reflexivity.
    - destruct c as [[seen [|r rest]]|]; cbn [done cur todo fst]; try reflexivity.
      rewrite <- app_assoc. reflexivity.
  Qed.

  Lemma orun_account ops : forall (s : ost), account R (fst (orun R true s ops)) = account R s.
  Proof.
    induction ops as [|o rest IH]; intros s; cbn [orun]; [reflexivity|].
    destruct (ostep R true s o) as [s1 d] eqn:E1. destruct (orun R true s1 rest) as [s2 ds] eqn:E2. cbn [fst].
    replace s2 with (fst (orun R true s1 rest)) by (rewrite E2; reflexivity).
    rewrite IH. replace s1 with (fst (ostep R true s o)) by (rewrite E1; reflexivity).
    apply ostep_account.
  Qed.

  (* every reachable state accounts for the whole package *)
  Theorem pull_account_invariant pkg ops : account R (fst (orun R true (start R pkg) ops)) = pkg.
  Proof. rewrite orun_account. unfold account, start. cbn [done cur todo app]. reflexivity. Qed.

  (* once the consumer has taken the stream to its end - however little it read on the way - the observer has seen all of it *)
  Theorem pull_observer_complete pkg ops :
    finished R (fst (orun R true (start R pkg) ops)) = true ->
    done (fst (orun R true (start R pkg) ops)) = pkg.
  Proof.
    intros Hf. pose proof (pull_account_invariant pkg ops) as Ha.
    destruct (fst (orun R true (start R pkg) ops)) as [d c t]. unfold finished in Hf. cbn [cur todo] in Hf.
    destruct c as [p|]; [discriminate|]. destruct t; [|discriminate].
    unfold account in Ha. cbn [done cur todo] in Ha. rewrite !app_nil_r in Ha. exact Ha.
  Qed.

  (* the observer is transparent: the consumer is handed exactly what it would be handed without it *)
  Definition view (s : ost) := (cur s, todo s).

  Lemma ostep_transparent (s s' : ost) o : view s = view s' ->
    snd (ostep R true s o) = snd (ostep R false s' o) /\ view (fst (ostep R true s o)) = view (fst (ostep R false s' o)).
  Proof.
    destruct s as [d c t], s' as [d' c' t']. unfold view. cbn [cur todo]. intros Hv. inversion Hv; subst c' t'.
    destruct o; unfold ostep; cbn [cur todo].
    - destruct t as [|x ts]; cbn [fst snd cur todo]; split; reflexivity.
    - destruct c as [[seen [|r rest]]|]; cbn [fst snd cur todo]; split; reflexivity.
  Qed.

  Theorem pull_observer_transparent ops : forall (s s' : ost), view s = view s' ->
    snd (orun R true s ops) = snd (orun R false s' ops).
  Proof.
    induction ops as [|o rest IH]; intros s s' Hv; cbn [orun]; [reflexivity|].
    destruct (ostep_transparent s s' o Hv) as [Hd Hv'].
    destruct (ostep R true s o) as [s1 d1]. destruct (ostep R false s' o) as [s1' d1'].
    cbn [fst snd] in Hd, Hv'. subst d1'.
    specialize (IH s1 s1' Hv').
    destruct (orun R true s1 rest) as [s2 ds]. destruct (orun R false s1' rest) as [s2' ds'].
    cbn [snd] in *. subst ds'. reflexivity.
  Qed.

  (* the consumer `reads takes` does take the stream to its end *)
  Lemma rows_step (drain : bool) k : forall (s : ost), fst (orun R drain s (repeat CNextRow k)) =
      match cur s with
      | Some (seen, rest) => {| done := done s; cur := Some (seen ++ firstn k rest, skipn k rest); todo := todo s |}
      | None => s
      end.
  Proof.
    induction k as [|k IH]; intros s; cbn [repeat orun].
    - destruct s as [d [[seen rest]|] t]; cbn [fst cur done todo firstn skipn]; rewrite ?app_nil_r; reflexivity.
    - destruct s as [d [[seen [|r rest]]|] t]; unfold ostep; cbn [cur done todo].
      + destruct (orun R drain {| done := d; cur := Some (seen, []); todo := t |} (repeat CNextRow k)) as [s2 ds] eqn:E. cbn [fst].
        replace s2 with (fst (orun R drain {| done := d; cur := Some (seen, []); todo := t |} (repeat CNextRow k))) by (rewrite E; reflexivity).
        rewrite IH. cbn [cur done todo]. rewrite firstn_nil, skipn_nil. reflexivity.
      + destruct (orun R drain {| done := d; cur := Some (seen ++ [r], rest); todo := t |} (repeat CNextRow k)) as [s2 ds] eqn:E. cbn [fst].
        replace s2 with (fst (orun R drain {| done := d; cur := Some (seen ++ [r], rest); todo := t |} (repeat CNextRow k))) by (rewrite E; reflexivity).
        rewrite IH. cbn [cur done todo firstn skipn]. rewrite <- app_assoc. reflexivity.
      + destruct (orun R drain {| done := d; cur := None; todo := t |} (repeat CNextRow k)) as [s2 ds] eqn:E. cbn [fst].
        replace s2 with (fst (orun R drain {| done := d; cur := None; todo := t |} (repeat CNextRow k))) by (rewrite E; reflexivity).
        rewrite IH. reflexivity.
  Qed.

  Lemma orun_app (drain : bool) a : forall b (s : ost),
    fst (orun R drain s (a ++ b)) = fst (orun R drain (fst (orun R drain s a)) b).
  Proof.
    induction a as [|o a IH]; intros b s; cbn [app orun]; [reflexivity|].
    destruct (ostep R drain s o) as [s1 d]. specialize (IH b s1).
    destruct (orun R drain s1 (a ++ b)) as [s2 ds]. destruct (orun R drain s1 a) as [s3 ds3]. cbn [fst] in *. exact IH.
  Qed.

  (* what the observer has on record for a resource of which the consumer read k rows *)
  Definition on_record (drain : bool) (kt : nat * list R) : list R := if drain then snd kt else firstn (fst kt) (snd kt).

  Lemma reads_run (drain : bool) takes : forall (s : ost), length takes = length (todo s) ->
    fst (orun R drain s (reads takes)) =
      {| done := close_cur R drain s ++ map (on_record drain) (combine takes (todo s)); cur := None; todo := [] |}.
  Proof.
    induction takes as [|k takes IH]; intros s Hl.
    - destruct s as [d c t]. cbn [length todo] in Hl. destruct t; [|discriminate].
      cbn [reads orun ostep todo fst combine map]. rewrite app_nil_r. reflexivity.
    - destruct s as [d c t]. cbn [length todo] in Hl. destruct t as [|x ts]; [discriminate|].
      cbn [reads]. change (CNextRes :: repeat CNextRow k ++ reads takes) with ([CNextRes] ++ (repeat CNextRow k ++ reads takes)).
      rewrite orun_app. cbn [orun ostep todo fst]. rewrite orun_app. rewrite rows_step. cbn [cur done todo app].
      rewrite IH by (cbn [todo length] in *; lia).
      unfold close_cur at 1. cbn [cur done todo combine map]. f_equal.
      rewrite <- app_assoc. cbn [app]. f_equal. f_equal.
      unfold on_record. cbn [fst snd]. destruct drain; [apply firstn_skipn | reflexivity].
  Qed.

  Lemma map_snd_combine (A B : Type) (a : list A) : forall (b : list B), length a = length b -> map snd (combine a b) = b.
  Proof.
    induction a as [|x a IH]; intros [|y b] Hl; cbn [combine map length] in *; try discriminate; [reflexivity|].
    f_equal. apply IH. lia.
  Qed.

  (* a consumer that reads k_i rows of resource i and goes on: the observer still ends up with every row of every resource *)
  Theorem reads_complete pkg takes : length takes = length pkg ->
    done (fst (orun R true (start R pkg) (reads takes))) = pkg.
  Proof.
    intros Hl. rewrite reads_run by (cbn [start todo]; exact Hl).
    cbn [done start close_cur cur todo app]. unfold on_record. apply map_snd_combine. exact Hl.
  Qed.

  Lemma map_firstn_all (pkg : list (list R)) :
    map (on_record false) (combine (map (@length R) pkg) pkg) = pkg.
  Proof.
    induction pkg as [|t ts IH]; cbn [map combine]; [reflexivity|].
    unfold on_record at 1. cbn [fst snd]. rewrite firstn_all. f_equal. exact IH.
  Qed.

  (* a consumer that reads every resource to its end - as load does with the resources its selector skips, since fix f784d67 -
     lets a producer that does not read on by itself (duplicate's store, join's index, concatenate's chain) see every row *)
  Theorem full_reader_complete pkg :
    done (fst (orun R false (start R pkg) (reads (map (@length R) pkg)))) = pkg.
  Proof.
    rewrite reads_run by (cbn [start todo]; apply map_length).
    cbn [done start close_cur cur todo app]. apply map_firstn_all.
  Qed.
End PullProofs.

(* without the observer reading on by itself (the code before fix 9cf3000) that fails: one resource of two rows, one row read *)
Theorem no_drain_refuted : exists (pkg : list (list nat)) takes, length takes = length pkg /\
  done (fst (orun nat false (start nat pkg) (reads takes))) <> pkg.
Proof. exists [[1; 2]], [1]. split; [reflexivity | cbv; discriminate]. Qed.

(* a consumer that skips a resource (reads none of its rows) leaves such a producer with nothing of it: the copy made by
   duplicate came back empty *)
Theorem skipping_reader_refuted : exists (pkg : list (list nat)),
  done (fst (orun nat false (start nat pkg) (reads (map (fun _ => 0) pkg)))) <> pkg.
Proof. exists [[1; 2]]. cbv. discriminate. Qed.
