(* load (dataflows/processors/load.py): header de-duplication and the row
   wrappers (stringer / stripper / limiter), in the order process_resources applies them. *)
From Coq Require Import List ZArith Bool Lia.
From DF Require Import Base.Str Base.Lits Base.Value Proc.RowOps Proc.Fields.
Import ListNotations.
Open Scope Z_scope.

(* ---------- rename_duplicate_headers ---------- *)
(* ('%s' + deduplicate_format) % (header, n) with the format as (prefix, suffix) around %s *)
Definition fmt_dup (pre post : str) (h : str) (n : Z) : str := h ++ pre ++ str_of_Z n ++ post.

Definition ascii_lower (c : Z) : Z := if (65 <=? c) && (c <=? 90) then c + 32 else c.
Definition lower (x : str) : str := map ascii_lower x.

Fixpoint count_get (m : list (str * Z)) (k : str) : Z :=
  match m with [] => 0 | (a, n) :: r => if str_eqb k a then n else count_get r k end.
Fixpoint count_inc (m : list (str * Z)) (k : str) : list (str * Z) :=
  match m with
  | [] => [(k, 1)]
  | (a, n) :: r => if str_eqb k a then (a, n + 1) :: r else (a, n) :: count_inc r k
  end.

Fixpoint index_of (k : str) (l : list str) : nat :=
  match l with [] => 0 | x :: r => if str_eqb k x then 0 else S (index_of k r) end.

Fixpoint set_nth {A} (n : nat) (x : A) (l : list A) : list A :=
  match l, n with
  | [], _ => []
  | _ :: r, O => x :: r
  | y :: r, S n' => y :: set_nth n' x r
  end.

(* the loop; state = (counter, headers so far, header keys so far) *)
Fixpoint rename_loop (cs : bool) (pre post : str) (input : list str)
         (counter : list (str * Z)) (headers keys : list str) : list str :=
  match input with
  | [] => headers
  | h :: rest =>
      let key := if cs then h else lower h in
      let keys' := keys ++ [key] in
      let counter' := count_inc counter key in
      let c := count_get counter' key in
      if 1 <? c then
        let headers1 :=
          if c =? 2 then
            let i := index_of key keys' in
            set_nth i (fmt_dup pre post (nth i headers []) 1) headers
          else headers in
        rename_loop cs pre post rest counter' (headers1 ++ [fmt_dup pre post h c]) keys'
      else rename_loop cs pre post rest counter' (headers ++ [h]) keys'
  end.

Definition rename_duplicate_headers (cs : bool) (pre post : str) (hs : list str) : list str :=
  rename_loop cs pre post hs [] [] [].

(* duplication test of load *)
Definition has_duplicates (cs : bool) (hs : list str) : bool :=
  negb (str_nodup (if cs then hs else map lower hs)).

Definition E_VALUE : Z := 4.

Definition load_headers (dedup cs : bool) (pre post : str) (hs : list str) : res (list str) :=
  if has_duplicates cs hs then
    if dedup then Ok (rename_duplicate_headers cs pre post hs) else Err E_VALUE
  else Ok hs.

(* ---------- wrappers ---------- *)
(* Python str.isspace for the code points the generators use *)
Definition py_space (c : Z) : bool :=
  ((9 <=? c) && (c <=? 13)) || ((28 <=? c) && (c <=? 32)) || (c =? 133) || (c =? 160) || (c =? 8195) || (c =? 12288).

Fixpoint lstrip (x : str) : str :=
  match x with [] => [] | c :: r => if py_space c then lstrip r else x end.
Definition strip (x : str) : str := rev (lstrip (rev (lstrip x))).

Definition trigger (c : Z) : bool := (c =? 32) || (c =? 9) || (c =? 10) || (c =? 13).   (* set(' \t\n\r') *)

(* if v and isinstance(v, str) and (v[-1] in whitespace or v[0] in whitespace): r[k] = v.strip() *)
Definition strip_value (v : value) : value :=
  match v with
  | VStr (c :: r) =>
      if trigger c || trigger (last (c :: r) 0) then VStr (strip (c :: r)) else v
  | _ => v
  end.
Definition stripper (rows : list row) : list row :=
  map (fun r => map (fun kv => (fst kv, strip_value (snd kv))) r) rows.

(* for row in iterator: yield row; count += 1; if count >= limit: break *)
Fixpoint limiter (limit count : Z) (rows : list row) : list row :=
  match rows with
  | [] => []
  | r :: rs => r :: (if limit <=? count + 1 then [] else limiter limit (count + 1) rs)
  end.

(* str(v) for non-strings *)
Definition stringer_value (v : value) : res value :=
  match v with
  | VStr _ => Ok v
  | _ => match str_of_value v with Ok x => Ok (VStr x) | Err c => Err c end
  end.

(* process_resources: extract missing values (not modelled) -> caster -> stripper -> limiter *)
Definition wrap (caster : list row -> list row) (do_strip : bool) (limit : option Z) (rows : list row) : list row :=
  let a := caster rows in
  let b := if do_strip then stripper a else a in
  match limit with
  | Some n => if n =? 0 then b else limiter n 0 b         (* `if self.limit_rows:` *)
  | None => b
  end.

(* loading from a (descriptor, iterators) pair or a package: descriptors and row
   iterators are filtered by the same predicate, pairwise *)
Definition select_pairs {A B} (m : str -> bool) (name : A -> str) (l : list (A * B)) : list (A * B) :=
  filter (fun p => m (name (fst p))) l.
