(* Automatic names of bare iterables (dataflows/helpers/iterable_loader.py, process_datapackage).
   A resource name is either of the automatic form res_<n> (n written in canonical decimal: the harness
   classifies names) or any other text. *)
From Coq Require Import List Arith Bool.
From DF Require Import Base.Str.
Import ListNotations.

Inductive rname := Auto (n : nat) | Other (s : str).

Definition autos (names : list rname) : list nat :=
  flat_map (fun x => match x with Auto n => [n] | Other _ => [] end) names.

Definition taken_b (taken : list nat) (i : nat) : bool := existsb (Nat.eqb i) taken.

(* while 'res_{}'.format(index) in taken: index += 1 -- fuel bounds the number of increments *)
Fixpoint first_free (taken : list nat) (start fuel : nat) : nat :=
  match fuel with
  | O => start
  | S f => if taken_b taken start then first_free taken (S start) f else start
  end.

Definition auto_index (names : list rname) : nat :=
  first_free (autos names) (S (length names)) (length (autos names)).

Definition add_auto (names : list rname) : list rname := names ++ [Auto (auto_index names)].

(* the rule before fix f9060c2: res_<number of resources + 1> whatever is there *)
Definition old_auto_index (names : list rname) : nat := S (length names).
Definition old_add_auto (names : list rname) : list rname := names ++ [Auto (old_auto_index names)].

Definition rname_eqb (a b : rname) : bool :=
  match a, b with
  | Auto n, Auto m => Nat.eqb n m
  | Other s, Other t => str_eqb s t
  | _, _ => false
  end.
