(* Python == on the scalar values used as keys (py_eq) is an equivalence relation, and so is
   the pointwise equality of key tuples (key_eq).  Discharges the hypotheses of the
   deduplicate and dump_to_sql theorems. *)
From Coq Require Import List ZArith Bool Lia.
From DF Require Import Base.Str Base.Str_proofs Base.Value Base.Value_proofs Proc.RowOps.
Import ListNotations.
Open Scope Z_scope.

(* ---------- structural equality decides Leibniz equality ---------- *)
Lemma opt_str_eqb_eq (a b : option str) : opt_eqb str_eqb a b = true <-> a = b.
Proof.
  destruct a, b; simpl; try (split; [discriminate|discriminate]); try (split; reflexivity).
  rewrite str_eqb_eq. split; [intros ->; reflexivity|intros H; injection H; auto].
Qed.

Lemma tz_eqb_eq a b : tz_eqb a b = true <-> a = b.
Proof.
  unfold tz_eqb. destruct a as [[o n]|], b as [[o' n']|]; simpl; try (split; [discriminate|discriminate]); try (split; reflexivity).
  rewrite andb_true_iff, Z.eqb_eq, opt_str_eqb_eq. split; [intros [-> ->]; reflexivity|intros H; injection H; auto].
Qed.

Lemma veqb_eq : forall a b, veqb a b = true <-> a = b.
Proof.
  induction a using value_ind2; intros b'; destruct b'; simpl; try (split; [discriminate|discriminate]);
    try (split; reflexivity).
  - destruct b, b0; simpl; split; try reflexivity; try discriminate.
  - rewrite Z.eqb_eq. split; [intros ->; reflexivity|intros H; injection H; auto].
  - rewrite andb_true_iff, !Z.eqb_eq. split; [intros [-> ->]; reflexivity|intros H; injection H; auto].
  - rewrite andb_true_iff, !Z.eqb_eq. split; [intros [-> ->]; reflexivity|intros H; injection H; auto].
  - rewrite str_eqb_eq. split; [intros ->; reflexivity|intros H; injection H; auto].
  - rewrite !andb_true_iff, !Z.eqb_eq. split; [intros [[-> ->] ->]; reflexivity|intros H; injection H; auto].
  - rewrite !andb_true_iff, !Z.eqb_eq. split; [intros [[[-> ->] ->] ->]; reflexivity|intros H; injection H; auto].
  - rewrite !andb_true_iff, !Z.eqb_eq, tz_eqb_eq.
    split; [intros [[[[[[[-> ->] ->] ->] ->] ->] ->] ->]; reflexivity|intros H; injection H; intros; subst; repeat split; reflexivity].
  - rewrite !andb_true_iff, !Z.eqb_eq. split; [intros [[-> ->] ->]; reflexivity|intros H; injection H; auto].
  - (* lists *)
    revert l0. induction l as [|x l IHl]; intros [|y l0]; try (split; [discriminate|discriminate]); [split; reflexivity|].
    inversion H as [|? ? Hx Hl]; subst. rewrite andb_true_iff, Hx, (IHl Hl l0).
    split; [intros [-> E]; injection E as ->; reflexivity|intros E; injection E as -> ->; split; reflexivity].
  - (* objects *)
    revert l0. induction l as [|[k x] l IHl]; intros [|[k' y] l0]; try (split; [discriminate|discriminate]); [split; reflexivity|].
    inversion H as [|? ? Hx Hl]; subst. simpl in Hx. rewrite !andb_true_iff, str_eqb_eq, Hx, (IHl Hl l0).
    split; [intros [[-> ->] E]; injection E as ->; reflexivity|intros E; injection E as -> -> ->; repeat split; reflexivity].
Qed.

Lemma veqb_refl a : veqb a a = true.
Proof. apply veqb_eq. reflexivity. Qed.

(* ---------- numeric equality of decimals ---------- *)
Lemma pow10_pos n : 0 < pow10 n \/ n < 0.
Proof. destruct (Z_lt_le_dec n 0); [right; assumption|left; unfold pow10; apply Z.pow_pos_nonneg; lia]. Qed.

Lemma dec_eq_shift m e m' e' L : L <= e -> L <= e' ->
  (dec_eq m e m' e' = true <-> m * pow10 (e - L) = m' * pow10 (e' - L)).
Proof.
  intros H1 H2. unfold dec_eq, pow10.
  destruct (e <=? e') eqn:C.
  - apply Z.leb_le in C. rewrite Z.eqb_eq.
    replace (e' - L) with ((e' - e) + (e - L)) by lia. rewrite Z.pow_add_r by lia.
    assert (P : 0 < 10 ^ (e - L)) by (apply Z.pow_pos_nonneg; lia).
    split.
    + intros ->. ring.
    + intros H. apply (Z.mul_cancel_r _ _ (10 ^ (e - L))); [lia|]. rewrite H. ring.
  - apply Z.leb_gt in C. rewrite Z.eqb_eq.
    replace (e - L) with ((e - e') + (e' - L)) by lia. rewrite Z.pow_add_r by lia.
    assert (P : 0 < 10 ^ (e' - L)) by (apply Z.pow_pos_nonneg; lia).
    split.
    + intros <-. ring.
    + intros H. apply (Z.mul_cancel_r _ _ (10 ^ (e' - L))); [lia|]. rewrite <- H. ring.
Qed.

Lemma dec_eq_refl m e : dec_eq m e m e = true.
Proof. apply (dec_eq_shift m e m e e); lia. Qed.

Lemma dec_eq_sym m e m' e' : dec_eq m e m' e' = dec_eq m' e' m e.
Proof.
  destruct (dec_eq m e m' e') eqn:A; symmetry.
  - apply (dec_eq_shift m' e' m e (Z.min e e')); [lia|lia|]. symmetry.
    apply (dec_eq_shift m e m' e' (Z.min e e')); [lia|lia|exact A].
  - destruct (dec_eq m' e' m e) eqn:B; [|reflexivity].
    assert (X : dec_eq m e m' e' = true).
    { apply (dec_eq_shift m e m' e' (Z.min e e')); [lia|lia|]. symmetry.
      apply (dec_eq_shift m' e' m e (Z.min e e')); [lia|lia|exact B]. }
    congruence.
Qed.

Lemma dec_eq_trans m1 e1 m2 e2 m3 e3 :
  dec_eq m1 e1 m2 e2 = true -> dec_eq m2 e2 m3 e3 = true -> dec_eq m1 e1 m3 e3 = true.
Proof.
  intros A B. set (L := Z.min e1 (Z.min e2 e3)).
  apply (dec_eq_shift m1 e1 m2 e2 L) in A; [|lia|lia].
  apply (dec_eq_shift m2 e2 m3 e3 L) in B; [|lia|lia].
  apply (dec_eq_shift m1 e1 m3 e3 L); [lia|lia|]. congruence.
Qed.

(* ---------- py_eq ---------- *)
Lemma as_num_none_veqb a b : as_num a <> None -> as_num b = None -> veqb a b = false.
Proof. destruct a, b; simpl; intros H1 H2; try reflexivity; try discriminate; congruence. Qed.

Lemma py_eq_refl a : py_eq a a = true.
Proof. unfold py_eq. destruct (as_num a) as [[m e]|]; [apply dec_eq_refl|apply veqb_refl]. Qed.

Lemma veqb_sym a b : veqb a b = veqb b a.
Proof.
  destruct (veqb a b) eqn:A; symmetry.
  - apply veqb_eq in A. subst. apply veqb_refl.
  - destruct (veqb b a) eqn:B; [|reflexivity]. apply veqb_eq in B. subst. rewrite veqb_refl in A. discriminate.
Qed.

Lemma py_eq_sym a b : py_eq a b = py_eq b a.
Proof.
  unfold py_eq. destruct (as_num a) as [[m e]|] eqn:A, (as_num b) as [[m' e']|] eqn:B.
  - apply dec_eq_sym.
  - rewrite veqb_sym. reflexivity.
  - apply veqb_sym.
  - apply veqb_sym.
Qed.

Lemma py_eq_trans a b c : py_eq a b = true -> py_eq b c = true -> py_eq a c = true.
Proof.
  unfold py_eq. destruct (as_num a) as [[m1 e1]|] eqn:A, (as_num b) as [[m2 e2]|] eqn:B, (as_num c) as [[m3 e3]|] eqn:C;
    intros H1 H2.
  - eapply dec_eq_trans; eassumption.
  - rewrite as_num_none_veqb in H2; [discriminate|congruence|exact C].
  - rewrite as_num_none_veqb in H1; [discriminate|congruence|exact B].
  - rewrite as_num_none_veqb in H1; [discriminate|congruence|exact B].
  - rewrite veqb_sym, as_num_none_veqb in H1; [discriminate|congruence|exact A].
  - rewrite veqb_sym, as_num_none_veqb in H1; [discriminate|congruence|exact A].
  - rewrite veqb_sym, as_num_none_veqb in H2; [discriminate|congruence|exact B].
  - apply veqb_eq in H1, H2. subst. apply veqb_refl.
Qed.

(* ---------- key tuples ---------- *)
Lemma key_eq_refl a : key_eq a a = true.
Proof. induction a as [|x a IH]; simpl; [reflexivity|]. rewrite py_eq_refl, IH. reflexivity. Qed.

Lemma key_eq_sym : forall a b, key_eq a b = key_eq b a.
Proof.
  induction a as [|x a IH]; intros [|y b]; simpl; try reflexivity. rewrite py_eq_sym, IH. reflexivity.
Qed.

Lemma key_eq_trans : forall a b c, key_eq a b = true -> key_eq b c = true -> key_eq a c = true.
Proof.
  induction a as [|x a IH]; intros [|y b] [|z c] H1 H2; simpl in *; try discriminate; try reflexivity.
  apply andb_true_iff in H1 as [A1 A2]. apply andb_true_iff in H2 as [B1 B2].
  rewrite (py_eq_trans _ _ _ A1 B1), (IH _ _ A2 B2). reflexivity.
Qed.
