#!/usr/bin/env python3
"""Builds /verif/corpus/<Cxx>/<seed id>.json from the replay files the seed matrix left under /var/tmp/seed_replays:
for every seeded change a (shrunk) generated case on which the check caught it.  The checks run the corpus cases
first on every run (harness/driver.py), so a seed stays caught when the random part of a generator changes.  A corpus
case is an ordinary case: only candidates on which the direct oracle is satisfied by the unchanged /repo are kept
(shrinking under a seeded change can leave the generator's domain), smallest first; run with /venv/bin/python."""
import os, sys, json, glob, importlib
V = os.path.dirname(os.path.dirname(os.path.abspath(__file__)))
sys.path.insert(0, os.path.join(V, 'harness'))
os.environ.setdefault('VERIF_REPO', '/repo')
import common, driver
n, skipped = 0, []
mods = {}
for d in sorted(glob.glob('/var/tmp/seed_replays/C*-*')):
    sid = os.path.basename(d)
    prop = sid.split('-')[0]
    cands = []
    for f in sorted(glob.glob(os.path.join(d, '*.json'))):
        r = json.load(open(f))
        if r.get('kind') == 'failing-input' and 'case' in r and not r['case'].get('witness_of'):
            cands.append(r)
    cands.sort(key=lambda r: len(json.dumps(r['case'])))
    if prop not in mods:
        mods[prop] = importlib.import_module('p' + prop[1:])
    mod = mods[prop]
    chosen = None
    for r in cands:
        if len(json.dumps(r['case'])) > 60000:
            continue
        known = driver.open_findings(prop)
        outs, fails, _ = driver.evaluate(mod, [r['case']], do_coq=False)
        if fails and driver.classify(mod, r['case'], outs[0], fails[0][1], known) is None:
            continue          # fails on the unchanged tree as well: outside the domain (or a finding of its own)
        chosen = r
        break
    out = os.path.join(V, 'corpus', prop)
    os.makedirs(out, exist_ok=True)
    target = os.path.join(out, sid + '.json')
    if chosen is None:
        skipped.append(sid)
        if os.path.exists(target):
            os.remove(target)
        continue
    json.dump({'case': chosen['case'], 'from_seed': sid, 'failure_with_the_seed': chosen.get('failure')}, open(target, 'w'), indent=1)
    n += 1
print(n, 'corpus cases; no usable case for', skipped)
