(* C12: sort_rows emits a stable, correctly ordered permutation. *)
From Coq Require Import List ZArith Bool Permutation Sorted.
From DF Require Import Base.Str Base.Value Proc.RowOps Proc.Fields Proc.Sort Proc.Sort_proofs Proc.SortFloat_proofs Proc.SortNumeric_proofs Gen.Consts.
Import ListNotations.
Open Scope Z_scope.

(* The ordered store returns its entries sorted by key, and loses or invents none *)
Theorem C12_store_sorted_permutation : forall (A : Type) (entries : list (str * A)),
  NoDup (map fst entries) ->
  StronglySorted klt (kv_items entries) /\ Permutation (kv_items entries) entries.
Proof. exact @kv_items_sorted_perm. Qed.
Print Assumptions C12_store_sorted_permutation.

(* Row numbers below 16^w render to w hex digits whose text order is the numeric order *)
Theorem C12_suffix_order : forall w a b,
  0 <= a < 16 ^ Z.of_nat w -> 0 <= b < 16 ^ Z.of_nat w ->
  str_ltb (hexw w a) (hexw w b) = (a <? b) /\ str_eqb (hexw w a) (hexw w b) = (a =? b).
Proof. exact hexw_order. Qed.
Print Assumptions C12_suffix_order.

(* Main theorem: when no sort key is a proper prefix of another (always true for the
   fixed-width numeric keys), the output order is strictly increasing in
   (key, input position): ascending by key, equal keys in input order, and the
   output is a permutation of the input. *)
Theorem C12_stable_sorted_permutation : forall w ks,
  all_pfree ks -> Z.of_nat (length ks) <= 16 ^ Z.of_nat w ->
  StronglySorted lt2 (sorted_tags w ks) /\ Permutation (sorted_tags w ks) (map snd (tag_keys w 0 ks)).
Proof. exact sorted_tags_correct. Qed.
Print Assumptions C12_stable_sorted_permutation.

Theorem C12_tags_are_keys_with_positions : forall w ks i,
  map snd (tag_keys w i ks) = combine ks (map (fun n => i + Z.of_nat n) (seq 0 (length ks))).
Proof. exact tag_keys_snd. Qed.
Print Assumptions C12_tags_are_keys_with_positions.

Theorem C12_equal_length_keys_are_prefix_free : forall a b, length a = length b -> pfree a b = true.
Proof. exact pfree_eqlen. Qed.
Print Assumptions C12_equal_length_keys_are_prefix_free.

(* the row sorter hands exactly these tagged keys to the store *)
Theorem C12_sorter_uses_tagged_keys : forall w kc rows i entries,
  keyed_rows w kc i rows = Ok entries ->
  exists ks, map_res kc rows = Ok ks /\ map fst entries = map fst (tag_keys w i ks) /\ map snd entries = rows.
Proof. exact keyed_rows_keys. Qed.
Print Assumptions C12_sorter_uses_tagged_keys.

(* reverse=True outputs exactly the reverse sequence *)
Theorem C12_reverse_is_rev : forall w kc rows out,
  sorter w kc false rows = Ok out -> sorter w kc true rows = Ok (rev out).
Proof. exact sorter_reverse. Qed.
Print Assumptions C12_reverse_is_rev.

(* Numeric sort keys.  For numbers m * 2^e with a mantissa below 2^53 (every binary64 value
   has this form) the 64-bit key orders exactly like the numbers: the comparison of the values,
   stated over the integers m * 2^(e-S) for any common scale S, is the comparison of the keys.
   Positives, negatives (order reversed by the bit inversion) and the position of zero. *)
Theorem C12_numeric_key_monotone_positive : forall m e m' e' S,
  0 < m < 2 ^ 53 -> 0 < m' < 2 ^ 53 ->
  S <= e -> S <= e' -> S <= Z.log2 m + e - 52 -> S <= Z.log2 m' + e' - 52 ->
  (m * 2 ^ (e - S) < m' * 2 ^ (e' - S) <-> num_key m e < num_key m' e').
Proof. exact num_key_monotone_pos. Qed.
Print Assumptions C12_numeric_key_monotone_positive.

Theorem C12_numeric_key_monotone_negative : forall m e m' e' S,
  0 < m < 2 ^ 53 -> 0 < m' < 2 ^ 53 ->
  S <= e -> S <= e' -> S <= Z.log2 m + e - 52 -> S <= Z.log2 m' + e' - 52 ->
  (m' * 2 ^ (e' - S) < m * 2 ^ (e - S) <-> num_key (- m) e < num_key (- m') e').
Proof. exact num_key_monotone_neg. Qed.
Print Assumptions C12_numeric_key_monotone_negative.

Theorem C12_numeric_key_sign_order : forall m e m' e',
  0 < m < 2 ^ 53 -> 0 < m' < 2 ^ 53 -> -1022 <= Z.log2 m + e <= 1023 -> -1022 <= Z.log2 m' + e' <= 1023 ->
  num_key (- m) e < num_key 0 0 /\ num_key 0 0 < num_key m' e'.
Proof. exact num_key_sign_order. Qed.
Print Assumptions C12_numeric_key_sign_order.

Theorem C12_numeric_key_hex_order : forall a b,
  0 <= a < 2 ^ 64 -> 0 <= b < 2 ^ 64 -> str_ltb (hexw 16 a) (hexw 16 b) = (a <? b).
Proof. exact hex_key_order. Qed.
Print Assumptions C12_numeric_key_hex_order.

(* all signs at once: for canonical binary64 numbers (zero, or |m| < 2^53 with a normal exponent) the 64-bit key,
   and hence the 16-digit text key the sorter uses, orders exactly like the numbers m * 2^e *)
Theorem C12_numeric_key_order : forall m e m' e' S,
  canon m e -> canon m' e' -> scale_ok S m e -> scale_ok S m' e' -> S <= e -> S <= e' ->
  (m * 2 ^ (e - S) < m' * 2 ^ (e' - S) <-> num_key m e < num_key m' e').
Proof. exact num_key_order_all. Qed.
Print Assumptions C12_numeric_key_order.

Theorem C12_numeric_text_key_order : forall m e m' e' S,
  canon m e -> canon m' e' -> scale_ok S m e -> scale_ok S m' e' -> S <= e -> S <= e' ->
  (str_ltb (hexw 16 (num_key m e)) (hexw 16 (num_key m' e')) = true <-> m * 2 ^ (e - S) < m' * 2 ^ (e' - S)).
Proof. exact numeric_text_key_order. Qed.
Print Assumptions C12_numeric_text_key_order.

(* end to end for one numeric key field: for every list of canonical binary64 numbers (below 16^8 rows) the sorter's
   store returns the row numbers in ascending order of the numbers, equal numbers in input order, each row once *)
Theorem C12_numeric_sort_end_to_end : forall S vals,
  Forall (ok_at S) vals -> Z.of_nat (length vals) <= 16 ^ Z.of_nat 8 ->
  let out := sorted_tags 8 (map nkey vals) in
  StronglySorted (by_value S vals) out /\
  Permutation (map snd out) (map (fun n => 0 + Z.of_nat n) (seq 0 (length vals))).
Proof. exact numeric_sort_order. Qed.
Print Assumptions C12_numeric_sort_end_to_end.

(* the link to the sorter's own key function: a row whose key field holds a number gets the key nkey of its dyadic form *)
Theorem C12_numeric_key_is_nkey : forall f r v me,
  rget r f = Some v -> dyadic_of v = Some me ->
  (match v with VStr _ | VNull => False | _ => True end) ->
  key_calc [f] r = Ok (nkey me).
Proof. exact key_calc_numeric. Qed.
Print Assumptions C12_numeric_key_is_nkey.

(* premises are satisfiable: 2.5 < 3 (5*2^-1 vs 3*2^0, scale -52) *)
Example C12_numeric_nonvacuous : num_key 5 (-1) < num_key 3 0 /\ num_key (-3) 0 < num_key (-5) (-1).
Proof. vm_compute. split; reflexivity. Qed.

(* tie to the source: the suffix width the code uses (regenerated constant) covers 16^8 rows *)
Theorem C12_suffix_width_from_source : c_sort_suffix_width = 8%nat.
Proof. reflexivity. Qed.
Print Assumptions C12_suffix_width_from_source.

From Coq Require Import String.
Local Open Scope string_scope.
Example C12_nonvacuous :
  sorter 8 (key_calc [s "n"]) false
    [[(s "n", VInt 3); (s "t", VStr (s "a"))]; [(s "n", VInt (-2)); (s "t", VStr (s "b"))];
     [(s "n", VDec 25 (-1)); (s "t", VStr (s "c"))]; [(s "n", VInt 3); (s "t", VStr (s "d"))]]
  = Ok [[(s "n", VInt (-2)); (s "t", VStr (s "b"))]; [(s "n", VDec 25 (-1)); (s "t", VStr (s "c"))];
        [(s "n", VInt 3); (s "t", VStr (s "a"))]; [(s "n", VInt 3); (s "t", VStr (s "d"))]].
Proof. vm_compute. reflexivity. Qed.
