(* Value universe, rows (ordered dicts), and Python dict primitives. *)
From Coq Require Import List ZArith Bool Lia.
From DF Require Import Base.Str.
Import ListNotations.
Open Scope Z_scope.

Inductive value :=
| VNull
| VBool (b : bool)
| VInt (z : Z)
| VDec (m e : Z)                    (* decimal.Decimal  m * 10^e (digits as written) *)
| VFlt (m e : Z)                    (* float  m * 2^e, exact *)
| VStr (x : str)
| VDate (y mo d : Z)
| VTime (h mi sec us : Z)
| VDT (y mo d h mi sec us : Z) (tz : option (Z * option str))   (* utcoffset seconds, tzname *)
| VDur (days secs us : Z)
| VList (l : list value)
| VObj (l : list (str * value)).

Definition opt_eqb {A} (f : A -> A -> bool) (a b : option A) : bool :=
  match a, b with
  | None, None => true
  | Some x, Some y => f x y
  | _, _ => false
  end.

Definition tz_eqb (a b : option (Z * option str)) : bool :=
  opt_eqb (fun p q => (fst p =? fst q) && opt_eqb str_eqb (snd p) (snd q)) a b.

(* structural (type-exact) equality *)
Fixpoint veqb (a b : value) {struct a} : bool :=
  match a, b with
  | VNull, VNull => true
  | VBool x, VBool y => Bool.eqb x y
  | VInt x, VInt y => x =? y
  | VDec m e, VDec m' e' => (m =? m') && (e =? e')
  | VFlt m e, VFlt m' e' => (m =? m') && (e =? e')
  | VStr x, VStr y => str_eqb x y
  | VDate y m d, VDate y' m' d' => (y =? y') && (m =? m') && (d =? d')
  | VTime h mi sc us, VTime h' mi' sc' us' => (h =? h') && (mi =? mi') && (sc =? sc') && (us =? us')
  | VDT y m d h mi sc us tz, VDT y' m' d' h' mi' sc' us' tz' =>
      (y =? y') && (m =? m') && (d =? d') && (h =? h') && (mi =? mi') && (sc =? sc') && (us =? us')
      && tz_eqb tz tz'
  | VDur d sc us, VDur d' sc' us' => (d =? d') && (sc =? sc') && (us =? us')
  | VList l, VList l' =>
      (fix go (l l' : list value) : bool :=
         match l, l' with
         | [], [] => true
         | x :: r, y :: r' => veqb x y && go r r'
         | _, _ => false
         end) l l'
  | VObj l, VObj l' =>
      (fix go (l l' : list (str * value)) : bool :=
         match l, l' with
         | [], [] => true
         | (k, x) :: r, (k', y) :: r' => str_eqb k k' && veqb x y && go r r'
         | _, _ => false
         end) l l'
  | _, _ => false
  end.

Definition is_null (v : value) : bool := match v with VNull => true | _ => false end.

(* rows: Python dicts, insertion ordered *)
Definition row := list (str * value).

Fixpoint rget (r : row) (k : str) : option value :=
  match r with
  | [] => None
  | (k', v) :: r' => if str_eqb k k' then Some v else rget r' k
  end.

(* row.get(k) *)
Definition rget0 (r : row) (k : str) : value :=
  match rget r k with Some v => v | None => VNull end.

Fixpoint rhas (r : row) (k : str) : bool :=
  match r with
  | [] => false
  | (k', _) :: r' => str_eqb k k' || rhas r' k
  end.

(* row[k] = v : replace in place when present, append otherwise *)
Fixpoint rset (r : row) (k : str) (v : value) : row :=
  match r with
  | [] => [(k, v)]
  | (k', v') :: r' => if str_eqb k k' then (k', v) :: r' else (k', v') :: rset r' k v
  end.

(* dict.update(other) *)
Definition rupdate (r other : row) : row :=
  fold_left (fun acc kv => rset acc (fst kv) (snd kv)) other r.

(* dict(pairs): later duplicates overwrite, position of first kept *)
Definition rdict (pairs : list (str * value)) : row := rupdate [] pairs.

Definition rkeys (r : row) : list str := map fst r.

Fixpoint row_eqb (a b : row) : bool :=
  match a, b with
  | [], [] => true
  | (k, x) :: r, (k', y) :: r' => str_eqb k k' && veqb x y && row_eqb r r'
  | _, _ => false
  end.

Fixpoint rows_eqb (a b : list row) : bool :=
  match a, b with
  | [], [] => true
  | x :: r, y :: r' => row_eqb x y && rows_eqb r r'
  | _, _ => false
  end.

Fixpoint list_eqb {A} (f : A -> A -> bool) (a b : list A) : bool :=
  match a, b with
  | [], [] => true
  | x :: r, y :: r' => f x y && list_eqb f r r'
  | _, _ => false
  end.

(* results of model functions that can raise *)
Inductive res (A : Type) := Ok (a : A) | Err (code : Z).
Arguments Ok {A} a.
Arguments Err {A} code.

Definition res_eqb {A} (f : A -> A -> bool) (a b : res A) : bool :=
  match a, b with
  | Ok x, Ok y => f x y
  | Err c, Err d => c =? d
  | _, _ => false
  end.

(* ---- Python == on scalars used as keys / in conditions ----
   bool and int compare numerically (True == 1); Decimal and int compare by
   value; everything else by structure.  Floats only compare equal to floats
   with the same dyadic value and to ints when e >= 0 (generators never mix
   float with Decimal). *)
Definition pow10 (e : Z) : Z := 10 ^ e.

Definition dec_eq (m e m' e' : Z) : bool :=
  if e <=? e' then m =? m' * pow10 (e' - e) else m * pow10 (e - e') =? m'.

Definition as_num (v : value) : option (Z * Z) :=
  match v with
  | VBool b => Some ((if b then 1 else 0), 0)
  | VInt z => Some (z, 0)
  | VDec m e => Some (m, e)
  | _ => None
  end.

Definition py_eq (a b : value) : bool :=
  match as_num a, as_num b with
  | Some (m, e), Some (m', e') => dec_eq m e m' e'
  | _, _ => veqb a b
  end.
