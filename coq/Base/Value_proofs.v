From Coq Require Import List ZArith Bool Lia.
From DF Require Import Base.Str Base.Str_proofs Base.Value.
Import ListNotations.
Open Scope Z_scope.

Lemma rget_rset_same r k v : rget (rset r k v) k = Some v.
Proof.
  induction r as [|[k' v'] r IH]; simpl.
  - rewrite str_eqb_refl. reflexivity.
  - destruct (str_eqb k k') eqn:E; simpl; rewrite E; [reflexivity|exact IH].
Qed.

Lemma rget_rset_other r k k' v : k' <> k -> rget (rset r k v) k' = rget r k'.
Proof.
  intros N. induction r as [|[k2 v2] r IH]; simpl.
  - apply str_eqb_neq in N. rewrite N. reflexivity.
  - destruct (str_eqb k k2) eqn:E; simpl.
    + apply str_eqb_eq in E. subst k2. apply str_eqb_neq in N. rewrite N. reflexivity.
    + destruct (str_eqb k' k2); [reflexivity|exact IH].
Qed.

Lemma rget0_rset_same r k v : rget0 (rset r k v) k = v.
Proof. unfold rget0. rewrite rget_rset_same. reflexivity. Qed.

Lemma rget0_rset_other r k k' v : k' <> k -> rget0 (rset r k v) k' = rget0 r k'.
Proof. intros N. unfold rget0. rewrite rget_rset_other by exact N. reflexivity. Qed.

Lemma rhas_rget r k : rhas r k = true <-> exists v, rget r k = Some v.
Proof.
  induction r as [|[k' v'] r IH]; simpl.
  - split; [discriminate|intros [v H]; discriminate].
  - destruct (str_eqb k k'); simpl.
    + split; [eauto|reflexivity].
    + exact IH.
Qed.

Lemma rkeys_rset_present r k v : rhas r k = true -> rkeys (rset r k v) = rkeys r.
Proof.
  induction r as [|[k' v'] r IH]; simpl; [discriminate|].
  destruct (str_eqb k k') eqn:E; simpl; [reflexivity|]. intros H. f_equal. apply IH, H.
Qed.

Lemma rkeys_rset_absent r k v : rhas r k = false -> rkeys (rset r k v) = rkeys r ++ [k].
Proof.
  induction r as [|[k' v'] r IH]; simpl; [reflexivity|].
  destruct (str_eqb k k') eqn:E; simpl; [discriminate|]. intros H. f_equal. apply IH, H.
Qed.

Lemma rhas_In r k : rhas r k = true <-> In k (rkeys r).
Proof.
  induction r as [|[k' v'] r IH]; simpl.
  - split; [discriminate|tauto].
  - rewrite orb_true_iff, IH, str_eqb_eq. split; intros [H|H]; auto.
Qed.

Lemma rset_absent_app r k v : rhas r k = false -> rset r k v = r ++ [(k, v)].
Proof.
  induction r as [|[k' v'] r IH]; simpl; [reflexivity|].
  intros H. apply orb_false_iff in H as [H1 H2]. rewrite H1. f_equal. apply IH, H2.
Qed.

Lemma rkeys_app a b : rkeys (a ++ b) = rkeys a ++ rkeys b.
Proof. unfold rkeys. apply map_app. Qed.

(* building a dict from pairs with distinct keys keeps the pairs as they are *)
Lemma fold_rset_nodup l : forall acc,
  NoDup (rkeys acc ++ rkeys l) ->
  fold_left (fun a kv => rset a (fst kv) (snd kv)) l acc = acc ++ l.
Proof.
  induction l as [|[k v] l IH]; intros acc ND; simpl; [rewrite app_nil_r; reflexivity|].
  assert (A : rhas acc k = false).
  { destruct (rhas acc k) eqn:E; [|reflexivity]. apply rhas_In in E.
    simpl in ND. apply NoDup_remove_2 in ND. exfalso. apply ND. apply in_or_app. left. exact E. }
  rewrite rset_absent_app by exact A. rewrite IH.
  - rewrite <- app_assoc. reflexivity.
  - rewrite rkeys_app. simpl. rewrite <- app_assoc. exact ND.
Qed.

Lemma rdict_nodup l : NoDup (rkeys l) -> rdict l = l.
Proof. intros H. unfold rdict, rupdate. rewrite fold_rset_nodup; [reflexivity|exact H]. Qed.

(* induction over the nested value type *)
Section ValueInd.
  Variable P : value -> Prop.
  Hypothesis Hnull : P VNull.
  Hypothesis Hbool : forall b, P (VBool b).
  Hypothesis Hint : forall z, P (VInt z).
  Hypothesis Hdec : forall m e, P (VDec m e).
  Hypothesis Hflt : forall m e, P (VFlt m e).
  Hypothesis Hstr : forall x, P (VStr x).
  Hypothesis Hdate : forall y m d, P (VDate y m d).
  Hypothesis Htime : forall h mi sc us, P (VTime h mi sc us).
  Hypothesis Hdt : forall y mo d h mi sc us tz, P (VDT y mo d h mi sc us tz).
  Hypothesis Hdur : forall d sc us, P (VDur d sc us).
  Hypothesis Hlist : forall l, Forall P l -> P (VList l).
  Hypothesis Hobj : forall l, Forall (fun kv => P (snd kv)) l -> P (VObj l).

  Fixpoint value_ind2 (v : value) : P v :=
    match v with
    | VNull => Hnull
    | VBool b => Hbool b
    | VInt z => Hint z
    | VDec m e => Hdec m e
    | VFlt m e => Hflt m e
    | VStr x => Hstr x
    | VDate y m d => Hdate y m d
    | VTime h mi sc us => Htime h mi sc us
    | VDT y mo d h mi sc us tz => Hdt y mo d h mi sc us tz
    | VDur d sc us => Hdur d sc us
    | VList l =>
        Hlist l ((fix go (l : list value) : Forall P l :=
                    match l with
                    | [] => Forall_nil P
                    | x :: r => Forall_cons x (value_ind2 x) (go r)
                    end) l)
    | VObj l =>
        Hobj l ((fix go (l : list (str * value)) : Forall (fun kv => P (snd kv)) l :=
                   match l with
                   | [] => Forall_nil _
                   | kv :: r => Forall_cons kv (value_ind2 (snd kv)) (go r)
                   end) l)
    end.
End ValueInd.

(* dict.update with a well-formed dict: every key of the update takes the update's value *)
Lemma rget_fold_rset_other r : forall y k,
  ~ In k (rkeys r) -> rget (fold_left (fun a kv => rset a (fst kv) (snd kv)) r y) k = rget y k.
Proof.
  induction r as [|[a b] r IH]; intros y k N; simpl; [reflexivity|].
  rewrite IH by (intros X; apply N; right; exact X).
  apply rget_rset_other. intros ->. apply N. left. reflexivity.
Qed.

Lemma rget_rupdate_in r : forall x k v,
  NoDup (rkeys r) -> rget r k = Some v -> rget (rupdate x r) k = Some v.
Proof.
  unfold rupdate. induction r as [|[a b] r IH]; intros x k v ND H; simpl in *; [discriminate|].
  inversion ND as [|? ? Hn ND']; subst.
  destruct (str_eqb k a) eqn:E.
  - apply str_eqb_eq in E. subst a. injection H as <-.
    rewrite rget_fold_rset_other by exact Hn. apply rget_rset_same.
  - apply IH; assumption.
Qed.

Lemma rget_rupdate_notin r x k : ~ In k (rkeys r) -> rget (rupdate x r) k = rget x k.
Proof. intros N. unfold rupdate. apply rget_fold_rset_other, N. Qed.
