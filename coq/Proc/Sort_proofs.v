From Coq Require Import List ZArith Bool Lia Permutation Sorted.
From DF Require Import Base.Str Base.Str_proofs Base.ListX Base.Value Proc.RowOps Proc.Fields Proc.Sort.
Import ListNotations.
Open Scope Z_scope.

(* ================= the ordered store ================= *)
Definition klt {A} (a b : str * A) : Prop := str_ltb (fst a) (fst b) = true.

Lemma kv_insert_In {A} k (v : A) l x :
  In x (kv_insert k v l) -> x = (k, v) \/ In x l.
Proof.
  induction l as [|[k' v'] l IH]; simpl.
  - intros [<-|[]]. left. reflexivity.
  - destruct (str_ltb k k'); [|destruct (str_eqb k k')]; simpl.
    + intros [<-|H]; auto.
    + intros [<-|H]; auto.
    + intros [<-|H]; auto. destruct (IH H); auto.
Qed.

Lemma kv_insert_sorted {A} k (v : A) l :
  StronglySorted klt l -> StronglySorted klt (kv_insert k v l).
Proof.
  induction l as [|[k' v'] l IH]; intros S; simpl.
  - repeat constructor.
  - inversion S as [|? ? S' F]; subst.
    destruct (str_ltb k k') eqn:L.
    + constructor; [exact S|]. constructor; [exact L|].
      rewrite Forall_forall in *. intros x Hx. unfold klt in *. simpl in *.
      eapply str_ltb_trans; [exact L|apply F, Hx].
    + destruct (str_eqb k k') eqn:E.
      * apply str_eqb_eq in E. subst. constructor; assumption.
      * constructor; [apply IH, S'|].
        rewrite Forall_forall in *. intros x Hx. apply kv_insert_In in Hx as [->|Hx]; [|apply F, Hx].
        unfold klt. simpl. destruct (str_ltb_trichotomy k k') as [T|[T|T]]; [congruence| |exact T].
        subst. rewrite str_eqb_refl in E. discriminate.
Qed.

Lemma kv_insert_perm {A} k (v : A) l :
  ~ In k (map fst l) -> Permutation (kv_insert k v l) ((k, v) :: l).
Proof.
  induction l as [|[k' v'] l IH]; intros N; simpl; [reflexivity|].
  destruct (str_ltb k k'); [reflexivity|].
  destruct (str_eqb k k') eqn:E.
  - apply str_eqb_eq in E. subst. exfalso. apply N. left. reflexivity.
  - rewrite perm_swap. constructor. apply IH. intros X. apply N. right. exact X.
Qed.

Lemma kv_items_gen {A} (entries : list (str * A)) : forall acc,
  StronglySorted klt acc -> NoDup (map fst entries ++ map fst acc) ->
  StronglySorted klt (fold_left (fun a kv => kv_insert (fst kv) (snd kv) a) entries acc) /\
  Permutation (fold_left (fun a kv => kv_insert (fst kv) (snd kv) a) entries acc) (entries ++ acc).
Proof.
  induction entries as [|[k v] es IH]; intros acc S ND; simpl.
  - split; [exact S|reflexivity].
  - simpl in ND. inversion ND as [|? ? Hn ND']; subst.
    assert (Nk : ~ In k (map fst acc)) by (intros X; apply Hn; apply in_or_app; right; exact X).
    pose proof (kv_insert_perm k v acc Nk) as P.
    destruct (IH (kv_insert k v acc)) as [S2 P2].
    + apply kv_insert_sorted, S.
    + (* keys of the new accumulator = k :: keys acc, permuted *)
      assert (Pk : Permutation (map fst es ++ map fst (kv_insert k v acc)) (map fst es ++ k :: map fst acc)).
      { apply Permutation_app_head. change (k :: map fst acc) with (map fst ((k, v) :: acc)).
        apply Permutation_map, P. }
      eapply Permutation_NoDup; [symmetry; exact Pk|].
      apply NoDup_app_intro.
      * apply NoDup_app_remove_r in ND'. exact ND'.
      * constructor; [exact Nk|]. apply NoDup_app_remove_l in ND'. exact ND'.
      * intros x H1 [<-|H2].
        -- apply Hn. apply in_or_app. left. exact H1.
        -- eapply NoDup_app_disjoint; eassumption.
    + split; [exact S2|]. rewrite P2. rewrite P. symmetry. apply Permutation_middle.
Qed.

Lemma kv_items_sorted_perm {A} (entries : list (str * A)) :
  NoDup (map fst entries) ->
  StronglySorted klt (kv_items entries) /\ Permutation (kv_items entries) entries.
Proof.
  intros ND. unfold kv_items. destruct (kv_items_gen entries []) as [S P].
  - constructor.
  - simpl. rewrite app_nil_r. exact ND.
  - split; [exact S|]. rewrite app_nil_r in P. exact P.
Qed.

(* payloads do not influence the order *)
Lemma kv_insert_map {A B} (f : A -> B) k v l :
  kv_insert k (f v) (map (fun kv => (fst kv, f (snd kv))) l) = map (fun kv => (fst kv, f (snd kv))) (kv_insert k v l).
Proof.
  induction l as [|[k' v'] l IH]; simpl; [reflexivity|].
  destruct (str_ltb k k'); [reflexivity|]. destruct (str_eqb k k'); [reflexivity|].
  simpl. rewrite IH. reflexivity.
Qed.

Lemma kv_items_map {A B} (f : A -> B) entries :
  kv_items (map (fun kv => (fst kv, f (snd kv))) entries) = map (fun kv => (fst kv, f (snd kv))) (kv_items entries).
Proof.
  unfold kv_items.
  assert (G : forall acc, fold_left (fun a kv => kv_insert (fst kv) (snd kv) a)
                                    (map (fun kv => (fst kv, f (snd kv))) entries)
                                    (map (fun kv => (fst kv, f (snd kv))) acc)
                          = map (fun kv => (fst kv, f (snd kv)))
                                (fold_left (fun a kv => kv_insert (fst kv) (snd kv) a) entries acc)).
  { induction entries as [|[k v] es IH]; intros acc; simpl; [reflexivity|].
    rewrite kv_insert_map. apply IH. }
  apply (G []).
Qed.

(* ================= fixed-width hexadecimal ================= *)
Lemma hexw_length w n : length (hexw w n) = w.
Proof. revert n; induction w as [|w IH]; intros n; simpl; [reflexivity|]. rewrite app_length, IH. simpl. lia. Qed.

Lemma hex_digit_lt a b : 0 <= a < 16 -> 0 <= b < 16 -> (hex_digit a <? hex_digit b) = (a <? b).
Proof.
  intros Ha Hb. unfold hex_digit.
  destruct (a <? 10) eqn:A; destruct (b <? 10) eqn:B;
    destruct (a <? b) eqn:C; try (apply Z.ltb_lt); try (apply Z.ltb_ge);
    try (apply Z.ltb_lt in A); try (apply Z.ltb_ge in A); try (apply Z.ltb_lt in B); try (apply Z.ltb_ge in B);
    try (apply Z.ltb_lt in C); try (apply Z.ltb_ge in C); lia.
Qed.

Lemma hex_digit_inj a b : 0 <= a < 16 -> 0 <= b < 16 -> hex_digit a = hex_digit b -> a = b.
Proof.
  intros Ha Hb. unfold hex_digit. destruct (a <? 10) eqn:A; destruct (b <? 10) eqn:B;
    try (apply Z.ltb_lt in A); try (apply Z.ltb_ge in A); try (apply Z.ltb_lt in B); try (apply Z.ltb_ge in B); lia.
Qed.

(* lexicographic comparison of concatenations with equally long heads *)
Lemma str_ltb_app_eqlen k1 k2 s1 s2 :
  length k1 = length k2 ->
  str_ltb (k1 ++ s1) (k2 ++ s2) = str_ltb k1 k2 || (str_eqb k1 k2 && str_ltb s1 s2).
Proof.
  revert k2; induction k1 as [|x k1 IH]; intros [|y k2] L; simpl in *; try discriminate.
  - reflexivity.
  - injection L as L. rewrite IH by exact L.
    destruct (x <? y); simpl; [reflexivity|]. destruct (x =? y); simpl; reflexivity.
Qed.

Lemma str_eqb_app_eqlen k1 k2 s1 s2 :
  length k1 = length k2 -> str_eqb (k1 ++ s1) (k2 ++ s2) = str_eqb k1 k2 && str_eqb s1 s2.
Proof.
  revert k2; induction k1 as [|x k1 IH]; intros [|y k2] L; simpl in *; try discriminate.
  - reflexivity.
  - injection L as L. rewrite IH by exact L. rewrite andb_assoc. reflexivity.
Qed.

Lemma str_ltb_single x y : str_ltb [x] [y] = (x <? y).
Proof. simpl. rewrite andb_false_r, orb_false_r. reflexivity. Qed.
Lemma str_eqb_single x y : str_eqb [x] [y] = (x =? y).
Proof. simpl. rewrite andb_true_r. reflexivity. Qed.

Lemma hexw_order w : forall a b,
  0 <= a < 16 ^ Z.of_nat w -> 0 <= b < 16 ^ Z.of_nat w ->
  str_ltb (hexw w a) (hexw w b) = (a <? b) /\ str_eqb (hexw w a) (hexw w b) = (a =? b).
Proof.
  induction w as [|w IH]; intros a b Ha Hb.
  - simpl in *. assert (a = 0) by lia. assert (b = 0) by lia. subst. split; reflexivity.
  - rewrite Nat2Z.inj_succ, Z.pow_succ_r in Ha, Hb by lia.
    assert (Ha' : 0 <= a / 16 < 16 ^ Z.of_nat w) by (split; [apply Z.div_pos; lia|apply Z.div_lt_upper_bound; lia]).
    assert (Hb' : 0 <= b / 16 < 16 ^ Z.of_nat w) by (split; [apply Z.div_pos; lia|apply Z.div_lt_upper_bound; lia]).
    destruct (IH _ _ Ha' Hb') as [IHl IHe].
    simpl hexw.
    rewrite str_ltb_app_eqlen by (rewrite !hexw_length; reflexivity).
    rewrite str_eqb_app_eqlen by (rewrite !hexw_length; reflexivity).
    rewrite IHl, IHe, str_ltb_single, str_eqb_single.
    pose proof (Z.mod_pos_bound a 16 ltac:(lia)) as Ma. pose proof (Z.mod_pos_bound b 16 ltac:(lia)) as Mb.
    rewrite hex_digit_lt by lia.
    pose proof (Z.div_mod a 16 ltac:(lia)) as Da. pose proof (Z.div_mod b 16 ltac:(lia)) as Db.
    split.
    + destruct (a / 16 <? b / 16) eqn:C1; simpl.
      * apply Z.ltb_lt in C1. symmetry. apply Z.ltb_lt. lia.
      * apply Z.ltb_ge in C1. destruct (a / 16 =? b / 16) eqn:C2; simpl.
        -- apply Z.eqb_eq in C2. destruct (a mod 16 <? b mod 16) eqn:C3.
           ++ apply Z.ltb_lt in C3. symmetry. apply Z.ltb_lt. lia.
           ++ apply Z.ltb_ge in C3. symmetry. apply Z.ltb_ge. lia.
        -- apply Z.eqb_neq in C2. symmetry. apply Z.ltb_ge. lia.
    + destruct (a / 16 =? b / 16) eqn:C2; simpl.
      * apply Z.eqb_eq in C2. destruct (hex_digit (a mod 16) =? hex_digit (b mod 16)) eqn:C3.
        -- apply Z.eqb_eq in C3. apply hex_digit_inj in C3; [|lia|lia]. symmetry. apply Z.eqb_eq. lia.
        -- apply Z.eqb_neq in C3. symmetry. apply Z.eqb_neq. intros ->. apply C3. reflexivity.
      * apply Z.eqb_neq in C2. symmetry. apply Z.eqb_neq. intros ->. apply C2. reflexivity.
Qed.

(* ================= keys that are not proper prefixes of one another ================= *)
Fixpoint pfree (a b : str) : bool :=
  match a, b with
  | [], [] => true
  | [], _ :: _ => false
  | _ :: _, [] => false
  | x :: a', y :: b' => negb (x =? y) || pfree a' b'
  end.

Lemma pfree_eqlen a b : length a = length b -> pfree a b = true.
Proof.
  revert b; induction a as [|x a IH]; intros [|y b] L; simpl in *; try discriminate; [reflexivity|].
  injection L as L. rewrite IH by exact L. apply orb_true_r.
Qed.

Lemma str_ltb_app_pfree k1 k2 s1 s2 :
  pfree k1 k2 = true ->
  str_ltb (k1 ++ s1) (k2 ++ s2) = str_ltb k1 k2 || (str_eqb k1 k2 && str_ltb s1 s2).
Proof.
  revert k2; induction k1 as [|x k1 IH]; intros [|y k2] P; simpl in *; try discriminate.
  - reflexivity.
  - destruct (x <? y) eqn:L; simpl; [reflexivity|].
    destruct (x =? y) eqn:E; simpl; [|reflexivity].
    simpl in P. apply IH, P.
Qed.

(* ================= the sorter ================= *)
(* order on (key, row number): by key, ties by row number *)
Definition lt2 (a b : str * Z) : Prop :=
  str_ltb (fst a) (fst b) = true \/ (fst a = fst b /\ snd a < snd b).

(* the entries sort_rows hands to the store, with the row number as payload *)
Fixpoint tag_keys (w : nat) (i : Z) (ks : list str) : list (str * (str * Z)) :=
  match ks with
  | [] => []
  | k :: ks' => (k ++ hexw w i, (k, i)) :: tag_keys w (i + 1) ks'
  end.

Lemma tag_keys_payload w ks : forall i x,
  In x (tag_keys w i ks) -> fst x = fst (snd x) ++ hexw w (snd (snd x)) /\ i <= snd (snd x) < i + Z.of_nat (length ks)
                            /\ In (fst (snd x)) ks.
Proof.
  induction ks as [|k ks IH]; intros i x H; simpl in H; [destruct H|].
  destruct H as [<-|H].
  - simpl. split; [reflexivity|]. split; [lia|]. left. reflexivity.
  - destruct (IH _ _ H) as [A [B C]]. split; [exact A|]. split; [simpl length; lia|]. right. exact C.
Qed.

Definition all_pfree (ks : list str) : Prop := forall a b, In a ks -> In b ks -> pfree a b = true.

Lemma full_key_order w ks i x y :
  all_pfree ks -> 0 <= i -> i + Z.of_nat (length ks) <= 16 ^ Z.of_nat w ->
  In x (tag_keys w i ks) -> In y (tag_keys w i ks) ->
  str_ltb (fst x) (fst y) = true -> lt2 (snd x) (snd y).
Proof.
  intros PF Hi Hn Hx Hy L.
  destruct (tag_keys_payload _ _ _ _ Hx) as [Ex [Bx Ix]].
  destruct (tag_keys_payload _ _ _ _ Hy) as [Ey [By Iy]].
  rewrite Ex, Ey in L. rewrite str_ltb_app_pfree in L by (apply PF; assumption).
  apply orb_true_iff in L as [L|L]; [left; exact L|].
  apply andb_true_iff in L as [E L]. apply str_eqb_eq in E. right. split; [exact E|].
  destruct (hexw_order w (snd (snd x)) (snd (snd y))) as [O _]; [lia|lia|].
  rewrite O in L. apply Z.ltb_lt in L. exact L.
Qed.

Lemma tag_keys_nodup w ks : forall i,
  0 <= i -> i + Z.of_nat (length ks) <= 16 ^ Z.of_nat w -> all_pfree ks ->
  NoDup (map fst (tag_keys w i ks)).
Proof.
  induction ks as [|k ks IH]; intros i Hi Hn PF; simpl; [constructor|].
  constructor.
  - intros X. apply in_map_iff in X as [x [E Hx]].
    destruct (tag_keys_payload _ _ _ _ Hx) as [Ex [Bx Ix]].
    rewrite Ex in E.
    assert (P : pfree (fst (snd x)) k = true) by (apply PF; [right; exact Ix|left; reflexivity]).
    assert (Q : str_eqb (fst (snd x) ++ hexw w (snd (snd x))) (k ++ hexw w i) = true) by (apply str_eqb_eq; exact E).
    clear E.
    assert (G : forall a b s1 s2, pfree a b = true -> str_eqb (a ++ s1) (b ++ s2) = str_eqb a b && str_eqb s1 s2).
    { induction a as [|p a IHa]; intros [|q b] s1 s2 Pf; simpl in *; try discriminate; [reflexivity|].
      destruct (p =? q); simpl in *; [apply IHa, Pf|reflexivity]. }
    rewrite G in Q by exact P. apply andb_true_iff in Q as [_ Q].
    simpl length in Hn. destruct (hexw_order w (snd (snd x)) i) as [_ O]; [lia|lia|].
    rewrite O in Q. apply Z.eqb_eq in Q. lia.
  - apply IH; [lia|simpl length in Hn; lia|]. intros a b Ha Hb. apply PF; right; assumption.
Qed.

(* the list of (key, row number) in output order *)
Definition sorted_tags (w : nat) (ks : list str) : list (str * Z) := map snd (kv_items (tag_keys w 0 ks)).

Theorem sorted_tags_correct w ks :
  all_pfree ks -> Z.of_nat (length ks) <= 16 ^ Z.of_nat w ->
  StronglySorted lt2 (sorted_tags w ks) /\ Permutation (sorted_tags w ks) (map snd (tag_keys w 0 ks)).
Proof.
  intros PF Hn.
  destruct (kv_items_sorted_perm (tag_keys w 0 ks)) as [S P]; [apply tag_keys_nodup; [lia|lia|exact PF]|].
  split; [|apply Permutation_map, P].
  unfold sorted_tags.
  assert (InAll : forall x, In x (kv_items (tag_keys w 0 ks)) -> In x (tag_keys w 0 ks))
    by (intros x Hx; eapply Permutation_in; [exact P|exact Hx]).
  revert S InAll. generalize (kv_items (tag_keys w 0 ks)) as l.
  induction l as [|x l IH]; intros S InAll; simpl; [constructor|].
  inversion S as [|? ? S' F]; subst. constructor.
  - apply IH; [exact S'|]. intros y Hy. apply InAll. right. exact Hy.
  - rewrite Forall_forall in *. intros y Hy. apply in_map_iff in Hy as [z [<- Hz]].
    eapply full_key_order with (i := 0); try eassumption; try lia.
    + apply InAll. left. reflexivity.
    + apply InAll. right. exact Hz.
    + apply F, Hz.
Qed.

(* the tags are exactly the input keys with their positions *)
Lemma tag_keys_snd w ks : forall i,
  map snd (tag_keys w i ks) = combine ks (map (fun n => i + Z.of_nat n) (seq 0 (length ks))).
Proof.
  induction ks as [|k ks IH]; intros i; simpl; [reflexivity|].
  f_equal; [f_equal; lia|]. rewrite IH. f_equal. rewrite <- seq_shift, map_map.
  apply map_ext. intros n. lia.
Qed.

(* reverse=True is exactly the reversed sequence *)
Lemma sorter_reverse w kc rows out :
  sorter w kc false rows = Ok out -> sorter w kc true rows = Ok (rev out).
Proof.
  unfold sorter. destruct (keyed_rows w kc 0 rows); [|discriminate].
  intros H. injection H as <-. reflexivity.
Qed.

(* relation between the row sorter and the tag sorter: same order of entries *)
Lemma keyed_rows_keys w kc rows : forall i entries,
  keyed_rows w kc i rows = Ok entries ->
  exists ks, map_res kc rows = Ok ks /\ map fst entries = map fst (tag_keys w i ks) /\ map snd entries = rows.
Proof.
  induction rows as [|r rs IH]; intros i entries H; simpl in H.
  - injection H as <-. exists []. repeat split; reflexivity.
  - simpl. destruct (kc r) as [k|c]; [|discriminate].
    destruct (keyed_rows w kc (i + 1) rs) as [l|c] eqn:E; [|discriminate].
    injection H as <-. destruct (IH _ _ E) as [ks [A [B C]]].
    exists (k :: ks). rewrite A. simpl. rewrite B, C. repeat split; reflexivity.
Qed.
