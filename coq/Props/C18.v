(* C18: parallelize delivers every row exactly once under every schedule. *)
From Coq Require Import List ZArith Bool Permutation.
From DF Require Import Conc.Parallelize Conc.Parallelize_proofs Conc.Parallelize_live.
Import ListNotations.

(* Safety, for every number of workers, every input and every interleaving of queue
   operations: in every reachable state the rows in the system (producer, queues, workers,
   fetcher, delivered) are exactly the input rows -- none lost, none duplicated. *)
Theorem C18_rows_conserved : forall n input ls s,
  run (init n input) ls = Some s -> Permutation (map iid (rows_of s)) (map iid input).
Proof. exact reachable_rows_are_input. Qed.
Print Assumptions C18_rows_conserved.

(* every delivered row has had the row function applied exactly when the predicate selects it *)
Theorem C18_delivered_rows_processed_iff_selected : forall n input ls s,
  Forall fresh input -> run (init n input) ls = Some s -> Forall settled (delivered s).
Proof. exact delivered_rows_settled. Qed.
Print Assumptions C18_delivered_rows_processed_iff_selected.

(* Termination: every queue operation decreases a measure, so no schedule -- fair or not --
   performs more than 6 * (rows + workers) operations *)
Theorem C18_every_step_decreases_measure : forall s l s', fire s l = Some s' -> mu s' < mu s.
Proof. exact fire_decreases. Qed.
Print Assumptions C18_every_step_decreases_measure.

Theorem C18_schedules_are_bounded : forall n input ls s,
  run (init n input) ls = Some s -> length ls <= 6 * (length input + n).
Proof.
  intros n input ls s H. pose proof (schedules_are_bounded ls _ _ H) as B.
  rewrite init_measure in B. apply (PeanoNat.Nat.le_trans _ (length ls + mu s)); [apply PeanoNat.Nat.le_add_r|exact B].
Qed.
Print Assumptions C18_schedules_are_bounded.

(* No deadlock, for every number of workers n >= 1, every input and every interleaving: as long as
   the collector has not seen the end marker, some activity can take a step *)
Theorem C18_no_deadlock : forall n input ls s, 1 <= n ->
  run (init n input) ls = Some s -> c_done s = false -> enabled s <> [].
Proof. exact no_deadlock. Qed.
Print Assumptions C18_no_deadlock.

(* Complete delivery: a state in which nothing can move (the end of every maximal schedule, which
   C18_schedules_are_bounded says is reached within 6 * (rows + workers) operations) has c_done set
   and has delivered exactly the input rows *)
Theorem C18_stuck_is_complete : forall n input ls s, 1 <= n ->
  run (init n input) ls = Some s -> enabled s = [] ->
  c_done s = true /\ Permutation (map iid (delivered s)) (map iid input).
Proof. exact stuck_is_complete. Qed.
Print Assumptions C18_stuck_is_complete.

(* and the collector never stops early: whenever it has seen the end marker every input row has
   been delivered already and every activity has finished *)
Theorem C18_done_is_complete_and_terminal : forall n input ls s, 1 <= n ->
  run (init n input) ls = Some s -> c_done s = true ->
  Permutation (map iid (delivered s)) (map iid input) /\ (forall l, fire s l = None).
Proof. exact done_is_complete_and_terminal. Qed.
Print Assumptions C18_done_is_complete_and_terminal.

Example C18_nonvacuous :
  let a := {| iid := 0; isel := true; idone := false |} in
  let b := {| iid := 1; isel := false; idone := false |} in
  match run (init 1 [a; b]) [LProd; LWGet 0; LProd; LWPut 0; LProd; LFGet; LWGet 0; LCol; LFPut; LWPut 0; LFGet; LFPut; LCol; LCol] with
  | Some s => c_done s = true /\ delivered s = [b; process a]
  | None => False
  end.
Proof. vm_compute. split; reflexivity. Qed.
