"""C03 A dumped data package loads back to the same typed data."""
import copy, shutil, json, csv, io, zipfile
from common import *
from flowutil import *
import dataflows as DF
from tableschema import Field

PROP = 'C03'
PROPS_V = 'Props/C03.v'
COQ_IMPORTS = ['IO.RowCells', 'Base.Str', 'Base.Value', 'IO.Csv', 'IO.EJson', 'IO.JsonText', 'IO.SortKeys']
RULE = ('cases = tables over string/integer/number/boolean/date/time/datetime/year/array/object fields (nulls, negatives, '
        'high-precision decimals, quotes, delimiters, newlines, non-BMP unicode; temporal values at second precision; no '
        'bare CR) x csv/json x dump_to_path/dump_to_zip x add_filehash_to_path x temporal_format_property x 1-3 resources x '
        'field orders that are not alphabetical; non-trivial = a cell needs quoting or a non-string type is present; '
        'distinct = distinct case digest'
        '; round 4: fields optionally carry parsing options from upstream (decimalChar/groupChar/bareNumber, custom boolean words, date formats), and add_filehash_to_path is also run with byte-identical twin resources'
        "; round 8: rows reaching the dumper with their keys in another order than the schema's fields; histories of three dumps into one directory with failing runs in between (whenever a run succeeds the directory loads back as what it dumped)"
        '; round 9: dumps made by an interpreter under an ASCII default text encoding (non-ASCII titles in the descriptor); primary keys in the string and in the list form survive dump and load')
TRUSTED = ['Coq 8.16.1 kernel + vm_compute', 'harness/p03.py oracle and the independent decoder (reads the written files with only the recorded dialect / format / missingValues / field properties)',
           'Python scalar text codecs satisfy parse(print x) = x (hypotheses of C03_field_codec; exercised end to end)',
           'the CSV-layer round trip read_csv (write_csv recs) = Ok recs is proved for every table (C03_csv_layer_roundtrip, IO/Csv_proofs.v); that IO/Csv.v is Python\'s csv writer/reader is checked by vm_compute against the csv module on the cell texts of every generated CSV case']
ASSUMES = ['the empty string is a missing value by Table Schema convention (\'\' loads back as null)', 'naive datetimes, second precision']

STRS = ['a', 'b c', ' pad ', 'say "hi"', 'a,b', 'line1\nline2', 'é☃𝄞', 'x;y', "it's", '1', 'True', 'NULL', '\ttab']
FIELD_TYPES = ['string', 'integer', 'number', 'boolean', 'date', 'time', 'datetime', 'year', 'array', 'object']
NAMES = ['zeta', 'alpha', 'mid', 'Beta', 'n1', 'n10', 'n2', 'é', 'a b']


def gen_value(rng, t):
    if rng.chance(0.15):
        return None
    if t == 'string':
        return rng.pick(STRS)
    if t == 'integer':
        return rng.pick([0, 1, -7, 2 ** 40, 123456789012345678901234567890])
    if t == 'number':
        return decimal.Decimal(rng.pick(['1.5', '-0.001', '3', '123456789.123456789123456789', '1E+3', '0.10',
                                           '1.000000000000000000000000000001', '-123456789012345678901234567890.123456789']))
    if t == 'boolean':
        return rng.chance(0.5)
    if t == 'date':
        return datetime.date(rng.pick([1900, 1999, 2024, 999, 1]), rng.randint(1, 12), rng.randint(1, 28))
    if t == 'time':
        return datetime.time(rng.randint(0, 23), rng.randint(0, 59), rng.randint(0, 59))
    if t == 'datetime':
        return datetime.datetime(rng.pick([1970, 2024, 999, 1, 800]), rng.randint(1, 12), rng.randint(1, 28), rng.randint(0, 23), rng.randint(0, 59), rng.randint(0, 59))
    if t == 'year':
        return rng.pick([1999, 2024, 800])
    if t == 'array':
        return rng.pick([[], [1, 2], ['a', 'b,c'], [1, 'x', None], [[1], [2]]])
    if t == 'object':
        return rng.pick([{}, {'k': 1}, {'a': 'x"y', 'b': [1, 2]}, {'é': None}])


def gen_cases(rng, tier):
    n = {'quick': 60, 'thorough': 700, 'search': 300}[tier]
    cases = []
    for i in range(n):
        nres = rng.randint(1, 3)
        pkg = []
        for r in range(nres):
            names = rng.sample(NAMES, rng.randint(1, 5))
            if rng.chance(0.3):
                names = sorted(names)
            fields = [[nm, rng.pick(FIELD_TYPES)] for nm in names]
            rows = [dict((nm, gen_value(rng, t)) for nm, t in fields) for _ in range(rng.randint(0, 5))]
            pk = None
            pkg.append({'name': 'res%d' % r, 'fields': fields, 'rows': rows_enc(rows)})
        # a user-supplied temporal format with a bare %Y cannot represent years below 1000 unambiguously (strftime does not
        # pad them): such values only with the library's own default formats
        # (so with the property in use, a column holding such a year is left without it and falls back to the defaults)
        tfp = rng.chance(0.3)
        tfp_fields = []
        if tfp:
            for r in pkg:
                rows = rows_dec(r['rows'])
                for nm, t in r['fields']:
                    small = any(isinstance(row.get(nm), (datetime.date, datetime.datetime)) and row[nm].year < 1000 for row in rows)
                    if t in ('date', 'time', 'datetime') and not small and rng.chance(0.7):
                        tfp_fields.append([r['name'], nm])
        # parsing options the incoming descriptor carries on its fields (a European number format, custom boolean
        # words, a source date format): what is written must decode by what is recorded
        fprops = []
        for r in pkg:
            for nm, t in r['fields']:
                if rng.chance(0.35):
                    pr = {'number': [{'decimalChar': ',', 'groupChar': '.'}, {'groupChar': ','}, {'decimalChar': ','}, {'bareNumber': False}],
                          'boolean': [{'trueValues': ['yes', 'y'], 'falseValues': ['no']}, {'trueValues': ['1'], 'falseValues': ['0']}],
                          'integer': [{'bareNumber': False}], 'date': [{'format': '%d-%m-%Y'}], 'datetime': [{'format': 'any'}],
                          'string': [{'format': 'email'}]}.get(t)
                    if pr and not (t == 'string'):
                        fprops.append([r['name'], nm, rng.pick(pr)])
        hashpath = rng.chance(0.3)
        if hashpath and rng.chance(0.5):
            # two resources whose written files are byte-identical (the hash directory is shared)
            twin = copy.deepcopy(pkg[0])
            twin['name'] = 'twin'
            pkg.append(twin)
            fprops += [['twin', b, c] for a, b, c in fprops if a == pkg[0]['name']]
            tfp_fields += [['twin', b] for a, b in tfp_fields if a == pkg[0]['name']]
        cases.append({'kind': 'roundtrip', 'pkg': pkg, 'format': rng.pick(['csv', 'csv', 'json']), 'zip': rng.chance(0.3),
                      'hashpath': hashpath, 'tfp': tfp, 'tfp_fields': tfp_fields, 'fprops': fprops,
                      # a later step of the same flow that edits the rows in place (what was dumped is what entered the dumper),
                      # and the dump read back through the documented env:// form of the source
                      'mutate_after': rng.chance(0.3), 'via_env': rng.chance(0.25),
                      # missing-value tokens declared by the resources' schemas: nulls must come back as nulls, and an empty
                      # string stays an empty string when '' is not among the tokens
                      'mv': rng.pick([None, None, ['n/a'], ['', 'NA'], ['-', 'n/a']]),
                      # rows reach the dumper with their keys in another order than the schema lists the fields
                      'keyorder': rng.pick([None, None, 'rotate', 'reverse'])})
    # systematically: strings with blanks, tabs and line breaks at their ends, through every way of writing and reading back
    pad_rows = [{'alpha': ' pad ', 'beta': '\ttab'}, {'alpha': 'x\n', 'beta': '   '}, {'alpha': 'plain', 'beta': None}]
    for fmt in ('csv', 'json'):
        for z, env in ((True, False), (False, False), (False, True)):
            cases.append({'kind': 'roundtrip', 'pkg': [{'name': 'res0', 'fields': [['alpha', 'string'], ['beta', 'string']], 'rows': rows_enc(pad_rows)}],
                          'format': fmt, 'zip': z, 'hashpath': False, 'tfp': False, 'tfp_fields': [], 'fprops': [], 'mutate_after': False, 'via_env': env})
    # primary keys in the string and in the list form (rows unique in the key): the key survives the dump and the load
    for fmt in ('csv', 'json'):
        for pk in ('alpha', ['alpha'], ['alpha', 'beta'], 'beta'):
            rows_ = [{'alpha': 1, 'beta': 'x', 'gamma': 'u'}, {'alpha': 2, 'beta': 'y', 'gamma': 'v'}]
            cases.append({'kind': 'roundtrip', 'pkg': [{'name': 'res0', 'fields': [['alpha', 'integer'], ['beta', 'string'], ['gamma', 'string']], 'rows': rows_enc(rows_), 'pk': pk}],
                          'format': fmt, 'zip': fmt == 'json', 'hashpath': False, 'tfp': False, 'tfp_fields': [], 'fprops': [], 'mutate_after': False, 'via_env': False})
    # (string-valued rows: the model lays them out under the header itself, see coq_term)
    for ko in ('rotate', 'reverse'):
        rows_ = [{'alpha': 'p', 'beta': 'x,y', 'gamma': 'u'}, {'alpha': 'q', 'beta': None, 'gamma': 'v "w"'}, {'alpha': '', 'beta': 'z', 'gamma': 'line\nbreak'}]
        cases.append({'kind': 'roundtrip', 'pkg': [{'name': 'res0', 'fields': [['alpha', 'string'], ['beta', 'string'], ['gamma', 'string']], 'rows': rows_enc(rows_)}],
                      'format': 'csv', 'zip': False, 'hashpath': False, 'tfp': False, 'tfp_fields': [], 'fprops': [], 'mutate_after': False,
                      'via_env': False, 'keyorder': ko})
    for fmt in ('csv', 'json'):
        for ko in ('rotate', 'reverse'):
            for z in (False, True):
                rows_ = [{'alpha': 1, 'beta': 'x', 'gamma': 'u'}, {'alpha': 2, 'beta': 'y', 'gamma': 'v'}]
                cases.append({'kind': 'roundtrip', 'pkg': [{'name': 'res0', 'fields': [['alpha', 'integer'], ['beta', 'string'], ['gamma', 'string']], 'rows': rows_enc(rows_)}],
                              'format': fmt, 'zip': z, 'hashpath': False, 'tfp': False, 'tfp_fields': [], 'fprops': [], 'mutate_after': False,
                              'via_env': False, 'keyorder': ko})
    for fmt in ('csv', 'json'):
        for mv in (['n/a'], ['-', 'n/a'], ['', 'NA']):
            rows_ = [{'alpha': 1, 'beta': 'x'}, {'alpha': None, 'beta': None}, {'alpha': 3, 'beta': ''}]
            cases.append({'kind': 'roundtrip', 'pkg': [{'name': 'res0', 'fields': [['alpha', 'integer'], ['beta', 'string']], 'rows': rows_enc(rows_)}],
                          'format': fmt, 'zip': False, 'hashpath': False, 'tfp': False, 'tfp_fields': [], 'fprops': [], 'mutate_after': False,
                          'via_env': False, 'mv': mv})
    for fmt, z in (('csv', False), ('json', False), ('csv', True)):
        cases.append({'kind': 'localedump', 'format': fmt, 'zip': z, 'ascii': True})
    cases.append({'kind': 'localedump', 'format': 'csv', 'zip': False, 'ascii': False})
    # histories of dumps into one directory: successful and failing runs of different data in any order; whenever a run
    # succeeds, the package in the directory loads back as what that run dumped (round 8)
    hist = [[a, b, c] for a in ('A', 'B', 'Bfail') for b in ('A', 'B', 'Afail', 'Bfail') for c in ('A', 'B')]
    if tier == 'quick':
        hist = [h for h in hist if rng.chance(0.5) or h == ['A', 'Bfail', 'A']]
    for h in hist:
        cases.append({'kind': 'samedir', 'history': h, 'format': 'csv', 'hashpath': rng.chance(0.2)})
    # the CSV layer alone: the model of Python's csv against the csv module, on tables and on arbitrary texts
    alpha = ['a', 'b', ',', '"', '\r', '\n', ' ', 'é']
    for i in range({'quick': 60, 'thorough': 600, 'search': 100}[tier]):
        if rng.chance(0.5):
            recs = [[''.join(rng.pick(alpha) for _ in range(rng.randint(0, 4))) for _ in range(rng.randint(0, 3))]
                    for _ in range(rng.randint(0, 4))]
            cases.append({'kind': 'csvlayer', 'recs': recs})
        else:
            cases.append({'kind': 'csvtext', 'text': ''.join(rng.pick(alpha) for _ in range(rng.randint(0, 12)))})
    # row counts at the library's usual batch size (1000) and around it
    sizes = {'quick': [1000], 'thorough': [999, 1000, 1001, 2000], 'search': [1000, 2000]}[tier]
    for n_ in sizes:
        for fmt in ('json', 'csv'):
            rows = [{'alpha': j, 'zeta': 'v%d' % j} for j in range(n_)]
            cases.append({'kind': 'roundtrip', 'pkg': [{'name': 'res0', 'fields': [['alpha', 'integer'], ['zeta', 'string']],
                                                        'rows': rows_enc(rows)}],
                          'format': fmt, 'zip': False, 'hashpath': False, 'tfp': False, 'big': True})
    return cases


def witnesses():
    return [{'kind': 'roundtrip', 'pkg': [{'name': 'res0', 'fields': [['s', 'string']], 'rows': rows_enc([{'s': 'x' * 140000}])}],
             'format': 'csv', 'zip': False, 'hashpath': False, 'tfp': False, 'witness_of': 'C03.csv_field_over_128k'},
            {'kind': 'roundtrip', 'pkg': [{'name': 'res0', 'fields': [['s', 'string'], ['i', 'integer'], ['n', 'number']],
                                            'rows': rows_enc([{'s': 'x', 'i': 1, 'n': decimal.Decimal('2.5')}])}],
             'format': 'json', 'zip': False, 'hashpath': False, 'tfp': False, 'witness_of': 'C03.json_field_order'},
            {'kind': 'roundtrip', 'pkg': [{'name': 'res0', 'fields': [['s', 'string']], 'rows': rows_enc([{'s': 'x\r\ny'}])}],
             'format': 'csv', 'zip': False, 'hashpath': False, 'tfp': False, 'witness_of': 'C03.crlf_in_cell'}]


def run_csv(case):
    out = {}
    if case['kind'] == 'csvlayer':
        buf = io.StringIO(newline='')
        csv.writer(buf).writerows(case['recs'])
        out['text'] = buf.getvalue()
    else:
        out['text'] = case['text']
    try:
        out['read'] = list(csv.reader(io.StringIO(out['text'], newline='')))
    except csv.Error as e:
        out['read_error'] = str(e)
    return out


SAMEDIR_DATA = {'A': [{'id': 1, 'amount': decimal.Decimal('10.50'), 'who': 'ada'}, {'id': 2, 'amount': decimal.Decimal('-3.25'), 'who': 'bob'}],
                'B': [{'id': 1, 'amount': decimal.Decimal('99.99'), 'who': 'ada'}, {'id': 2, 'amount': decimal.Decimal('-0.01'), 'who': 'eve'}]}


def run_samedir(case):
    base = os.path.join(scratch(), 'c3h_%s' % digest(case))
    shutil.rmtree(base, ignore_errors=True)
    steps = []
    try:
        for h in case['history']:
            fail = h.endswith('fail')
            data = SAMEDIR_DATA[h[0]]
            res = [{'name': 'ledger', 'fields': [{'name': 'id', 'type': 'integer'}, {'name': 'amount', 'type': 'number'}, {'name': 'who', 'type': 'string'}],
                    'rows': copy.deepcopy(data)},
                   # the second resource of a failing run holds a value that is not of its declared type: the dumper rejects
                   # it after the first resource's file has been written
                   {'name': 'notes', 'fields': [{'name': 'n', 'type': 'integer'}], 'rows': [{'n': 1}, {'n': 'oops' if fail else 2}]}]
            try:
                with quiet():
                    Flow(Src(res), DF.dump_to_path(base, format=case['format'], add_filehash_to_path=case['hashpath'])).process()
                ok = True
            except Exception as e:
                ok = False
            st = {'ok': ok, 'fail_wanted': fail}
            if ok:
                try:
                    with quiet():
                        rows, dp, _ = Flow(DF.load(os.path.join(base, 'datapackage.json'))).results()
                    st['loaded'] = rows_enc(rows[0])
                except Exception as e:
                    st['load_error'] = '%s: %s' % (type(e).__name__, str(e)[:200])
            steps.append(st)
        return {'steps': steps}
    finally:
        shutil.rmtree(base, ignore_errors=True)


LOCALE_DUMP = '''
import json
from dataflows import Flow, dump_to_path, dump_to_zip, update_resource, update_package
rows = [{'a': 1, 'b': 'x'}, {'a': 2, 'b': 'y'}]
step = dump_to_zip(%(target)r, format=%(fmt)r) if %(zip)r else dump_to_path(%(target)r, format=%(fmt)r)
Flow(rows, update_package(title='Caf' + chr(233) + ' ' + chr(9731)), update_resource(-1, title='r' + chr(233) + 'sum' + chr(233)), step).process()
print('RESULT ' + json.dumps('dumped'))
'''


def run_localedump(case):
    """the dump made by an interpreter whose default text encoding is ASCII (ASCII-only rows, non-ASCII titles in the
    descriptor), read back here"""
    base = os.path.join(scratch(), 'c3loc_%s' % digest(case))
    shutil.rmtree(base, ignore_errors=True)
    os.makedirs(base)
    target = os.path.join(base, 'out.zip' if case['zip'] else 'out')
    try:
        got, err = child_python(LOCALE_DUMP % {'target': target, 'fmt': case['format'], 'zip': case['zip']}, ascii_locale=case['ascii'])
        if got != 'dumped':
            return {'error': 'the dump failed: %s' % err[-250:]}
        if case['zip']:
            with zipfile.ZipFile(target) as z:
                raw = z.read('datapackage.json')
        else:
            raw = open(os.path.join(target, 'datapackage.json'), 'rb').read()
        try:
            desc = json.loads(raw.decode('utf-8'))
        except Exception as e:
            return {'error': 'datapackage.json is not UTF-8 JSON: %s' % e}
        with quiet():
            rows, dp, _ = Flow(DF.load(target, format='datapackage') if case['zip'] else DF.load(os.path.join(target, 'datapackage.json'))).results()
        return {'title': desc.get('title'), 'rtitle': desc['resources'][0].get('title'), 'rows': rows[0]}
    except Exception as e:
        return {'error': '%s: %s' % (type(e).__name__, str(e)[:200])}
    finally:
        shutil.rmtree(base, ignore_errors=True)


def run_impl(case):
    if case['kind'] == 'localedump':
        return run_localedump(case)
    if case['kind'] in ('csvlayer', 'csvtext'):
        return run_csv(case)
    if case['kind'] == 'samedir':
        return run_samedir(case)
    base = os.path.join(scratch(), 'c3_%s' % digest(case))
    shutil.rmtree(base, ignore_errors=True)
    os.makedirs(base)
    res = []
    for r in case['pkg']:
        fields = []
        for nm, t in r['fields']:
            f = {'name': nm, 'type': t}
            if case['tfp'] and t in ('date', 'time', 'datetime') and ('tfp_fields' not in case or [r['name'], nm] in case['tfp_fields']):
                f['outputFormat'] = {'date': '%d/%m/%Y', 'time': '%H.%M.%S', 'datetime': '%Y%m%dT%H%M%S'}[t]
            for rn, fn, pr in case.get('fprops', []):
                if rn == r['name'] and fn == nm:
                    f.update(copy.deepcopy(pr))
            fields.append(f)
        res.append({'name': r['name'], 'fields': fields, 'rows': rows_dec(r['rows']), 'missingValues': case.get('mv'), 'pk': r.get('pk')})
    kw = {'format': case['format'], 'add_filehash_to_path': case['hashpath']}
    if case['tfp']:
        kw['temporal_format_property'] = 'outputFormat'
    target = os.path.join(base, 'out.zip' if case['zip'] else 'out')
    out = {}
    try:
        with quiet():
            Flow(Src(res), *({'rotate': [rotate_keys], 'reverse': [reverse_keys]}.get(case.get('keyorder'), [])),
                 DF.dump_to_zip(target, **kw) if case['zip'] else DF.dump_to_path(target, **kw),
                 *([_mutate] if case.get('mutate_after') else [])).process()
        files = {}
        if case['zip']:
            with zipfile.ZipFile(target) as z:
                for n in z.namelist():
                    files[n] = z.read(n)
        else:
            for root, _, fs in os.walk(target):
                for f in fs:
                    files[os.path.relpath(os.path.join(root, f), target)] = open(os.path.join(root, f), 'rb').read()
        out['files'] = dict((k, v.decode('utf-8')) for k, v in files.items())
    except Exception as e:
        out['dump_error'] = '%s: %s' % (type(e).__name__, str(e)[:200])
        shutil.rmtree(base, ignore_errors=True)
        return out
    try:
        with quiet():
            if case['zip']:
                r, dp, _ = Flow(DF.load(target, format='datapackage')).results()
            elif case.get('via_env'):
                os.environ['VERIF_C03_DP'] = os.path.join(target, 'datapackage.json')
                try:
                    r, dp, _ = Flow(DF.load('env://VERIF_C03_DP')).results()
                finally:
                    del os.environ['VERIF_C03_DP']
            else:
                r, dp, _ = Flow(DF.load(os.path.join(target, 'datapackage.json'))).results()
        out['loaded'] = [rows_enc(x) for x in r]
        out['loaded_desc'] = [{'name': d['name'], 'fields': [[f['name'], f['type']] for f in d['schema']['fields']],
                               'pk': d['schema'].get('primaryKey')} for d in dp.descriptor['resources']]
    except Exception as e:
        c = e
        while type(c).__name__ == 'ProcessorError' and getattr(c, 'cause', None) is not None:
            c = c.cause
        out['load_error'] = '%s: %s' % (type(c).__name__, str(c)[:300])
    shutil.rmtree(base, ignore_errors=True)
    return out


def _mutate(row):
    for k in list(row):
        v = row[k]
        if isinstance(v, str):
            row[k] = v + ' (edited downstream)'
        elif isinstance(v, list):
            v.append('edited downstream')
        elif isinstance(v, dict):
            v['edited'] = 'downstream'
        elif isinstance(v, bool):
            row[k] = not v
        elif isinstance(v, (int, decimal.Decimal)):
            row[k] = v + 1


def same_value(a, b):
    if type(a) is not type(b):
        if isinstance(a, (int, decimal.Decimal)) and isinstance(b, (int, decimal.Decimal)) and not isinstance(a, bool) and not isinstance(b, bool):
            return a == b
        return False
    if isinstance(a, decimal.Decimal):
        return a == b
    return a == b


def expected_rows(case):
    out = []
    for r in case['pkg']:
        rows = []
        for row in rows_dec(r['rows']):
            rows.append(dict((k, (None if (v == '' and '' in (case.get('mv') or [''])) else v)) for k, v in row.items()))
        out.append(rows)
    return out


def independent_decode(case, out):
    """decode each written data file using nothing but the written descriptor; returns first problem or None"""
    desc = json.loads(out['files']['datapackage.json'])
    exp = expected_rows(case)
    for ri, d in enumerate(desc['resources']):
        text = out['files'].get(d['path'])
        if text is None:
            return 'recorded path %r is not among the written files' % d['path']
        fields = d['schema']['fields']
        mv = d['schema'].get('missingValues', [''])
        if d['format'] == 'csv':
            dia = d['dialect']
            rd = csv.reader(io.StringIO(text, newline=''), delimiter=dia['delimiter'], quotechar=dia['quoteChar'],
                            doublequote=dia['doubleQuote'], skipinitialspace=dia['skipInitialSpace'])
            recs = list(rd)
            if recs[0] != [f['name'] for f in fields]:
                return 'header %r differs from the schema order %r' % (recs[0], [f['name'] for f in fields])
            rows = [dict(zip(recs[0], r)) for r in recs[1:]]
        else:
            rows = json.loads(text)
        if len(rows) != len(exp[ri]):
            return 'file %s has %d rows, %d were dumped' % (d['path'], len(rows), len(exp[ri]))
        for got, want in zip(rows, exp[ri]):
            for f in fields:
                raw = got.get(f['name'])
                try:
                    v = Field(f, missing_values=mv).cast_value(raw)
                except Exception as e:
                    return 'file %s: cell %r of field %s does not decode with the recorded properties (%s)' % (d['path'], raw, f['name'], e)
                if isinstance(v, float):
                    v = decimal.Decimal(repr(v))
                w = want.get(f['name'])
                if f['type'] == 'number' and d['format'] == 'json' and w is not None:
                    if float(v) != float(w):
                        return 'file %s: number %r decoded as %r' % (d['path'], w, v)
                    continue
                if not same_value(v, w):
                    return 'file %s: field %s decodes to %r, dumped value was %r' % (d['path'], f['name'], v, w)
    return None


def oracle(case, out):
    if case['kind'] == 'localedump':
        what = 'a %s dump (%s) made under %s default text encoding' % (case['format'], 'zip' if case['zip'] else 'path', 'an ASCII' if case['ascii'] else 'the usual')
        if 'error' in out:
            return '%s: %s' % (what, out['error'])
        if out['title'] != 'Caf\u00e9 \u2603' or out['rtitle'] != 'r\u00e9sum\u00e9' or out['rows'] != [{'a': 1, 'b': 'x'}, {'a': 2, 'b': 'y'}]:
            return '%s loads back with titles %r / %r and rows %r' % (what, out['title'], out['rtitle'], out['rows'])
        return None
    if case['kind'] == 'csvtext':
        return None
    if case['kind'] == 'csvlayer':
        if out.get('read') != case['recs']:
            return 'csv module: wrote %r, read back %r' % (case['recs'], out.get('read', out.get('read_error')))
        return None
    if case['kind'] == 'samedir':
        for i, (h, st) in enumerate(zip(case['history'], out['steps'])):
            if st['ok'] == st['fail_wanted']:
                return 'history %r: run %d %s' % (case['history'], i + 1, 'succeeded with an invalid value' if st['ok'] else 'failed on valid data')
            if st['ok']:
                if 'load_error' in st:
                    return 'history %r into one directory: the package of run %d does not load: %s' % (case['history'], i + 1, st['load_error'])
                want = SAMEDIR_DATA[h[0]]
                got = rows_dec(st['loaded'])
                if len(got) != len(want) or any(not all(same_value(g.get(k), w[k]) for k in w) for g, w in zip(got, want)):
                    return 'history %r into one directory: after run %d the package loads back as %r, that run dumped %r' % (
                        case['history'], i + 1, got, want)
        return None
    if 'dump_error' in out:
        return 'dump failed: %s' % out['dump_error']
    p = independent_decode(case, out)
    if p:
        return 'independent decode: ' + p
    if 'load_error' in out:
        return 'load of the dumped package failed: %s' % out['load_error']
    exp = expected_rows(case)
    got = [rows_dec(x) for x in out['loaded']]
    if [d['name'] for d in out['loaded_desc']] != [r['name'] for r in case['pkg']]:
        return 'resources %r, dumped %r' % ([d['name'] for d in out['loaded_desc']], [r['name'] for r in case['pkg']])
    for ri, (g, e) in enumerate(zip(got, exp)):
        want_pk = case['pkg'][ri].get('pk')
        got_pk = out['loaded_desc'][ri].get('pk')
        norm = lambda x: [] if not x else ([x] if isinstance(x, str) else list(x))
        if norm(got_pk) != norm(want_pk):
            return 'resource %d: primary key %r after dump and load, the dumped resource has %r' % (ri, got_pk, want_pk)
        if out['loaded_desc'][ri]['fields'] != case['pkg'][ri]['fields']:
            return 'resource %d: fields %r, dumped %r' % (ri, out['loaded_desc'][ri]['fields'], case['pkg'][ri]['fields'])
        if len(g) != len(e):
            return 'resource %d: %d rows loaded, %d dumped' % (ri, len(g), len(e))
        for a, b in zip(g, e):
            for k in b:
                t = dict(case['pkg'][ri]['fields'])[k]
                if t == 'number' and case['format'] == 'json' and b[k] is not None and a.get(k) is not None:
                    if float(a[k]) != float(b[k]):
                        return 'resource %d field %s: %r loaded as %r' % (ri, k, b[k], a.get(k))
                    continue
                if k not in a or not same_value(a[k], b[k]):
                    return 'resource %d field %s: %r loaded as %r' % (ri, k, b[k], a.get(k))
    return None


def finding(case, out, failure):
    if case['kind'] != 'roundtrip':
        return None
    if case['format'] == 'json' and failure and ('load of the dumped package failed' in failure or 'loaded as' in failure):
        if any([n for n, _ in r['fields']] != sorted(n for n, _ in r['fields']) for r in case['pkg']) and not independent_decode(case, out):
            return 'C03.json_field_order'
    if case['format'] == 'csv' and failure and 'field larger than field limit' in failure:
        big = any(isinstance(v, str) and len(v) > 131072 for r in case['pkg'] for row in rows_dec(r['rows']) for v in row.values())
        old = csv.field_size_limit(10 ** 9)
        try:
            ok = big and not independent_decode(case, out)
        finally:
            csv.field_size_limit(old)
        if ok:
            return 'C03.csv_field_over_128k'
    if case['format'] == 'csv' and failure and 'loaded as' in failure and not independent_decode(case, out):
        for r in case['pkg']:
            for row in rows_dec(r['rows']):
                if any(isinstance(v, str) and '\r' in v for v in row.values()):
                    return 'C03.crlf_in_cell'
    return None


def coq_term(case, out):
    if case['kind'] in ('samedir', 'localedump'):
        return None
    if case['kind'] in ('csvlayer', 'csvtext'):
        rd = ('match read_csv %s with Ok r => list_eqb (list_eqb str_eqb) r %s | Err _ => false end' % (cstr(out['text']), clist([cstrs(r) for r in out['read']]))
              if 'read' in out else 'match read_csv %s with Ok _ => false | Err _ => true end' % cstr(out['text']))
        if case['kind'] == 'csvlayer':
            return '(str_eqb (write_csv %s) %s && %s)' % (clist([cstrs(r) for r in case['recs']]), cstr(out['text']), rd)
        return '(%s)' % rd
    if case['format'] == 'json' and 'files' in out and not case.get('big'):
        # the JSON file format: the text model writes the file byte for byte and reads it back as the json module does
        # (files holding binary floats are outside the text model); the rows go through the model's key sorting first, so a
        # file whose members are not in key order is a disagreement
        desc = json.loads(out['files']['datapackage.json'])
        terms = []
        for d in desc['resources']:
            text = out['files'].get(d['path'])
            if text is None:
                return None
            tree = json.loads(text, object_pairs_hook=lambda kv: ('obj', kv))
            rows = [cjson(r) for r in tree]
            if any(r is None for r in rows):
                continue
            rs = clist(rows)
            terms.append('(str_eqb (json_file (map jsort %s)) %s && match jparse %s with Some j => json_eqb j (JArr %s) | None => false end)' % (
                rs, cstr(text), cstr(text), rs))
        return ' && '.join(terms) if terms else None
    if case['format'] != 'csv' or 'files' not in out or case.get('big'):
        return None
    desc = json.loads(out['files']['datapackage.json'])
    terms = []
    for d in desc['resources']:
        text = out['files'].get(d['path'])
        if text is None:
            return None
        recs = list(csv.reader(io.StringIO(text, newline='')))
        src = [r for r in case['pkg'] if r['name'] == d['name']]
        if case.get('keyorder') and not case.get('mv') and src and all(t == 'string' for _, t in src[0]['fields']) and not case.get('fprops'):
            # rows that reached the dumper with their keys re-ordered: the model lays each row out under the header by name
            rows_in = rows_dec(src[0]['rows'])
            if case['keyorder'] == 'rotate':
                rows_in = [dict(list(r.items())[1:] + list(r.items())[:1]) if len(r) > 1 else r for r in rows_in]
            else:
                rows_in = [dict(reversed(list(r.items()))) for r in rows_in]
            terms.append('list_eqb (list_eqb str_eqb) (csv_records %s %s) %s' % (
                cstrs([n for n, _ in src[0]['fields']]), crows(rows_in), clist([cstrs(r) for r in recs])))
        # the writer model reproduces the file from the cell texts, and the reader model returns them
        terms.append('(str_eqb (write_csv %s) %s && match read_csv %s with Ok r => list_eqb (list_eqb str_eqb) r %s | Err _ => false end)' % (
            clist([cstrs(r) for r in recs]), cstr(text), cstr(text), clist([cstrs(r) for r in recs])))
    return ' && '.join(terms) if terms else None


def nontrivial(case, out):
    return True


def shrinks(case):
    if case.get('big') or case['kind'] != 'roundtrip':
        return
    for ri, r in enumerate(case['pkg']):
        for j in range(len(r['rows'])):
            c = copy.deepcopy(case)
            del c['pkg'][ri]['rows'][j]
            yield c
    if len(case['pkg']) > 1:
        for ri in range(len(case['pkg'])):
            c = copy.deepcopy(case)
            del c['pkg'][ri]
            yield c
