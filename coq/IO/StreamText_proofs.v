(* The stream / checkpoint file as text.  (1) The line format round trip of IO/Stream_proofs.v for codecs that are
   inverse on a domain only (the JSON line codec of IO/JsonLine_proofs.v is one: values without binary floats, valid
   code points).  (2) json.dumps output is printable ASCII, so a written line never contains a line break and the file
   text splits back into exactly the lines that were written.  (3) Composition: reading the text of a written stream
   file returns the descriptor and every row of every resource. *)
From Coq Require Import List ZArith Bool Lia.
From DF Require Import Base.Str Base.Str_proofs Base.Value IO.EJson IO.JsonText IO.JsonText_proofs IO.Stream.
Import ListNotations.
Open Scope Z_scope.

(* ---------- (1) round trip on a domain ---------- *)
Section Dom.
  Variables D R : Type.
  Variable encD : D -> line.   Variable decD : line -> option D.
  Variable encR : R -> line.   Variable decR : line -> option R.
  Variable nres : D -> nat.
  Variables (PD : D -> Prop) (PR : R -> Prop).
  Hypothesis decD_encD : forall d, PD d -> decD (encD d) = Some d.
  Hypothesis decR_encR : forall r, PR r -> decR (encR r) = Some r.
  Hypothesis encD_nonblank : forall d, PD d -> encD d <> [].
  Hypothesis encR_nonblank : forall r, PR r -> encR r <> [].

  Lemma read_rows_dom rows tl :
    Forall PR rows -> read_rows R decR (map encR rows ++ [] :: tl) = Some (rows, tl).
  Proof.
    induction rows as [|r rs IH]; intros H; simpl; [reflexivity|].
    inversion H as [|? ? Hr Hrs]; subst.
    destruct (encR r) eqn:E; [exfalso; eapply encR_nonblank; eassumption|].
    rewrite <- E, (decR_encR r Hr), (IH Hrs). reflexivity.
  Qed.

  Lemma read_resources_dom rss : forall tl, Forall (Forall PR) rss ->
    read_resources R decR (length rss) (flat_map (fun rows => map encR rows ++ [[]]) rss ++ tl) = Some rss.
  Proof.
    induction rss as [|rows rss IH]; intros tl H; simpl; [reflexivity|].
    inversion H as [|? ? Hr Hrs]; subst.
    rewrite <- !app_assoc. simpl. rewrite (read_rows_dom rows _ Hr), (IH _ Hrs). reflexivity.
  Qed.

  Theorem stream_roundtrip_dom d rss :
    PD d -> Forall (Forall PR) rss -> nres d = length rss ->
    unstream_lines D R decD decR nres (stream_lines D R encD encR (d, rss)) = Some (d, rss).
  Proof.
    intros Hd Hr H. unfold unstream_lines, stream_lines. simpl.
    destruct (encD d) eqn:E; [exfalso; eapply encD_nonblank; eassumption|].
    rewrite <- E, (decD_encD d Hd), H.
    rewrite <- (app_nil_r (flat_map _ rss)). rewrite (read_resources_dom rss [] Hr). reflexivity.
  Qed.
End Dom.

(* ---------- (2) the text of the file ---------- *)
Definition printable (c : Z) : Prop := 32 <= c <= 126.
Ltac pr := repeat (first [apply Forall_nil | apply Forall_cons; [unfold printable; lia|]]).

Lemma hex_digit_printable d : 0 <= d < 16 -> printable (hex_digit d).
Proof. unfold hex_digit, printable. intros H. destruct (d <? 10) eqn:E; [apply Z.ltb_lt in E|apply Z.ltb_ge in E]; lia. Qed.

Lemma u_escape_printable c : Forall printable (u_escape c).
Proof.
  unfold u_escape. apply Forall_cons; [unfold printable; lia|]. apply Forall_cons; [unfold printable; lia|].
  repeat (first [apply Forall_nil | apply Forall_cons; [apply hex_digit_printable; apply Z.mod_pos_bound; lia|]]).
Qed.

Lemma esc_char_printable c : Forall printable (esc_char c).
Proof.
  unfold esc_char.
  repeat match goal with |- Forall _ (if ?b then _ else _) => destruct b eqn:? end;
    try (pr; fail);
    try apply u_escape_printable.
  apply Forall_app. split; apply u_escape_printable.
Qed.

Lemma esc_printable x : Forall printable (esc x).
Proof. unfold esc. induction x as [|c r IH]; simpl; [constructor|]. apply Forall_app. split; [apply esc_char_printable|exact IH]. Qed.

Lemma print_str_printable x : Forall printable (print_str x).
Proof.
  unfold print_str. constructor; [unfold printable; lia|]. apply Forall_app. split; [apply esc_printable|pr].
Qed.

Lemma digits_printable ds : forallb is_digit ds = true -> Forall printable ds.
Proof.
  induction ds as [|d r IH]; simpl; intros H; [constructor|]. apply andb_true_iff in H as [A B].
  constructor; [|apply IH, B]. unfold is_digit in A. apply andb_true_iff in A as [A1 A2].
  apply Z.leb_le in A1, A2. unfold printable. lia.
Qed.

Lemma str_of_Z_printable z : Forall printable (str_of_Z z).
Proof.
  destruct (Z_lt_le_dec z 0) as [N|N].
  - rewrite (str_of_Z_neg z N). constructor; [unfold printable; lia|].
    destruct (str_of_Z_nonneg (- z) ltac:(lia)) as (ds & -> & Dg & _). apply digits_printable, Dg.
  - destruct (str_of_Z_nonneg z N) as (ds & -> & Dg & _). apply digits_printable, Dg.
Qed.

Lemma jprint_printable : forall j, Forall printable (jprint j).
Proof.
  fix IH 1. intros [|b|z|m e|x|l|l]; cbn [jprint].
  - pr.
  - destruct b; pr.
  - apply str_of_Z_printable.
  - pr.
  - apply print_str_printable.
  - constructor; [unfold printable; lia|]. apply Forall_app. split; [|pr].
    induction l as [|x r IHr]; [constructor|]. cbn [print_items]. destruct r as [|y r'].
    + apply IH.
    + apply Forall_app. split; [apply IH|]. constructor; [unfold printable; lia|]. constructor; [unfold printable; lia|].
      exact IHr.
  - constructor; [unfold printable; lia|]. apply Forall_app. split; [|pr].
    induction l as [|[k x] r IHr]; [constructor|]. cbn [print_members]. destruct r as [|y r'].
    + apply Forall_app. split; [apply print_str_printable|]. constructor; [unfold printable; lia|].
      constructor; [unfold printable; lia|]. apply IH.
    + apply Forall_app. split; [apply print_str_printable|]. constructor; [unfold printable; lia|].
      constructor; [unfold printable; lia|]. apply Forall_app. split; [apply IH|].
      constructor; [unfold printable; lia|]. constructor; [unfold printable; lia|]. exact IHr.
Qed.

Lemma split_line l rest : Forall printable l -> split_lines ((l ++ [10]) ++ rest) = l :: split_lines rest.
Proof.
  induction l as [|c r IH]; intros H; simpl; [reflexivity|].
  inversion H as [|? ? Hc Hr]; subst. unfold printable in Hc.
  destruct (c =? 10) eqn:E; [apply Z.eqb_eq in E; lia|]. rewrite (IH Hr). reflexivity.
Qed.

Theorem split_file_text ls : Forall (Forall printable) ls -> split_lines (file_text ls) = ls.
Proof.
  induction ls as [|l r IH]; intros H; simpl; [reflexivity|].
  inversion H as [|? ? Hl Hr]; subst. fold (file_text r). rewrite (split_line l _ Hl), (IH Hr). reflexivity.
Qed.

(* ---------- (3) the written file, read back ---------- *)
From DF Require Import Base.Value_proofs IO.EJson_proofs IO.JsonLine_proofs.

Section FILE.
  Variable K : rkeys.
  Variable dec_str : Z -> Z -> str.            Variable dec_parse : str -> option (Z * Z).
  Variable time_str : Z -> Z -> Z -> str.      Variable time_parse : str -> option (Z * Z * Z).
  Variable dt_str : Z -> Z -> Z -> Z -> Z -> Z -> str.
  Variable dt_parse : str -> option (Z * Z * Z * Z * Z * Z).
  Variable date_str : Z -> Z -> Z -> str.      Variable date_parse : str -> option (Z * Z * Z).
  Variable dur_str : Z -> Z -> Z -> str.       Variable dur_parse : str -> option (Z * Z * Z).
  Variable nres : value -> nat.

  Hypothesis dec_rt : forall m e, dec_parse (dec_str m e) = Some (m, e).
  Hypothesis time_rt : forall h mi sc, time_parse (time_str h mi sc) = Some (h, mi, sc).
  Hypothesis dt_rt : forall y mo d h mi sc, dt_parse (dt_str y mo d h mi sc) = Some (y, mo, d, h, mi, sc).
  Hypothesis date_rt : forall y mo d, date_parse (date_str y mo d) = Some (y, mo, d).
  Hypothesis dur_rt : forall d sc us, dur_parse (dur_str d sc us) = Some (d, sc, us).
  Hypothesis K_distinct : str_nodup [k_dec K; k_time K; k_dt K; k_date K; k_dur K; k_set K] = true.
  Hypothesis K_ok : Forall char_ok (k_dec K) /\ Forall char_ok (k_time K) /\ Forall char_ok (k_dt K) /\
                    Forall char_ok (k_date K) /\ Forall char_ok (k_dur K).
  Hypothesis dec_ok : forall m e, Forall char_ok (dec_str m e).
  Hypothesis time_ok : forall h mi sc, Forall char_ok (time_str h mi sc).
  Hypothesis dt_ok : forall y mo d h mi sc, Forall char_ok (dt_str y mo d h mi sc).
  Hypothesis date_ok : forall y mo d, Forall char_ok (date_str y mo d).
  Hypothesis dur_ok : forall d sc us, Forall char_ok (dur_str d sc us).

  (* json.dumps of the extended-JSON encoding, without the line break that write() appends *)
  Definition jline (v : value) : line := jprint (encode K dec_str time_str dt_str date_str dur_str v).
  Definition rline : line -> option value := read_line K dec_parse time_parse dt_parse date_parse dur_parse.
  Definition dom (v : value) : Prop := ejson_ok K v = true /\ text_ok v.

  Lemma rline_jline v : dom v -> rline (jline v) = Some v.
  Proof.
    intros [OK T]. unfold rline, read_line, jline.
    rewrite (jparse_jprint _ (encode_jok K dec_str time_str dt_str date_str dur_str K_ok dec_ok time_ok dt_ok date_ok dur_ok v T)).
    f_equal.
    apply (ejson_roundtrip K dec_str dec_parse time_str time_parse dt_str dt_parse date_str date_parse dur_str dur_parse
             dec_rt time_rt dt_rt date_rt dur_rt K_distinct v OK).
  Qed.

  Lemma jline_nonblank v : dom v -> jline v <> [].
  Proof.
    intros [_ T]. unfold jline.
    destruct (jprint_head _ (encode_jok K dec_str time_str dt_str date_str dur_str K_ok dec_ok time_ok dt_ok date_ok dur_ok v T))
      as (c & t & E & _). rewrite E. discriminate.
  Qed.

  Lemma stream_lines_printable d rss : Forall (Forall printable) (stream_lines value value jline jline (d, rss)).
  Proof.
    unfold stream_lines. simpl. constructor; [apply jprint_printable|].
    induction rss as [|rows rss IH]; simpl; [constructor|]. apply Forall_app. split; [|exact IH].
    apply Forall_app. split; [|repeat constructor].
    induction rows as [|r rs IHr]; simpl; constructor; [apply jprint_printable|exact IHr].
  Qed.

  (* the text written by stream / checkpoint, split into lines again and decoded, is the package that was written:
     the descriptor and every row of every resource, in order, empty resources included *)
  Theorem stream_file_roundtrip d rss :
    dom d -> Forall (Forall dom) rss -> nres d = length rss ->
    unstream_lines value value rline rline nres
      (split_lines (file_text (stream_lines value value jline jline (d, rss)))) = Some (d, rss).
  Proof.
    intros Hd Hr Hn. rewrite (split_file_text _ (stream_lines_printable d rss)).
    apply (stream_roundtrip_dom value value jline rline jline rline nres dom dom
             rline_jline rline_jline jline_nonblank jline_nonblank d rss Hd Hr Hn).
  Qed.
End FILE.
