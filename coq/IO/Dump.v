(* dump_to_path (dumper_base.py, file_dumper.py, to_path.py): the order of file
   operations, what is counted / hashed / copied, and the counters' bookkeeping. *)
From Coq Require Import List ZArith Bool Lia.
From DF Require Import Base.Str Base.Value.
Import ListNotations.
Open Scope Z_scope.

Definition bytes := list Z.

(* ---------- file operations of one dump ---------- *)
Inductive dop :=
| TmpCreate (t : nat)                    (* NamedTemporaryFile *)
| TmpWrite (t : nat) (b : bytes)         (* writes to the temporary file (Python-buffered) *)
| TmpClose (t : nat)
| OutOpen (p : str)                      (* shutil.copy: open destination for writing (truncates) *)
| OutChunk (p : str) (b : bytes)         (* shutil.copy: one chunk written to the destination *)
| OutClose (p : str)
| TmpUnlink (t : nat).

(* one resource: its recorded path and the complete bytes of its data file, in write chunks *)
Record dres := { d_path : str; d_chunks : list bytes }.
Definition d_data (r : dres) : bytes := concat (d_chunks r).

Definition copy_ops (p : str) (chunks : list bytes) : list dop :=
  OutOpen p :: map (OutChunk p) chunks ++ [OutClose p].

Definition res_ops (t : nat) (r : dres) : list dop :=
  TmpCreate t :: map (TmpWrite t) (d_chunks r) ++ [TmpClose t] ++ copy_ops (d_path r) (d_chunks r) ++ [TmpUnlink t].

Fixpoint all_res_ops (t : nat) (rs : list dres) : list dop :=
  match rs with
  | [] => []
  | r :: rest => res_ops t r ++ all_res_ops (S t) rest
  end.

(* process_resources: every resource, then handle_datapackage writes the descriptor *)
Definition dump_ops (desc_path : str) (rs : list dres) (desc_chunks : list bytes) : list dop :=
  all_res_ops 0 rs ++ res_ops (length rs) {| d_path := desc_path; d_chunks := desc_chunks |}.

(* the output directory: path -> bytes written so far *)
Definition outdir := list (str * bytes).
Fixpoint od_get (o : outdir) (p : str) : option bytes :=
  match o with [] => None | (a, b) :: r => if str_eqb p a then Some b else od_get r p end.
Fixpoint od_set (o : outdir) (p : str) (b : bytes) : outdir :=
  match o with
  | [] => [(p, b)]
  | (a, b') :: r => if str_eqb p a then (a, b) :: r else (a, b') :: od_set r p b
  end.

Definition apply_dop (o : outdir) (op : dop) : outdir :=
  match op with
  | OutOpen p => od_set o p []
  | OutChunk p b => od_set o p (match od_get o p with Some c => c ++ b | None => b end)
  | _ => o
  end.

Definition run_dops (ops : list dop) (o : outdir) : outdir := fold_left apply_dop ops o.

(* the state of a fresh output directory after a kill following k operations *)
Definition dump_crash (desc_path : str) (rs : list dres) (desc_chunks : list bytes) (k : nat) : outdir :=
  run_dops (firstn k (dump_ops desc_path rs desc_chunks)) [].

(* ---------- counters ---------- *)
(* descriptors as trees of string-keyed objects with integer / text leaves *)
Inductive jt := JTInt (z : Z) | JTStr (x : str) | JTObj (l : list (str * jt)).

Fixpoint jt_get (l : list (str * jt)) (k : str) : option jt :=
  match l with [] => None | (a, b) :: r => if str_eqb k a then Some b else jt_get r k end.
Fixpoint jt_set (l : list (str * jt)) (k : str) (v : jt) : list (str * jt) :=
  match l with
  | [] => [(k, v)]
  | (a, b) :: r => if str_eqb k a then (a, v) :: r else (a, b) :: jt_set r k v
  end.

(* set_attr(obj, 'a.b.c', value): walk with setdefault, then assign *)
Fixpoint set_attr (obj : list (str * jt)) (path : list str) (v : jt) : list (str * jt) :=
  match path with
  | [] => obj
  | [k] => jt_set obj k v
  | k :: rest =>
      let sub := match jt_get obj k with Some (JTObj l) => l | _ => [] end in
      jt_set obj k (JTObj (set_attr sub rest v))
  end.

(* get_attr(obj, 'a.b.c') *)
Fixpoint get_attr (obj : list (str * jt)) (path : list str) : option jt :=
  match path with
  | [] => None
  | [k] => jt_get obj k
  | k :: rest => match jt_get obj k with Some (JTObj l) => get_attr l rest | _ => None end
  end.

(* inc_attr: setdefault(prop, 0); obj[prop] += value *)
Definition inc_attr (obj : list (str * jt)) (path : list str) (n : Z) : list (str * jt) :=
  let cur := match get_attr obj path with Some (JTInt z) => z | _ => 0 end in
  set_attr obj path (JTInt (cur + n)).

(* what rows_processor and row_counter record for one resource *)
Section Stats.
  Variable H : bytes -> str.                 (* md5 hex digest: any function *)

  Record rstat := { rs_path : str; rs_bytes : Z; rs_hash : str; rs_rows : Z }.

  (* bytes = temp_file.tell() after the last write; hash over the same bytes; the same bytes are copied *)
  Definition stat_of (r : dres) (nrows : Z) : rstat :=
    {| rs_path := d_path r; rs_bytes := Z.of_nat (length (d_data r)); rs_hash := H (d_data r); rs_rows := nrows |}.

  (* package totals are incremented by every resource *)
  Definition totals (stats : list rstat) : Z * Z :=
    fold_left (fun acc s => (fst acc + rs_bytes s, snd acc + rs_rows s)) stats (0, 0).
End Stats.
