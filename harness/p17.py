"""C17 filter_rows, deduplicate and unpivot neither lose nor invent data."""
import re, copy
from common import *
from flowutil import *
from dataflows import filter_rows, deduplicate, unpivot
import dataflows as DF

PROP = 'C17'
PROPS_V = 'Props/C17.v'
COQ_IMPORTS = ['Base.Str', 'Base.Value', 'Proc.RowOps']
RULE = ('cases = generated tables (0-12 rows, 2-5 columns, values from a small pool so duplicates, nulls and '
        'cross-type equal keys (True/1/Decimal(1.0)) occur) x step configuration; non-trivial = the step changes '
        'the row list (drops/duplicates/restructures at least one row) or raises; distinct = distinct case digest'
        '; round 7: unpivot over two matched resources with different columns, and every case also read after all resources were taken; round 4: several conditions on one field with values that occur in it; unpivot patterns with a top-level alternation next to prefix-named fields'
        '; round 9: primary keys given as tuples; a field property that happens to be called keys')
TRUSTED = ['Coq 8.16.1 kernel + vm_compute (case evaluation)', 'harness/p17.py value printer and oracle',
           'field-name regex matching and re.sub back-references are computed by Python re and handed to the model as tables',
           'tableschema cast of type any/integer/string on typed values is the identity (exercised, not proved)']
ASSUMES = ['Python == on keys is modelled by py_eq (bool/int/Decimal numeric tower, structural otherwise); floats are not generated as keys',
           'rows reach the step as dicts with the schema\'s keys']

# includes values whose CPython hashes collide although they differ (hash(-1) == hash(-2), hash(2**61-1) == hash(0))
POOL = [None, 0, 1, 2, -1, -2, True, False, 'a', 'b', 'ab', 'x y', decimal.Decimal('1.0'), decimal.Decimal('2.50'), 'é☃',
        2 ** 61 - 1, '', '1']
NAMES = ['k', 'a', 'b', 'c1', 'c2', 'v.1', 'n*']


def gen_table(rng, ncols=None, nrows=None, pool=POOL):
    ncols = ncols or rng.randint(2, 5)
    names = rng.sample(NAMES, ncols)
    nrows = rng.randint(0, 12) if nrows is None else nrows
    sub = rng.sample(pool, rng.randint(2, 6))
    if rng.chance(0.25):
        sub = [-1, -2, 0, 2 ** 61 - 1] + sub[:1]
    rows = [dict((n, rng.pick(sub)) for n in names) for _ in range(nrows)]
    return names, rows


def gen_pexpr(rng, names, depth=0):
    k = rng.randint(0, 6 if depth < 2 else 2)
    n = rng.pick(names + ['zz'])
    if k == 0:
        return ['eq', n, enc(rng.pick(POOL))]
    if k == 1:
        return ['isnull', n]
    if k == 2:
        return ['intlt', n, rng.randint(-1, 2)]
    if k == 3:
        return ['not', gen_pexpr(rng, names, depth + 1)]
    if k == 4:
        return ['and', gen_pexpr(rng, names, depth + 1), gen_pexpr(rng, names, depth + 1)]
    if k == 5:
        return ['or', gen_pexpr(rng, names, depth + 1), gen_pexpr(rng, names, depth + 1)]
    return ['true']


def py_pexpr(p):
    t = p[0]
    if t == 'eq':
        v = dec(p[2])
        return lambda row: row.get(p[1]) == v
    if t == 'isnull':
        return lambda row: row.get(p[1]) is None
    if t == 'intlt':
        return lambda row: isinstance(row.get(p[1]), int) and row.get(p[1]) < p[2]
    if t == 'not':
        f = py_pexpr(p[1])
        return lambda row: not f(row)
    if t == 'and':
        f, g = py_pexpr(p[1]), py_pexpr(p[2])
        return lambda row: f(row) and g(row)
    if t == 'or':
        f, g = py_pexpr(p[1]), py_pexpr(p[2])
        return lambda row: f(row) or g(row)
    return lambda row: True


def coq_pexpr(p):
    t = p[0]
    if t == 'eq':
        return '(PEq %s %s)' % (cstr(p[1]), cval(dec(p[2])))
    if t == 'isnull':
        return '(PIsNull %s)' % cstr(p[1])
    if t == 'intlt':
        return '(PIntLt %s %s)' % (cstr(p[1]), cZ(p[2]))
    if t == 'not':
        return '(PNot %s)' % coq_pexpr(p[1])
    if t in ('and', 'or'):
        return '(%s %s %s)' % ('PAnd' if t == 'and' else 'POr', coq_pexpr(p[1]), coq_pexpr(p[2]))
    return 'PTrue'


def gen_cases(rng, tier):
    n = {'quick': 300, 'thorough': 3000, 'search': 1500}[tier]
    cases = []
    for i in range(n):
        k = i % 4
        names, rows = gen_table(rng)
        if k == 0:
            def conds():
                out = []
                for _ in range(rng.randint(0, 2)):
                    ks = rng.sample(names + (['missing'] if rng.chance(0.05) else []), rng.randint(1, 2))
                    out.append([[x, enc(rng.pick(POOL))] for x in ks])
                return out
            c = {'kind': 'filter_old', 'names': names, 'rows': rows_enc(rows), 'equals': conds(), 'not_equals': conds()}
            if rows and rng.chance(0.35):
                # several conditions on the same field with values that occur in it (the conditions are alternatives)
                f = rng.pick(names)
                vals = [r[f] for r in rows]
                which = rng.pick(['not_equals', 'not_equals', 'equals'])
                c[which] = [[[f, enc(rng.pick(vals))]] for _ in range(rng.randint(2, 3))]
                if rng.chance(0.5):
                    c['equals' if which == 'not_equals' else 'not_equals'] = []
            cases.append(c)
        elif k == 1:
            cases.append({'kind': 'filter_callable', 'names': names, 'rows': rows_enc(rows),
                          'cond': gen_pexpr(rng, names)})
        elif k == 2:
            pk = rng.sample(names, rng.randint(0, min(2, len(names))))
            cases.append({'kind': 'dedup', 'names': names, 'rows': rows_enc(rows), 'pk': pk})
            if pk and rng.chance(0.4):
                cases[-1]['pk_form'] = 'tuple'
        else:
            cases.append(gen_unpivot(rng))
            if rng.chance(0.4):
                cases[-1]['keys_prop'] = rng.sample(cases[-1]['names'], rng.randint(1, len(cases[-1]['names'])))
    # systematically: a composite key given as a tuple; a 'keys' property on a kept and on an unpivoted field
    rows = [{'a': 1, 'b': 'x', 'c1': 10}, {'a': 1, 'b': 'y', 'c1': 11}, {'a': 1, 'b': 'x', 'c1': 12}, {'a': 2, 'b': 'x', 'c1': 13}]
    cases.append({'kind': 'dedup', 'names': ['a', 'b', 'c1'], 'rows': rows_enc(rows), 'pk': ['a', 'b'], 'pk_form': 'tuple'})
    for kp in (['id'], ['y2019'], ['id', 'y2020']):
        cases.append({'kind': 'unpivot', 'names': ['id', 'y2019', 'y2020'], 'rows': rows_enc([{'id': 'r', 'y2019': 1, 'y2020': 2}, {'id': 'q', 'y2019': 3, 'y2020': None}]),
                      'specs': [{'name': r'y(\d+)', 'keys': [['year', enc(r'\1')]]}], 'regex': True, 'extra_keys': ['year'], 'value_name': 'value', 'keys_prop': kp})
    return cases


def gen_unpivot(rng):
    # field names with a common stem so regexes with groups select several
    stems = rng.sample(['y2019', 'y2020', 'y2021', 'q1', 'q2', 'total', 'id', 'name', 'a.b', 'y20', 'q10', 'q1_adj', 'subtotal'], rng.randint(2, 6))
    nrows = rng.randint(0, 6)
    rows = [dict((n, rng.pick([None, 1, 2, 'u', 'w', True])) for n in stems) for _ in range(nrows)]
    regex = rng.chance(0.7)
    specs = []
    for _ in range(rng.randint(1, 3)):
        if regex:
            pat = rng.pick([r'y(\d+)', r'y20(\d\d)', r'q([12])', r'(q|y)(.*)', r'total', r'y.*', r'[a-z]+', r'a.b', r'y20',
                            # alternations at the top level of the pattern (the whole name must match one alternative)
                            r'q1|q2', r'y20|total', r'id|q1', r'total|y2019'])
            keys = {}
            if rng.chance(0.8):
                keys['year'] = rng.pick([r'\1', r'Y-\1', 'const', 7, r'\g<1>!'])
            if rng.chance(0.3):
                keys['kind'] = rng.pick(['fixed', r'\1\1', None])
            try:
                ng = re.compile(pat).groups
            except re.error:
                ng = 0
            for kk in list(keys):
                if isinstance(keys[kk], str) and ('\\1' in keys[kk] or '\\g<1>' in keys[kk]) and ng < 1:
                    keys[kk] = 'nogroup'
        else:
            pat = rng.pick(stems + ['absent'])
            keys = {'year': rng.pick(['lit', r'\1', 3, 'C:\\new\\table', r'\g<0>'])}
            if rng.chance(0.3):
                keys['kind'] = 'fixed'
        specs.append({'name': pat, 'keys': [[k, enc(v)] for k, v in keys.items()]})
    key_names = []
    for sp in specs:
        for k, _ in sp['keys']:
            if k not in key_names:
                key_names.append(k)
    case = {'kind': 'unpivot', 'names': stems, 'rows': rows_enc(rows), 'specs': specs, 'regex': regex,
            'extra_keys': key_names, 'value_name': rng.pick(['value', 'val'])}
    if rng.chance(0.4):
        # a second matched resource with other columns: each resource is unpivoted by its own field lists, whichever
        # way the consumer reads the two (round 7)
        pool2 = ['y2019', 'y2022', 'y1990', 'q2', 'q3', 'total', 'id', 'label', 'y20', 'q1_adj']
        names2 = rng.sample(pool2, rng.randint(2, 5))
        if names2 != stems:
            case['names2'] = names2
            case['rows2'] = rows_enc([dict((n, rng.pick([None, 3, 4, 'z', False])) for n in names2) for _ in range(rng.randint(1, 4))])
    return case


def step_of(case):
    k = case['kind']
    if k == 'filter_old':
        eq = [dict((a, dec(b)) for a, b in o) for o in case['equals']]
        ne = [dict((a, dec(b)) for a, b in o) for o in case['not_equals']]
        return [filter_rows(equals=eq, not_equals=ne)]
    if k == 'filter_callable':
        return [filter_rows(condition=py_pexpr(case['cond']))]
    if k == 'dedup':
        if case.get('pk_form') == 'tuple' and case.get('pk'):
            # the key handed to set_primary_key as a tuple (it reaches the descriptor as it is)
            return [DF.set_primary_key(tuple(case['pk'])), deduplicate()]
        return [deduplicate()]
    if k == 'unpivot':
        specs = [{'name': sp['name'], 'keys': dict((a, dec(b)) for a, b in sp['keys'])} for sp in case['specs']]
        extra_keys = [{'name': n, 'type': 'any'} for n in case['extra_keys']]
        return [unpivot(specs, extra_keys, {'name': case['value_name'], 'type': 'any'}, regex=case['regex'])]
    raise ValueError(k)


def run_impl(case):
    rows = rows_dec(case['rows'])
    res = mk_resource('t', case['names'], rows, pk=case.get('pk'),
                      types=dict((n, 'any') for n in case['names']))
    if case['kind'] == 'filter_old':
        # the schema's missing-value tokens do not enter into the comparison: conditions compare Python values
        res['missingValues'] = ['', 'a'] if len(case['rows']) % 2 else None
    if case.get('keys_prop'):
        # field descriptors carrying a custom property that happens to be called 'keys' (any property name is legal)
        for f in res['fields']:
            if f['name'] in case['keys_prop']:
                f['keys'] = 'lookup keys of the source system'
    resources = [res]
    if case.get('names2'):
        resources.append(mk_resource('t2', case['names2'], rows_dec(case['rows2']), types=dict((n, 'any') for n in case['names2'])))
    # these steps work row by row (deduplicate: per resource): the consumer may take all resources before reading any rows
    out = run_stream(resources, step_of(case), collect=True)
    if 'error' in out:
        return {'error': out['error'], 'exc': out['exc']}
    r = {'rows': rows_enc(out['rows'][0]), 'fields': field_names(out['dp'], 0), 'nres': len(out['rows'])}
    if case.get('names2'):
        r['rows2'] = rows_enc(out['rows'][1])
        r['fields2'] = field_names(out['dp'], 1)
    if case['kind'] == 'dedup':
        out2 = run_stream([res], step_of(case) + step_of(case))
        r['twice'] = rows_enc(out2['rows'][0]) if 'rows' in out2 else {'error': out2['error']}
    return r


# ---- direct statement of the property on the implementation's output
def expected(case):
    """('ok', rows, fields) or ('err', code) computed from the property statement"""
    rows = rows_dec(case['rows'])
    k = case['kind']
    if k == 'filter_old':
        eq = [(a, dec(b)) for o in case['equals'] for a, b in o]
        ne = [(a, dec(b)) for o in case['not_equals'] for a, b in o]
        out = []
        for r in rows:
            try:
                keep = any(r[a] == b for a, b in eq) or any(r[a] != b for a, b in ne)
            except KeyError:
                return ('err', E_KEY)
            if keep:
                out.append(r)
        return ('ok', out, case['names'])
    if k == 'filter_callable':
        f = py_pexpr(case['cond'])
        return ('ok', [r for r in rows if f(r)], case['names'])
    if k == 'dedup':
        pk = case['pk']
        if not pk:
            return ('ok', rows, case['names'])
        out, seen = [], []
        for r in rows:
            key = tuple(r[x] for x in pk)
            if any(key == s for s in seen):
                continue
            seen.append(key)
            out.append(r)
        return ('ok', out, case['names'])
    if k == 'unpivot':
        fields = list(case['names'])
        piv = []
        for sp in case['specs']:
            if case['regex']:
                m = [f for f in fields if re.fullmatch(sp['name'], f)]
            else:
                m = [f for f in fields if f == sp['name']]
            fields = [f for f in fields if f not in m]
            for f in m:
                keys = {}
                for a, b in sp['keys']:
                    b = dec(b)
                    if case['regex'] and isinstance(b, str):
                        b = re.sub(sp['name'], b, f)
                    keys[a] = b
                piv.append((f, keys))
        out = []
        for r in rows:
            for f, keys in piv:
                nr = dict(keys)
                for kf in fields:
                    nr[kf] = r[kf]
                nr[case['value_name']] = r.get(f)
                out.append(nr)
        return ('ok', out, fields + case['extra_keys'] + [case['value_name']], piv, fields)
    raise ValueError(k)


def same_rows(a, b):
    return len(a) == len(b) and all(list(x.items()) == list(y.items()) and all(type(x[k]) is type(y[k]) for k in x)
                                    for x, y in zip(a, b))


def oracle(case, out):
    exp = expected(case)
    if exp[0] == 'err':
        if out.get('error') is None:
            return 'expected an error (missing key) but the run succeeded'
        return None
    if out.get('error') is not None:
        return 'run failed (%s) where the property prescribes an output' % out.get('exc')
    got = rows_dec(out['rows'])
    if not same_rows(got, exp[1]):
        return '%s: emitted rows differ from the specified rows (got %d rows, expected %d)' % (case['kind'], len(got), len(exp[1]))
    if case['kind'] == 'unpivot' and out['fields'] != exp[2]:
        return 'unpivot: schema fields %r differ from the rows\' layout %r' % (out['fields'], exp[2])
    if case['kind'] == 'unpivot' and case.get('names2'):
        c2 = dict(case, names=case['names2'], rows=case['rows2'])
        exp2 = expected(c2)
        if not same_rows(rows_dec(out['rows2']), exp2[1]):
            return 'unpivot: the second matched resource\'s rows differ from the specified rows (got %d rows, expected %d)' % (len(out['rows2']), len(exp2[1]))
        if out['fields2'] != exp2[2]:
            return 'unpivot: the second matched resource\'s schema fields %r differ from the rows\' layout %r' % (out['fields2'], exp2[2])
    if case['kind'] == 'dedup':
        tw = out.get('twice')
        if isinstance(tw, dict) or not same_rows(rows_dec(tw), got):
            return 'dedup: applying deduplicate twice changes the result'
    return None


def coq_term(case, out):
    k = case['kind']
    rows = crows(rows_dec(case['rows']))
    if out.get('error') is not None:
        e = ('err', out['error'])
    else:
        e = ('ok', rows_dec(out['rows']))
    exp = cres(e, crows)
    if k == 'filter_old':
        eq = clist([cpair(cstr(a), cval(dec(b))) for o in case['equals'] for a, b in o])
        ne = clist([cpair(cstr(a), cval(dec(b))) for o in case['not_equals'] for a, b in o])
        return 'res_eqb rows_eqb (filter_loop (old_style %s %s) %s) %s' % (eq, ne, rows, exp)
    if k == 'filter_callable':
        return 'res_eqb rows_eqb (filter_loop (fun r => Ok (peval %s r)) %s) %s' % (coq_pexpr(case['cond']), rows, exp)
    if k == 'dedup':
        return 'res_eqb rows_eqb (deduper %s %s) %s' % (cstrs(case['pk']), rows, exp)
    if k == 'unpivot':
        specs = []
        for sp in case['specs']:
            try:
                if case['regex']:
                    names = [f for f in case['names'] if re.fullmatch(sp['name'], f)]
                else:
                    names = [f for f in case['names'] if f == sp['name']]
                tbl = []
                for f in names:
                    keys = {}
                    for a, b in sp['keys']:
                        b = dec(b)
                        if case['regex'] and isinstance(b, str):
                            b = re.sub(sp['name'], b, f)
                        keys[a] = b
                    tbl.append(cpair(cstr(f), crow(keys)))
            except re.error:
                return None
            specs.append('(mk_uspec %s %s)' % (cstrs(names), clist(tbl)))
        return 'res_eqb rows_eqb (unpivot_model %s %s %s %s) %s' % (clist(specs), cstrs(case['names']),
                                                                  cstr(case['value_name']), rows, exp)
    return None


def coq_model_term(case):
    t = coq_term(case, {'rows': []})
    return t[t.index('('):t.rindex(') ') + 1] if t else 'tt'


def nontrivial(case, out):
    if out.get('error') is not None:
        return True
    return out.get('rows') != case['rows']


def shrinks(case):
    rows = case['rows']
    for i in range(len(rows)):
        c = copy.deepcopy(case)
        del c['rows'][i]
        yield c
    for i in range(len(case.get('rows2', []))):
        if len(case['rows2']) > 1:
            c = copy.deepcopy(case)
            del c['rows2'][i]
            yield c
    if case.get('names2'):
        c = copy.deepcopy(case)
        del c['names2'], c['rows2']
        yield c
    for key in ('equals', 'not_equals', 'specs'):
        for i in range(len(case.get(key, []))):
            c = copy.deepcopy(case)
            del c[key][i]
            if key == 'specs' and not c[key]:
                continue
            yield c
