"""C16 Resource-level restructuring conserves rows."""
import copy
from common import *
from flowutil import *
import dataflows as DF

PROP = 'C16'
PROPS_V = 'Props/C16.v'
COQ_IMPORTS = ['Base.Str', 'Base.Value', 'Proc.RowOps', 'Proc.Resources', 'Proc.AutoName']
RULE = ('cases = packages of 1-5 resources with differing schemas and sizes (0, 1, few, 250; thorough: >1000 rows) x '
        'concatenate (field mappings, selections incl. non-consecutive and empty) / duplicate (position, to_end, batch '
        'sizes 1/7/1000, followed by an in-place edit of the original) / delete_resource / appending sources (iterable, '
        'load tuple, load datapackage, sources); non-trivial = the package changes; distinct = distinct case digest'
        '; round 4: delete_resource by position from either end'
        '; round 7: automatic names of bare iterables after deletions and concatenations of automatically named resources (unique names, resource count, appended rows intact)'
        '; round 8: load((descriptor, resources)) appending the live stream of a flow that concatenates, duplicates or deletes resources'
        '; round 9: source field lists of concatenate as one-shot iterables; load of a relative path with the working directory changed between building and running the Flow')
TRUSTED = ['Coq 8.16.1 kernel + vm_compute', 'harness/p16.py printers and oracle',
           'KVFile as an ordered map (duplicate\'s store), exercised at several batch sizes',
           'resource selection itself is C10\'s subject; here selections are given as explicit name lists']
ASSUMES = ['fewer than 16^8 rows per duplicated resource', 'concatenate\'s documented assertions (consecutive selection, a non-null mapped value per row, no duplicate sources) are rejections, not violations']

FIELD_POOL = ['a', 'b', 'c', 'd', 'e']


NAME_POOL = ['r0', 'r.1', 'r-1', 'rx1', 'a+', 'a', 'aa', 'b(1)', 's.2020', 's_2020']


def gen_pkg(rng, nres=None, big=False):
    nres = nres or rng.randint(1, 5)
    # names that are regular expressions matching a sibling when read as patterns: name lists must be taken literally
    rnames = ['r%d' % i for i in range(nres)] if rng.chance(0.5) else rng.sample(NAME_POOL, nres)
    res = []
    for i in range(nres):
        names = rng.sample(FIELD_POOL, rng.randint(1, 4))
        types = dict((n, rng.pick(['integer', 'string'])) for n in names)
        n = rng.pick([0, 1, 2, 3, 5, 250 if not big else 1500])
        if rng.chance(0.7):
            n = min(n, 5)
        rows = [dict((f, (rng.pick([None, 1, 2, 30]) if types[f] == 'integer' else rng.pick([None, 'x', 'yy', 'z w'])))
                     for f in names) for _ in range(n)]
        pk = rng.sample(names, 1) if rng.chance(0.3) else None
        if pk is not None:
            col = [r[pk[0]] for r in rows]
            if None in col or len(set(col)) != len(col):
                pk = None        # data must conform to the declared key
        res.append({'name': rnames[i], 'fields': [{'name': f, 'type': types[f]} for f in names], 'rows': rows_enc(rows), 'pk': pk})
    return res


def gen_cases(rng, tier):
    n = {'quick': 240, 'thorough': 2000, 'search': 1200}[tier]
    cases = []
    for i in range(n):
        k = ['concat', 'duplicate', 'delete', 'append'][i % 4]
        pk = gen_pkg(rng, big=(tier == 'thorough' and rng.chance(0.05)))
        names = [r['name'] for r in pk]
        c = {'kind': k, 'pkg': pk}
        if k == 'concat':
            mode = rng.randint(0, 9)
            if mode <= 5:
                a = rng.randint(0, len(names) - 1)
                b = rng.randint(a, len(names) - 1)
                c['selected'] = names[a:b + 1]
            elif mode <= 7:
                c['selected'] = [x for x in names if rng.chance(0.5)]
            elif mode == 8:
                c['selected'] = None
            else:
                c['selected'] = []
            fields = []
            tg = rng.sample(['a', 'b', 'c', 'X', 'Y'], rng.randint(1, 3))
            used = set(tg)
            for t in tg:
                srcs = []
                for s_ in rng.sample(FIELD_POOL, rng.randint(0, 2)):
                    if s_ not in used or rng.chance(0.05):
                        srcs.append(s_)
                        used.add(s_)
                fields.append([t, srcs])
            c['fields'] = fields
            c['target'] = rng.pick(['concat', 'T'])
            if c['selected'] and rng.chance(0.25):
                c['target'] = rng.pick(c['selected'])      # the target takes over the name of a resource it absorbs
            if rng.chance(0.25):
                c['oneshot'] = True
        elif k == 'duplicate':
            c['source'] = rng.pick(names + [None])
            c['target'] = rng.pick([None, 'copy_x'])
            c['to_end'] = rng.chance(0.5)
            c['batch_size'] = rng.pick([1, 7, 1000])
            c['mutate_after'] = rng.chance(0.6)
            # a following delete_resource of the original (or of the copy): the survivor keeps all its rows
            c['then_delete'] = rng.pick([None, None, 'source', 'copy'])
            # or a later schema edit restricted to one of the twins: the other twin keeps its own descriptor
            srcname = c['source'] or names[0]
            sfields = [f['name'] for r in pk if r['name'] == srcname for f in r['fields']]
            srcpk = [r['pk'] for r in pk if r['name'] == srcname][0] or []
            droppable = [f for f in sfields if f not in srcpk]
            if c['then_delete'] is None and len(sfields) >= 2 and droppable and rng.chance(0.5):
                c['then_edit'] = [rng.pick(['source', 'copy']), rng.pick(droppable)]
        elif k == 'delete':
            c['selected'] = [x for x in names if rng.chance(0.4)]
            if rng.chance(0.4):
                # the selector given as a position, counted from either end
                c['idx'] = rng.randint(-len(names), len(names) - 1)
                c['selected'] = [names[c['idx']]]
        else:
            c['how'] = rng.pick(['iterable', 'load_tuple', 'load_tuple_lists', 'sources', 'load_dp'])
            c['new'] = gen_pkg(rng, nres=rng.randint(1, 2))
            for j, r in enumerate(c['new']):
                r['name'] = 'n%d' % j
        cases.append(c)
    if tier in ('thorough', 'search'):
        # a duplicated resource larger than 16^4 rows: exercises the width of the store's row key
        rows = [{'a': i} for i in range(70000)]
        cases.insert(0, {'kind': 'duplicate', 'pkg': [{'name': 'r0', 'fields': [{'name': 'a', 'type': 'integer'}],
                                                        'rows': rows_enc(rows), 'pk': None}],
                         'source': None, 'target': None, 'to_end': False, 'batch_size': 1000, 'mutate_after': False, 'big': True})
    # automatic names (res_1, res_2, ...) once earlier resources are gone, below and above ten of them
    for n_, drop in ((3, 2), (12, 8), (12, 3), (11, 10)):
        for via in ('delete', 'concat'):
            cases.append({'kind': 'autoname', 'n': n_, 'drop': drop, 'via': via, 'pkg': []})
    cases.append({'kind': 'autoname', 'n': 12, 'drop': 8, 'via': 'concat', 'then_delete': 10, 'pkg': []})
    for chdir in (True, False):
        cases.append({'kind': 'relload', 'chdir': chdir, 'pkg': []})
    for up in sorted(LIVE_UP):
        for then in (False, True):
            cases.append({'kind': 'liveload', 'up': up, 'then': then, 'pkg': []})
    return cases


def src_resources(pk):
    return [{'name': r['name'], 'fields': r['fields'], 'rows': rows_dec(r['rows']), 'pk': r['pk']} for r in pk]


def _bump(row):
    for k in list(row):
        if isinstance(row[k], int):
            row[k] += 1000
    row['__touched'] = True


def deleted_after_dup(case):
    src = case['source'] or case['pkg'][0]['name']
    return src if case['then_delete'] == 'source' else (case['target'] or src + '_copy')


def edited_after_dup(case):
    src = case['source'] or case['pkg'][0]['name']
    return src if case['then_edit'][0] == 'source' else (case['target'] or src + '_copy')


def steps_of(case):
    k = case['kind']
    if k == 'concat':
        # (the source field names of a target handed over as a list, or as a one-shot iterable)
        srcs = (lambda l: (x for x in l)) if case.get('oneshot') else list
        return [DF.concatenate(dict((t, srcs(s_)) for t, s_ in case['fields']), target={'name': case['target']},
                               resources=case['selected'])]
    if k == 'duplicate':
        kw = {}
        st = [DF.duplicate(source=case['source'], target_name=case['target'], batch_size=case['batch_size'],
                           duplicate_to_end=case['to_end'])]
        if case.get('then_delete'):
            st.append(DF.delete_resource([deleted_after_dup(case)]))
        if case.get('then_edit'):
            st.append(DF.delete_fields([case['then_edit'][1]], resources=[edited_after_dup(case)], regex=False))
        return st
    if k == 'delete':
        return [DF.delete_resource(case['idx'] if 'idx' in case else case['selected'])]
    new = src_resources(case['new'])
    how = case['how']
    if how == 'iterable':
        return [[dict(r) for r in n['rows']] or [{}] for n in new[:1]] if False else [IterSrc(new[0])]
    if how in ('load_tuple', 'load_tuple_lists'):
        desc = {'resources': [{'name': n['name'], 'path': n['name'] + '.csv', 'schema': {'fields': copy.deepcopy(n['fields'])}}
                              for n in new]}
        if how == 'load_tuple_lists':        # the resources of the pair given as plain lists of rows
            return [DF.load((desc, [copy.deepcopy(n['rows']) for n in new]))]
        return [DF.load((desc, [iter(copy.deepcopy(n['rows'])) for n in new]))]
    if how == 'sources':
        return [DF.sources(Flow(Src(new)))]
    if how == 'load_dp':
        d = os.path.join(scratch(), 'dp_' + digest(case['new']))
        if not os.path.exists(os.path.join(d, 'datapackage.json')):
            with quiet():
                Flow(Src(new), DF.dump_to_path(d)).process()
        return [DF.load(os.path.join(d, 'datapackage.json'))]


class IterSrc(list):
    """a plain iterable link: list of dict rows"""

    def __init__(self, res):
        super().__init__(copy.deepcopy(res['rows']))


def canon_pkg(out):
    res = []
    for d, rows in zip(out['dp']['resources'], out['rows']):
        res.append({'name': d['name'], 'path': d.get('path'),
                    'fields': [[f['name'], f['type']] for f in d['schema']['fields']],
                    'pk': list(d['schema'].get('primaryKey', []) or []) if not isinstance(d['schema'].get('primaryKey'), str) else [d['schema']['primaryKey']],
                    'rows': rows_enc(rows)})
    return res


def run_autoname(case):
    """bare iterables get automatic names; after earlier resources were merged or deleted, a further bare iterable must
    still get a name of its own, and a later step addressing a resource by name must hit exactly that one"""
    n, drop = case['n'], case['drop']
    links = [[{'i': j, 'src': 'it%d' % i} for j in range(2)] for i in range(n)]
    firsts = ['res_%d' % (i + 1) for i in range(drop)]
    if case['via'] == 'delete':
        links.append(DF.delete_resource(firsts))
    else:
        links.append(DF.concatenate({'i': [], 'src': []}, target={'name': 'merged'}, resources=firsts))
    links.append([{'i': j, 'src': 'late'} for j in range(3)])
    if case.get('then_delete'):
        links.append(DF.delete_resource('res_%d' % case['then_delete']))
    try:
        with quiet():
            ds = Flow(*links).datastream()
            rows = [list(r) for r in ds.res_iter]
        return {'names': [d['name'] for d in ds.dp.descriptor['resources']], 'srcs': [sorted(set(r['src'] for r in rs)) for rs in rows],
                'counts': [len(rs) for rs in rows]}
    except Exception as e:
        c = e
        while type(c).__name__ == 'ProcessorError' and getattr(c, 'cause', None) is not None:
            c = c.cause
        return {'error': 1, 'exc': '%s: %s' % (type(c).__name__, str(c)[:200])}


LIVE_UP = {'plain': lambda: [], 'concat': lambda: [DF.concatenate({'k': []}, target={'name': 'merged'}, resources=['res_1', 'res_2'])],
           'concat_last': lambda: [DF.concatenate({'k': []}, target={'name': 'merged'}, resources=['res_2', 'res_3'])],
           'duplicate': lambda: [DF.duplicate('res_1')], 'duplicate_end': lambda: [DF.duplicate('res_2', duplicate_to_end=True)],
           'delete': lambda: [DF.delete_resource('res_2')]}


def live_up_links(which):
    return [[{'k': i, 'v': 'x%d' % i} for i in range(4)], [{'k': 10 + i, 'w': i} for i in range(8)], [{'k': 100 + i} for i in range(1200 if which != 'plain' else 3)]] + LIVE_UP[which]()


def run_liveload(case):
    """load((descriptor, resources)) appending the live stream of another flow that restructures its resources: they arrive
    after the existing resource, each with the rows it has when that flow is read in turn"""
    try:
        with quiet():
            ref_rows, ref_dp, _ = Flow(*live_up_links(case['up'])).results()
            ds = Flow(*live_up_links(case['up'])).datastream()
            rows, dp, _ = Flow([{'z': 1}, {'z': 2}], DF.load((ds.dp.descriptor, ds.res_iter)), *([DF.add_field('t', 'integer', 0)] if case['then'] else [])).results()
        strip = lambda rs: [dict((k, v) for k, v in r.items() if k != 't') for r in rs]
        return {'names': [r.name for r in dp.resources], 'want_names': ['res_1'] + [r.name for r in ref_dp.resources],
                'counts': [len(x) for x in rows], 'want_counts': [2] + [len(x) for x in ref_rows],
                'same': [strip(a) == b for a, b in zip(rows[1:], ref_rows)]}
    except Exception as e:
        c = e
        while type(c).__name__ == 'ProcessorError' and getattr(c, 'cause', None) is not None:
            c = c.cause
        return {'error': 1, 'exc': '%s: %s' % (type(c).__name__, str(c)[:200])}


def run_relload(case):
    """load() given a relative path: the file meant is the one that path names where the flow runs (the working directory
    is changed between building the Flow and running it, and both directories hold a file of that name)"""
    import csv as _csv
    base = os.path.join(scratch(), 'rel_%s' % digest(case))
    shutil.rmtree(base, ignore_errors=True)
    old = os.getcwd()
    try:
        for d, rows in (('build', [[1, 'old'], [2, 'old'], [3, 'old']]), ('run', [[7, 'new'], [8, 'new']])):
            os.makedirs(os.path.join(base, d, 'data'))
            with open(os.path.join(base, d, 'data', 'table.csv'), 'w', newline='') as f:
                w = _csv.writer(f)
                w.writerow(['n', 'which'])
                w.writerows(rows)
        os.chdir(os.path.join(base, 'build'))
        flow = Flow([{'z': 1}], DF.load('data/table.csv', name='table'))
        os.chdir(os.path.join(base, 'run') if case['chdir'] else os.path.join(base, 'build'))
        with quiet():
            rows, dp, _ = flow.results()
        return {'names': [r.name for r in dp.resources], 'loaded': [[r['n'], r['which']] for r in rows[1]]}
    except Exception as e:
        c = e
        while type(c).__name__ == 'ProcessorError' and getattr(c, 'cause', None) is not None:
            c = c.cause
        return {'error': 1, 'exc': '%s: %s' % (type(c).__name__, str(c)[:200])}
    finally:
        os.chdir(old)
        shutil.rmtree(base, ignore_errors=True)


def run_impl(case):
    if case['kind'] == 'relload':
        return run_relload(case)
    if case['kind'] == 'autoname':
        return run_autoname(case)
    if case['kind'] == 'liveload':
        return run_liveload(case)
    res = src_resources(case['pkg'])
    steps = steps_of(case)
    one_shot = (case['kind'] == 'append' and case['how'] in ('load_tuple', 'sources')) or case.get('oneshot')
    out = run_stream(res, steps, rerun=not one_shot)
    if 'error' in out:
        return {'error': out['error'], 'exc': out['exc']}
    r = {'pkg': canon_pkg(out), 'ndesc': len(out['dp']['resources']), 'nstreams': len(out['rows'])}
    if case['kind'] == 'duplicate' and case.get('mutate_after'):
        # the original is edited in place after the copy was taken: the copy must not see it
        src = case['source'] or case['pkg'][0]['name']
        out2 = run_stream(res, steps + [DF.parallelize(_bump, num_processors=1, resources='NONE'), RowEdit(src)])
        r['after_edit'] = canon_pkg(out2) if 'rows' in out2 else {'error': out2.get('exc')}
    return r


class RowEdit(DF.DataStreamProcessor):
    """user step editing rows of one resource in place"""

    def __init__(self, name):
        super().__init__()
        self.name = name

    def process_resource(self, resource):
        if resource.res.name != self.name:
            yield from resource
            return
        for row in resource:
            _bump(row)
            yield row


def input_pkg(case):
    return [{'name': r['name'], 'path': r['name'] + '.csv', 'fields': [[f['name'], f['type']] for f in r['fields']],
             'pk': r['pk'] or [], 'rows': r['rows']} for r in case['pkg']]


def expected(case):
    """the property, directly"""
    p = input_pkg(case)
    k = case['kind']
    names = [r['name'] for r in p]
    if k == 'delete':
        return ('ok', [r for r in p if r['name'] not in case['selected']])
    if k == 'duplicate':
        src = case['source'] or names[0]
        tn = case['target'] or src + '_copy'
        out = []
        tail = []
        for r in p:
            out.append(r)
            if r['name'] == src:
                c = dict(r, name=tn, path=tn + '.csv')
                (tail if case['to_end'] else out).append(c)
        if case.get('then_delete'):
            return ('ok', [r for r in out + tail if r['name'] != deleted_after_dup(case)])
        if case.get('then_edit'):
            who, f = edited_after_dup(case), case['then_edit'][1]
            res_ = []
            for r in out + tail:
                if r['name'] == who:
                    rows = rows_enc([dict((k_, v_) for k_, v_ in row.items() if k_ != f) for row in rows_dec(r['rows'])])
                    r = dict(r, fields=[x for x in r['fields'] if x[0] != f], rows=rows)
                res_.append(r)
            return ('ok', res_)
        return ('ok', out + tail)
    if k == 'append':
        new = [{'name': r['name'], 'fields': [[f['name'], f['type']] for f in r['fields']], 'pk': r['pk'] or [],
                'rows': r['rows']} for r in case['new']]
        if case['how'] == 'iterable':
            new = new[:1]
        return ('append', p, new)
    # concatenate
    sel = [n in case['selected'] for n in names] if case['selected'] is not None else [True] * len(names)
    mapping = {}
    for t, srcs in case['fields']:
        for s_ in srcs:
            if s_ in mapping:
                return ('reject',)
            mapping[s_] = t
        if t in mapping:
            return ('reject',)
        mapping[t] = t
    idx = [i for i, b in enumerate(sel) if b]
    if idx and idx != list(range(idx[0], idx[-1] + 1)):
        return ('reject',)
    targets = [t for t, _ in case['fields']]
    rows = []
    for i in idx:
        for r in rows_dec(p[i]['rows']):
            vals = [(mapping[a], b) for a, b in r.items() if a in mapping and b is not None]
            if not vals:
                return ('reject',)
            o = dict((t, None) for t in targets)
            o.update(dict(vals))
            rows.append(o)
    tgt = {'name': case['target'], 'rows': rows_enc(rows), 'targets': targets}
    if not idx:
        return ('concat', p, len(p), tgt)
    return ('concat', p[:idx[0]] + p[idx[-1] + 1:], idx[0], tgt)


def same_res(a, b, path=True):
    return a['name'] == b['name'] and a['fields'] == b['fields'] and list(a['pk']) == list(b['pk']) and a['rows'] == b['rows'] \
        and (not path or a.get('path') == b.get('path'))


def oracle(case, out):
    if case['kind'] == 'relload':
        if 'error' in out:
            return 'load of a relative path failed: %s' % out['exc']
        want = [[7, 'new'], [8, 'new']] if case['chdir'] else [[1, 'old'], [2, 'old'], [3, 'old']]
        if out['names'] != ['res_1', 'table'] or out['loaded'] != want:
            return ('load(\'data/table.csv\') built in one directory and run in %s appended %r with the rows %r; the file of that name '
                    'in the running directory holds %r') % ('another' if case['chdir'] else 'the same', out['names'], out['loaded'], want)
        return None
    if case['kind'] == 'liveload':
        what = 'load((descriptor, resources)) of the live stream of a flow with %s' % case['up']
        if 'error' in out:
            return '%s failed: %s' % (what, out['exc'])
        if out['names'][1:] != out['want_names'][1:] or out['counts'] != out['want_counts'] or not all(out['same']):
            return '%s appended %r with %r rows; read in turn that flow gives %r with %r rows' % (
                what, out['names'][1:], out['counts'][1:], out['want_names'][1:], out['want_counts'][1:])
        return None
    if case['kind'] == 'autoname':
        if 'error' in out:
            return 'autoname: run failed (%s)' % out['exc']
        if len(set(out['names'])) != len(out['names']):
            return 'a bare iterable appended after %d automatically named resources were %s got the name of an existing resource: %r' % (
                case['drop'], 'deleted' if case['via'] == 'delete' else 'merged', out['names'])
        want = case['n'] - case['drop'] + (1 if case['via'] == 'concat' else 0) + 1 - (1 if case.get('then_delete') else 0)
        if len(out['names']) != want or len(out['counts']) != want:
            return 'autoname: %d resources (%d streams), expected %d: %r' % (len(out['names']), len(out['counts']), want, out['names'])
        late = [i for i, s_ in enumerate(out['srcs']) if s_ == ['late']]
        if len(late) != 1 or out['counts'][late[0]] != 3:
            return 'autoname: the appended iterable did not come out as one resource with its own three rows: %r %r' % (out['srcs'], out['counts'])
        return None
    exp = expected(case)
    k = case['kind']
    if exp[0] == 'reject':
        return None if 'error' in out else 'concatenate accepted a documented rejection case'
    if 'error' in out:
        return '%s: run failed (%s)' % (k, out['exc'])
    got = out['pkg']
    if out['ndesc'] != out['nstreams']:
        return '%s: %d descriptors but %d row streams' % (k, out['ndesc'], out['nstreams'])
    if exp[0] == 'ok':
        if len(got) != len(exp[1]):
            return '%s: %d resources, expected %d' % (k, len(got), len(exp[1]))
        for g, e in zip(got, exp[1]):
            if not same_res(g, e, path=(k != 'duplicate' or True)):
                return '%s: resource %r differs from the specified result (rows %d vs %d)' % (k, g['name'], len(g['rows']), len(e['rows']))
        if k == 'duplicate' and 'after_edit' in out:
            ae = out['after_edit']
            if isinstance(ae, dict):
                return 'duplicate: pipeline with a later in-place edit failed: %s' % ae.get('error')
            src = case['source'] or case['pkg'][0]['name']
            tn = case['target'] or src + '_copy'
            for g in ae:
                if g['name'] == tn:
                    e = [x for x in exp[1] if x['name'] == tn][0]
                    if g['rows'] != e['rows']:
                        return 'duplicate: the copy is not an exact copy of the source (it reflects a later in-place edit of the original)'
        return None
    if exp[0] == 'append':
        old, new = exp[1], exp[2]
        if len(got) != len(old) + len(new):
            return 'append(%s): %d resources, expected %d existing + %d new' % (case['how'], len(got), len(old), len(new))
        for g, e in zip(got, old):
            if not same_res(g, e):
                return 'append(%s): existing resource %r changed or moved' % (case['how'], e['name'])
        for g, e in zip(got[len(old):], new):
            if g['rows'] != e['rows']:
                return 'append(%s): appended resource rows differ' % case['how']
            if case['how'] != 'iterable' and g['name'] != e['name']:
                return 'append(%s): appended resource name %r, expected %r' % (case['how'], g['name'], e['name'])
        return None
    rest, pos, tgt = exp[1], exp[2], exp[3]
    if len(got) != len(rest) + 1:
        return 'concatenate: %d resources, expected %d' % (len(got), len(rest) + 1)
    if got[pos]['name'] != tgt['name']:
        return 'concatenate: target is not at the position of the first selected resource'
    if got[pos]['rows'] != tgt['rows']:
        return 'concatenate: target rows differ (got %d, expected %d)' % (len(got[pos]['rows']), len(tgt['rows']))
    if sorted(f[0] for f in got[pos]['fields']) != sorted(tgt['targets']):
        return 'concatenate: target schema fields %r, mapping targets %r' % ([f[0] for f in got[pos]['fields']], tgt['targets'])
    others = got[:pos] + got[pos + 1:]
    for g, e in zip(others, rest):
        if not same_res(g, e):
            return 'concatenate: unselected resource %r changed' % e['name']
    return None


def coq_rsrc(r):
    return '{| r_name := %s; r_path := %s; r_fields := %s; r_pk := %s; r_rows := %s |}' % (
        cstr(r['name']), cstr(r.get('path') or ''), clist([cpair(cstr(a), cstr(b)) for a, b in r['fields']]),
        cstrs(r['pk']), crows(rows_dec(r['rows'])))


def coq_pkg(p):
    return clist([coq_rsrc(r) for r in p])


def crname(name):
    m = re.fullmatch(r'res_(0|[1-9][0-9]*)', name)
    return '(Auto %s)' % cnat(int(m.group(1))) if m else '(Other %s)' % cstr(name)


def coq_term(case, out):
    if case['kind'] in ('liveload', 'relload'):
        return None
    if case['kind'] == 'autoname':
        # the model's rule applied to the names that were there when the last iterable was added must give the name the
        # library gave it
        if 'error' in out:
            return None
        late = [i for i, s_ in enumerate(out['srcs']) if s_ == ['late']]
        if len(late) != 1:
            return 'false'
        before = [n for i, n in enumerate(out['names']) if i != late[0]]
        if case.get('then_delete') and 'res_%d' % case['then_delete'] not in out['names']:
            before.append('res_%d' % case['then_delete'])
        got = crname(out['names'][late[0]])
        return 'rname_eqb (Auto (auto_index %s)) %s' % (clist([crname(n) for n in before]), got)
    k = case['kind']
    p = input_pkg(case)
    names = [r['name'] for r in p]
    if any(len(r['rows']) > 300 for r in p):
        return None
    if k == 'append':
        return None if 'error' in out else 'pkg_eqb (append_resources %s %s) %s' % (
            coq_pkg(out['pkg'][:len(p)]), coq_pkg(out['pkg'][len(p):]), coq_pkg(out['pkg']))
    if k == 'delete':
        model = 'delete_resource (fun n => str_in n %s) %s' % (cstrs(case['selected']), coq_pkg(p))
        return 'false' if 'error' in out else 'pkg_eqb (%s) %s' % (model, coq_pkg(out['pkg']))
    if k == 'duplicate':
        src = case['source'] or names[0]
        tn = case['target'] or src + '_copy'
        model = 'duplicate 8 %s %s %s %s %s' % (cstr(src), cstr(tn), cstr(tn + '.csv'), cbool(case['to_end']), coq_pkg(p))
        if case.get('then_delete'):
            model = 'delete_resource (fun n => str_in n %s) (%s)' % (cstrs([deleted_after_dup(case)]), model)
        if case.get('then_edit'):
            return None        # the follow-up edit is judged by the oracle only
        return 'false' if 'error' in out else 'pkg_eqb (%s) %s' % (model, coq_pkg(out['pkg']))
    sel = 'fun n => str_in n %s' % cstrs(case['selected']) if case['selected'] is not None else 'fun _ => true'
    model = 'concatenate %s %s %s (%s) %s' % (
        clist([cpair(cstr(t), cstrs(s_)) for t, s_ in case['fields']]), cstr(case['target']),
        cstr('data/' + case['target'] + '.csv'), sel, coq_pkg(p))
    if 'error' in out:
        return 'match %s with Err _ => true | Ok _ => false end' % model
    return 'match %s with Err _ => false | Ok o => pkg_eqb o %s end' % (model, coq_pkg(out['pkg']))


def nontrivial(case, out):
    return case['kind'] in ('autoname', 'liveload', 'relload') or 'error' in out or [r['name'] for r in out['pkg']] != [r['name'] for r in case['pkg']] or \
        any(a['rows'] != b['rows'] for a, b in zip(out['pkg'], case['pkg']))


def shrinks(case):
    if case.get('big'):
        return
    for i, r in enumerate(case['pkg']):
        for j in range(len(r['rows'])):
            c = copy.deepcopy(case)
            del c['pkg'][i]['rows'][j]
            yield c
