From Coq Require Import List Arith Bool Lia.
From DF Require Import Base.Str Base.Str_proofs Proc.AutoName.
Import ListNotations.

Lemma taken_b_In taken i : taken_b taken i = true <-> In i taken.
Proof.
  unfold taken_b. rewrite existsb_exists. split.
  - intros [x [Hin He]]. apply Nat.eqb_eq in He. subst. exact Hin.
  - intros Hin. exists i. split; [exact Hin | apply Nat.eqb_refl].
Qed.

Definition above (start : nat) (taken : list nat) : list nat := filter (fun t => start <=? t) taken.

Lemma above_step start taken :
  In start taken -> length (above (S start) taken) < length (above start taken).
Proof.
  unfold above. induction taken as [|t ts IH]; intros Hin; [destruct Hin|].
  cbn [filter].
  destruct (Nat.eq_dec t start) as [->|Hne].
  - rewrite Nat.leb_refl. replace (S start <=? start) with false by (symmetry; apply Nat.leb_gt; lia).
    cbn [length].
    assert (length (filter (fun t => S start <=? t) ts) <= length (filter (fun t => start <=? t) ts)).
    { clear. induction ts as [|u us IH]; cbn [filter]; [lia|].
      destruct (S start <=? u) eqn:E1; destruct (start <=? u) eqn:E2; cbn [length]; try lia.
      apply Nat.leb_le in E1. apply Nat.leb_gt in E2. lia. }
    lia.
  - destruct Hin as [He|Hin]; [congruence|]. specialize (IH Hin).
    destruct (S start <=? t) eqn:E1; destruct (start <=? t) eqn:E2; cbn [length]; try lia.
    apply Nat.leb_le in E1. apply Nat.leb_gt in E2. lia.
Qed.

Lemma above_nil start taken : length (above start taken) = 0 -> ~ In start taken.
Proof.
  unfold above. intros Hl Hin.
  assert (In start (filter (fun t => start <=? t) taken)) as Hf.
  { apply filter_In. split; [exact Hin | apply Nat.leb_refl]. }
  destruct (filter (fun t => start <=? t) taken); [destruct Hf | discriminate].
Qed.

(* with enough fuel the search ends on a free index; it never passes a free index *)
Lemma first_free_spec taken : forall fuel start,
  length (above start taken) <= fuel ->
  let i := first_free taken start fuel in
  ~ In i taken /\ start <= i /\ (forall j, start <= j < i -> In j taken).
Proof.
  induction fuel as [|f IH]; intros start Hlen; cbn [first_free].
  - repeat split; [apply above_nil; lia | lia | intros j Hj; lia].
  - destruct (taken_b taken start) eqn:Et.
    + apply taken_b_In in Et.
      destruct (IH (S start)) as [H1 [H2 H3]].
      { pose proof (above_step start taken Et). lia. }
      repeat split; [exact H1 | lia |].
      intros j Hj. destruct (Nat.eq_dec j start) as [->|Hne]; [exact Et | apply H3; lia].
    + repeat split; [| lia | intros j Hj; lia].
      intros Hin. apply taken_b_In in Hin. congruence.
Qed.

Lemma above_le_length start taken : length (above start taken) <= length taken.
Proof. unfold above. induction taken as [|t ts IH]; cbn [filter length]; [lia|]. destruct (start <=? t); cbn [length]; lia. Qed.

Lemma In_autos names n : In n (autos names) <-> In (Auto n) names.
Proof.
  unfold autos. rewrite in_flat_map. split.
  - intros [x [Hin Hx]]. destruct x as [m|s]; [|destruct Hx]. destruct Hx as [->|[]]. exact Hin.
  - intros Hin. exists (Auto n). split; [exact Hin | left; reflexivity].
Qed.

(* the automatic name is new *)
Theorem auto_index_fresh names : ~ In (Auto (auto_index names)) names.
Proof.
  unfold auto_index. intros Hin. apply In_autos in Hin.
  destruct (first_free_spec (autos names) (length (autos names)) (S (length names))) as [H1 _].
  { apply above_le_length. }
  exact (H1 Hin).
Qed.

(* it is res_<count + 1> whenever that is free, and otherwise the first free number after it *)
Theorem auto_index_least names :
  S (length names) <= auto_index names /\
  forall j, S (length names) <= j < auto_index names -> In (Auto j) names.
Proof.
  unfold auto_index.
  destruct (first_free_spec (autos names) (length (autos names)) (S (length names))) as [_ [H2 H3]].
  { apply above_le_length. }
  split; [exact H2|]. intros j Hj. apply In_autos. apply H3. exact Hj.
Qed.

Theorem auto_index_default names : ~ In (Auto (S (length names))) names -> auto_index names = S (length names).
Proof.
  intros Hfree. destruct (auto_index_least names) as [H1 H2].
  destruct (Nat.eq_dec (auto_index names) (S (length names))) as [E|Hne]; [exact E|].
  exfalso. apply Hfree. apply H2. lia.
Qed.

Lemma NoDup_snoc {A} (l : list A) (x : A) : NoDup l -> ~ In x l -> NoDup (l ++ [x]).
Proof.
  induction l as [|a l IH]; intros Hnd Hx; cbn [app].
  - constructor; [intros [] | constructor].
  - inversion Hnd as [|a' l' Ha Hl]; subst. constructor.
    + rewrite in_app_iff. intros [Hin|[He|[]]]; [exact (Ha Hin) | subst; apply Hx; left; reflexivity].
    + apply IH; [exact Hl | intros Hin; apply Hx; right; exact Hin].
Qed.

(* names stay pairwise distinct after an addition ... *)
Theorem add_auto_nodup names : NoDup names -> NoDup (add_auto names).
Proof. intros Hnd. unfold add_auto. apply NoDup_snoc; [exact Hnd | apply auto_index_fresh]. Qed.

(* ... and after any number of additions, whatever was deleted, merged or named by hand in between: a history is
   a list of operations on the list of names *)
Inductive nop := NAdd | NDelete (i : nat) | NExplicit (s : str).

Fixpoint remove_nth {A} (i : nat) (l : list A) : list A :=
  match l, i with
  | [], _ => []
  | _ :: t, O => t
  | a :: t, S j => a :: remove_nth j t
  end.

Definition nstep (names : list rname) (o : nop) : option (list rname) :=
  match o with
  | NAdd => Some (add_auto names)
  | NDelete i => Some (remove_nth i names)
  | NExplicit s => if existsb (rname_eqb (Other s)) names then None else Some (names ++ [Other s])
  end.

Fixpoint nrun (names : list rname) (ops : list nop) : option (list rname) :=
  match ops with
  | [] => Some names
  | o :: rest => match nstep names o with Some n' => nrun n' rest | None => None end
  end.

Lemma remove_nth_incl {A} i (l : list A) x : In x (remove_nth i l) -> In x l.
Proof.
  revert i. induction l as [|a l IH]; intros i Hin; [destruct i; exact Hin|].
  destruct i as [|j]; cbn [remove_nth] in Hin; [right; exact Hin|].
  destruct Hin as [->|Hin]; [left; reflexivity | right; exact (IH j Hin)].
Qed.

Lemma remove_nth_nodup {A} i (l : list A) : NoDup l -> NoDup (remove_nth i l).
Proof.
  revert i. induction l as [|a l IH]; intros i Hnd; [destruct i; exact Hnd|].
  inversion Hnd as [|a' l' Ha Hl]; subst.
  destruct i as [|j]; cbn [remove_nth]; [exact Hl|].
  constructor; [intros Hin; apply Ha; exact (remove_nth_incl j l a Hin) | apply IH; exact Hl].
Qed.

Lemma rname_eqb_eq a b : rname_eqb a b = true <-> a = b.
Proof.
  destruct a as [n|s]; destruct b as [m|t]; cbn [rname_eqb]; split; intros H; try discriminate.
  - apply Nat.eqb_eq in H. subst. reflexivity.
  - inversion H. apply Nat.eqb_refl.
  - apply str_eqb_eq in H. subst. reflexivity.
  - inversion H. apply str_eqb_eq. reflexivity.
Qed.

Lemma nstep_nodup names o names' : NoDup names -> nstep names o = Some names' -> NoDup names'.
Proof.
  intros Hnd Hs. destruct o as [|i|s]; cbn [nstep] in Hs.
  - inversion Hs. apply add_auto_nodup. exact Hnd.
  - inversion Hs. apply remove_nth_nodup. exact Hnd.
  - destruct (existsb (rname_eqb (Other s)) names) eqn:E; [discriminate|]. inversion Hs.
    apply NoDup_snoc; [exact Hnd|]. intros Hin.
    assert (existsb (rname_eqb (Other s)) names = true) as Ht.
    { apply existsb_exists. exists (Other s). split; [exact Hin | apply rname_eqb_eq; reflexivity]. }
    congruence.
Qed.

Theorem nrun_nodup ops : forall names names', NoDup names -> nrun names ops = Some names' -> NoDup names'.
Proof.
  induction ops as [|o rest IH]; intros names names' Hnd Hr; cbn [nrun] in Hr.
  - inversion Hr. subst. exact Hnd.
  - destruct (nstep names o) as [n1|] eqn:Es; [|discriminate].
    apply (IH n1 names'); [exact (nstep_nodup names o n1 Hnd Es) | exact Hr].
Qed.

(* the rule the library used before fix f9060c2 does not have this property *)
Theorem old_add_auto_refuted : exists names, NoDup names /\ ~ NoDup (old_add_auto names).
Proof.
  exists [Auto 2]. split.
  - constructor; [intros [] | constructor].
  - cbv. intros Hnd. inversion Hnd as [|a l Ha Hl]; subst. apply Ha. left. reflexivity.
Qed.

(* non-vacuity: twelve automatic names, the first three deleted, one more added (the history of the finding) *)
Example finding_history :
  nrun [] (repeat NAdd 12 ++ [NDelete 0; NDelete 0; NDelete 0; NAdd]) =
  Some (map Auto [4;5;6;7;8;9;10;11;12;13]).
Proof. vm_compute. reflexivity. Qed.
