(* ResourceMatcher (dataflows/helpers/resource_matcher.py) *)
From Coq Require Import List ZArith Bool Lia.
From DF Require Import Base.Str Base.Value Base.Regex.
Import ListNotations.
Open Scope Z_scope.

Inductive sel :=
| SAll                       (* resources=None *)
| SRegex (r : re)            (* a string, compiled and fully matched *)
| SList (l : list str)
| SIndex (i : Z).

Definition E_INDEX : Z := 5.

(* Python list indexing: negative indices count from the end *)
Definition py_index {A} (l : list A) (i : Z) : option A :=
  let n := Z.of_nat (length l) in
  if (0 <=? i) && (i <? n) then nth_error l (Z.to_nat i)
  else if (i <? 0) && (0 <=? n + i) then nth_error l (Z.to_nat (n + i))
  else None.

(* the matcher built from a selector and the package's resource names;
   an out-of-range index raises IndexError in ResourceMatcher.__init__ *)
Definition resolve (sl : sel) (names : list str) : res (str -> bool) :=
  match sl with
  | SAll => Ok (fun _ => true)
  | SRegex r => Ok (fullmatch r)
  | SList l => Ok (fun n => str_in n l)
  | SIndex i =>
      match py_index names i with
      | Some nm => Ok (fun n => str_in n [nm])
      | None => Err E_INDEX
      end
  end.

(* which resources (by position) a selector selects *)
Definition selected (sl : sel) (names : list str) : res (list bool) :=
  match resolve sl names with
  | Ok m => Ok (map m names)
  | Err c => Err c
  end.

(* a step that edits exactly the selected resources; X = descriptor or row list *)
Definition apply_selected {X} (m : str -> bool) (f : str -> X -> X) (xs : list (str * X)) : list (str * X) :=
  map (fun nx => if m (fst nx) then (fst nx, f (fst nx) (snd nx)) else nx) xs.

