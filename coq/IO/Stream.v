(* stream / unstream / checkpoint (dataflows/processors/{stream,unstream,checkpoint}.py):
   the line format, the file operations performed while saving, crash states,
   and run/delete histories.  Descriptor and row line codecs are parameters
   (instantiated by IO/EJson.v). *)
From Coq Require Import List ZArith Bool Lia.
From DF Require Import Base.Str Base.Value.
Import ListNotations.
Open Scope Z_scope.

Definition line := str.

Section Stream.
  Variables D R : Type.
  Variable encD : D -> line.   Variable decD : line -> option D.
  Variable encR : R -> line.   Variable decR : line -> option R.
  Variable nres : D -> nat.                       (* len(descriptor['resources']) *)

  Definition spkg := (D * list (list R))%type.

  (* write(descriptor); for res: (write(row) for each row); file.write('\n') *)
  Definition stream_lines (p : spkg) : list line :=
    encD (fst p) :: flat_map (fun rows => map encR rows ++ [[]]) (snd p).

  (* res_reader: read lines until a blank line or the end of the file *)
  Fixpoint read_rows (ls : list line) : option (list R * list line) :=
    match ls with
    | [] => Some ([], [])
    | [] :: rest => Some ([], rest)
    | l :: rest =>
        match decR l with
        | None => None
        | Some r => match read_rows rest with
                    | Some (rs, tl) => Some (r :: rs, tl)
                    | None => None
                    end
        end
    end.

  Fixpoint read_resources (n : nat) (ls : list line) : option (list (list R)) :=
    match n with
    | O => Some []
    | S n' => match read_rows ls with
              | None => None
              | Some (rs, tl) => match read_resources n' tl with
                                 | Some rss => Some (rs :: rss)
                                 | None => None
                                 end
              end
    end.

  Definition unstream_lines (ls : list line) : option spkg :=
    match ls with
    | [] => None
    | [] :: _ => None
    | l :: rest =>
        match decD l with
        | None => None
        | Some d => match read_resources (nres d) rest with
                    | Some rss => Some (d, rss)
                    | None => None
                    end
        end
    end.

  (* ---------- file operations while saving a checkpoint ---------- *)
  Inductive fop :=
  | Mkdir
  | OpenTrunc (p : str)                    (* open(p, 'w') *)
  | WriteFlush (p : str) (l : line)        (* file.write(line + '\n'); file.flush() *)
  | WriteBuffered (p : str) (l : line)     (* file.write('\n') without flush *)
  | Close (p : str)
  | Rename (p q : str).

  (* a file system: path -> lines that have reached the OS; plus the lines
     still sitting in the Python-level buffer of the file being written *)
  Record fsys := { files : list (str * list line); buffered : list line }.

  Fixpoint fs_get (f : list (str * list line)) (p : str) : option (list line) :=
    match f with [] => None | (a, c) :: r => if str_eqb p a then Some c else fs_get r p end.
  Fixpoint fs_set (f : list (str * list line)) (p : str) (c : list line) : list (str * list line) :=
    match f with
    | [] => [(p, c)]
    | (a, c') :: r => if str_eqb p a then (a, c) :: r else (a, c') :: fs_set r p c
    end.
  Fixpoint fs_del (f : list (str * list line)) (p : str) : list (str * list line) :=
    match f with [] => [] | (a, c) :: r => if str_eqb p a then fs_del r p else (a, c) :: fs_del r p end.

  Definition content (s : fsys) (p : str) : list line := match fs_get (files s) p with Some c => c | None => [] end.

  Definition apply_op (s : fsys) (o : fop) : fsys :=
    match o with
    | Mkdir => s
    | OpenTrunc p => {| files := fs_set (files s) p []; buffered := [] |}
    | WriteFlush p l => {| files := fs_set (files s) p (content s p ++ buffered s ++ [l]); buffered := [] |}
    | WriteBuffered p l => {| files := files s; buffered := buffered s ++ [l] |}
    | Close p => {| files := fs_set (files s) p (content s p ++ buffered s); buffered := [] |}
    | Rename p q =>
        match fs_get (files s) p with
        | Some c => {| files := fs_set (fs_del (files s) p) q c; buffered := buffered s |}
        | None => s
        end
    end.

  Definition run_ops (ops : list fop) (s : fsys) : fsys := fold_left apply_op ops s.

  Variable final active : str.              (* .../stream.ndjson and the same + ACTIVE_SUFFIX *)

  Definition stream_ops (p : spkg) : list fop :=
    [Mkdir; OpenTrunc active; WriteFlush active (encD (fst p))]
      ++ flat_map (fun rows => map (fun r => WriteFlush active (encR r)) rows ++ [WriteFlush active []]) (snd p)
      ++ [Close active; Rename active final].

  (* a kill after k operations: what reached the OS survives, the buffer is lost *)
  Definition crash_state (p : spkg) (k : nat) (s0 : fsys) : fsys :=
    {| files := files (run_ops (firstn k (stream_ops p)) s0); buffered := [] |}.

  (* ---------- checkpoint: run / delete histories ---------- *)
  Inductive hop := HRun | HDelete.

  (* one run of a flow with checkpoint(name): returns the result, whether the
     steps before the checkpoint were executed, and the new file system *)
  Definition run_once (upstream : spkg) (s : fsys) : option spkg * bool * fsys :=
    match fs_get (files s) final with
    | Some c => (unstream_lines c, false, s)
    | None => (Some upstream, true, run_ops (stream_ops upstream) s)
    end.

  Definition delete_dir (s : fsys) : fsys :=
    {| files := fs_del (fs_del (files s) final) active; buffered := [] |}.

  Fixpoint history (upstream : spkg) (h : list hop) (s : fsys) : list (option spkg * bool) :=
    match h with
    | [] => []
    | HRun :: rest => let '(r, ex, s') := run_once upstream s in (r, ex) :: history upstream rest s'
    | HDelete :: rest => history upstream rest (delete_dir s)
    end.
End Stream.

(* ---------- the file as text ---------- *)
(* file.write(line + '\n') for every line; readline() gives the lines back (a text without a final line break ends in a
   partial line) *)
Definition file_text (ls : list line) : str := flat_map (fun l => l ++ [10]) ls.

Fixpoint split_lines (t : str) : list line :=
  match t with
  | [] => []
  | c :: r => if c =? 10 then [] :: split_lines r
              else match split_lines r with [] => [[c]] | l :: ls => (c :: l) :: ls end
  end.
