(* C14: set_type and validate cast valid values and apply the error policy exactly.
   [cast] is Table Schema's Field.cast_value (a parameter: Some = cast value, None = CastError). *)
From Coq Require Import List ZArith Bool.
From DF Require Import Base.Str Base.Value Proc.RowOps Proc.Validate Proc.Validate_proofs.
Import ListNotations.
Open Scope Z_scope.

(* rows whose checked values are all valid are never dropped or altered (beyond the cast), under every policy *)
Theorem C14_valid_rows_untouched : forall cast pol fields rows, NoDup fields ->
  (forall x, In x rows -> bad_fields cast fields x = []) ->
  forall i st, vs_raised st = None ->
  validator cast pol fields i rows st =
  {| vs_out := vs_out st ++ map (cast_row cast fields) rows; vs_calls := vs_calls st; vs_raised := None |}.
Proof. exact valid_rows_untouched. Qed.
Print Assumptions C14_valid_rows_untouched.

(* every emitted checked value equals Table Schema's cast of the incoming value *)
Theorem C14_emitted_value_is_cast : forall cast fields r f, NoDup fields -> In f fields ->
  rget0 (cast_row cast fields r) f = match cast f (rget0 r f) with Some v => v | None => rget0 r f end.
Proof. exact cast_row_field. Qed.
Print Assumptions C14_emitted_value_is_cast.

Theorem C14_unchecked_fields_untouched : forall cast fields r g,
  ~ In g fields -> rget0 (cast_row cast fields r) g = rget0 r g.
Proof. exact cast_row_other. Qed.
Print Assumptions C14_unchecked_fields_untouched.

(* raise aborts at the first offending row, carrying its index *)
Theorem C14_policy_raise : forall cast fields pre r post f rest, NoDup fields ->
  (forall x, In x pre -> bad_fields cast fields x = []) -> bad_fields cast fields r = f :: rest ->
  forall i st, vs_raised st = None ->
  exists r', validator cast PRaise fields i (pre ++ r :: post) st =
  {| vs_out := vs_out st ++ map (cast_row cast fields) pre;
     vs_calls := vs_calls st ++ [(f, i + Z.of_nat (length pre))];
     vs_raised := Some (i + Z.of_nat (length pre), f, r') |}.
Proof. exact policy_raise_first_bad. Qed.
Print Assumptions C14_policy_raise.

(* drop removes exactly the rows with an offending value *)
Theorem C14_policy_drop : forall cast fields rows, NoDup fields ->
  forall i st, vs_raised st = None ->
  validator cast PDrop fields i rows st =
  {| vs_out := vs_out st ++ map (cast_row cast fields) (filter (valid_row cast fields) rows);
     vs_calls := vs_calls st ++ all_calls cast fields i rows; vs_raised := None |}.
Proof. exact policy_drop. Qed.
Print Assumptions C14_policy_drop.

(* ignore keeps every row, offending values unchanged *)
Theorem C14_policy_ignore : forall cast fields rows, NoDup fields ->
  forall i st, vs_raised st = None ->
  validator cast PIgnore fields i rows st =
  {| vs_out := vs_out st ++ map (cast_row cast fields) rows;
     vs_calls := vs_calls st ++ all_calls cast fields i rows; vs_raised := None |}.
Proof. exact policy_ignore. Qed.
Print Assumptions C14_policy_ignore.

(* clear keeps every row and nulls exactly the offending fields *)
Theorem C14_policy_clear : forall cast fields rows, NoDup fields ->
  forall i st, vs_raised st = None ->
  validator cast PClear fields i rows st =
  {| vs_out := vs_out st ++ map (clear_row cast fields) rows;
     vs_calls := vs_calls st ++ all_calls cast fields i rows; vs_raised := None |}.
Proof. exact policy_clear. Qed.
Print Assumptions C14_policy_clear.

Theorem C14_clear_nulls_exactly_offending : forall cast fields r f, NoDup fields -> In f fields ->
  rget0 (clear_row cast fields r) f = match cast f (rget0 r f) with Some v => v | None => VNull end.
Proof. exact clear_row_field. Qed.
Print Assumptions C14_clear_nulls_exactly_offending.

Theorem C14_clear_leaves_other_fields : forall cast fields r g,
  ~ In g fields -> rget0 (clear_row cast fields r) g = rget0 r g.
Proof. exact clear_row_other. Qed.
Print Assumptions C14_clear_leaves_other_fields.

(* set_type applies the transform before the cast sees the value *)
Theorem C14_transform_before_cast : forall tr fields r f, NoDup fields -> In f fields ->
  rget0 (transform_row tr fields r) f = tr f (rget0 r f).
Proof. exact transform_row_field. Qed.
Print Assumptions C14_transform_before_cast.

From Coq Require Import String.
Local Open Scope string_scope.
Example C14_nonvacuous :
  let cast := tbl_cast [(s "n", VStr (s "1"), Some (VInt 1)); (s "n", VStr (s "x"), None); (s "n", VStr (s "2"), Some (VInt 2))] in
  let rows := [[(s "n", VStr (s "1"))]; [(s "n", VStr (s "x"))]; [(s "n", VStr (s "2"))]] in
  vs_out (run_validator cast PDrop [s "n"] rows) = [[(s "n", VInt 1)]; [(s "n", VInt 2)]] /\
  vs_out (run_validator cast PClear [s "n"] rows) = [[(s "n", VInt 1)]; [(s "n", VNull)]; [(s "n", VInt 2)]] /\
  vs_raised (run_validator cast PRaise [s "n"] rows) = Some (1, s "n", [(s "n", VStr (s "x"))]).
Proof. vm_compute. repeat split; reflexivity. Qed.
