From Coq Require Import List ZArith Bool Lia.
From DF Require Import Base.Str Base.Str_proofs Base.ListX Base.Value Proc.RowOps Proc.Fields Proc.Load.
Import ListNotations.
Open Scope Z_scope.

(* limit_rows yields exactly the first n rows *)
Lemma limiter_firstn_gen rows : forall limit count,
  0 <= count < limit -> limiter limit count rows = firstn (Z.to_nat (limit - count)) rows.
Proof.
  induction rows as [|r rs IH]; intros limit count H; simpl.
  - destruct (Z.to_nat (limit - count)); reflexivity.
  - destruct (limit <=? count + 1) eqn:E.
    + apply Z.leb_le in E. assert (limit - count = 1) by lia. rewrite H0. simpl. reflexivity.
    + apply Z.leb_gt in E. rewrite IH by lia.
      replace (Z.to_nat (limit - count)) with (S (Z.to_nat (limit - (count + 1)))) by lia. reflexivity.
Qed.

Theorem limiter_firstn rows n : 1 <= n -> limiter n 0 rows = firstn (Z.to_nat n) rows.
Proof. intros H. rewrite limiter_firstn_gen by lia. f_equal. lia. Qed.

(* the string strategies yield only strings *)
Definition is_str (v : value) : bool := match v with VStr _ => true | _ => false end.

Theorem stringer_all_strings v v' : stringer_value v = Ok v' -> is_str v' = true.
Proof.
  unfold stringer_value. destruct v; try (destruct (str_of_value _) eqn:E);
    intros H; try discriminate; injection H as <-; reflexivity.
Qed.

Theorem stringer_keeps_strings x : stringer_value (VStr x) = Ok (VStr x).
Proof. reflexivity. Qed.

(* stripping: keys and row count unchanged, non-string values untouched *)
Theorem stripper_shape rows : map rkeys (stripper rows) = map rkeys rows.
Proof.
  unfold stripper. rewrite map_map. apply map_ext. intros r. unfold rkeys. rewrite map_map. reflexivity.
Qed.

Theorem strip_value_non_string v : is_str v = false -> strip_value v = v.
Proof. destruct v; simpl; try reflexivity. discriminate. Qed.

Theorem strip_value_spec x :
  strip_value (VStr x) =
  match x with
  | [] => VStr []
  | c :: r => if trigger c || trigger (last x 0) then VStr (strip x) else VStr x
  end.
Proof. destruct x; reflexivity. Qed.

Lemma lstrip_no_leading x : match lstrip x with [] => True | c :: _ => py_space c = false end.
Proof. induction x as [|c r IH]; simpl; [exact I|]. destruct (py_space c) eqn:E; [exact IH|exact E]. Qed.

(* wrapper order: cast, then strip, then limit *)
Theorem wrapper_order caster rows n : 1 <= n ->
  wrap caster true (Some n) rows = firstn (Z.to_nat n) (stripper (caster rows)).
Proof.
  intros H. unfold wrap. destruct (n =? 0) eqn:E; [apply Z.eqb_eq in E; lia|]. apply limiter_firstn, H.
Qed.

Theorem wrapper_no_limit caster rows : wrap caster false None rows = caster rows.
Proof. reflexivity. Qed.

(* headers: rejected when duplicates exist and de-duplication was not requested; untouched when unique *)
Theorem headers_rejected cs pre post hs :
  has_duplicates cs hs = true -> load_headers false cs pre post hs = Err E_VALUE.
Proof. intros H. unfold load_headers. rewrite H. reflexivity. Qed.

Theorem headers_unique_untouched dedup cs pre post hs :
  has_duplicates cs hs = false -> load_headers dedup cs pre post hs = Ok hs.
Proof. intros H. unfold load_headers. rewrite H. reflexivity. Qed.

Theorem has_duplicates_spec hs : has_duplicates true hs = false <-> NoDup hs.
Proof. unfold has_duplicates. rewrite negb_false_iff. apply str_nodup_NoDup. Qed.

(* loading from a tuple / package keeps each selected descriptor paired with its own rows *)
Theorem select_pairs_paired {A B} (m : str -> bool) (name : A -> str) (l : list (A * B)) p :
  In p (select_pairs m name l) <-> In p l /\ m (name (fst p)) = true.
Proof. unfold select_pairs. apply filter_In. Qed.

Theorem select_pairs_order {A B} (m : str -> bool) (name : A -> str) (l : list (A * B)) :
  subseq (select_pairs m name l) l.
Proof. apply subseq_filter. Qed.
