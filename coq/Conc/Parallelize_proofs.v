From Coq Require Import List ZArith Bool Lia Permutation.
From DF Require Import Conc.Parallelize.
Import ListNotations.

(* ================= where the rows are ================= *)
Definition opt_items (q : list (option item)) : list item :=
  flat_map (fun o => match o with Some x => [x] | None => [] end) q.
Definition held (w : wst) : list item := match w with WHold x => [x] | _ => [] end.
Definition fheld (f : fst_) : list item := match f with FHold _ x => [x] | _ => [] end.

Definition rows_of (s : state) : list item :=
  p_rem s ++ opt_items (q_in s) ++ flat_map held (workers s) ++ opt_items (q_out s)
        ++ fheld (fetcher s) ++ opt_items (q_int s) ++ delivered s.

(* number of rows with identity n in a list *)
Definition C (n : nat) (l : list item) : nat := count_occ Nat.eq_dec (map iid l) n.

Lemma C_app n a b : C n (a ++ b) = C n a + C n b.
Proof. unfold C. rewrite map_app. apply count_occ_app. Qed.
Lemma C_nil n : C n [] = 0.
Proof. reflexivity. Qed.
Lemma C_cons n x l : C n (x :: l) = C n [x] + C n l.
Proof. change (x :: l) with ([x] ++ l). apply C_app. Qed.
Lemma C_process n x : C n [process x] = C n [x].
Proof. reflexivity. Qed.
Lemma opt_items_app a b : opt_items (a ++ b) = opt_items a ++ opt_items b.
Proof. unfold opt_items. apply flat_map_app. Qed.

Lemma CW_set_nth n ws : forall i w w0,
  nth_error ws i = Some w0 ->
  C n (flat_map held (set_nth i w ws)) + C n (held w0) = C n (flat_map held ws) + C n (held w).
Proof.
  induction ws as [|a ws IH]; intros [|i] w w0 H; simpl in *; try discriminate.
  - injection H as ->. rewrite !C_app. lia.
  - specialize (IH i w w0 H). rewrite !C_app. lia.
Qed.

Lemma opt_some x r : opt_items (Some x :: r) = [x] ++ opt_items r.
Proof. reflexivity. Qed.
Lemma opt_none r : opt_items (None :: r) = opt_items r.
Proof. reflexivity. Qed.
Lemma opt_nil : opt_items [] = [].
Proof. reflexivity. Qed.

Ltac crush_C :=
  unfold rows_of; cbn [p_rem p_marks q_in workers q_out fetcher q_int delivered upd_w];
  repeat rewrite ?opt_items_app, ?opt_some, ?opt_none, ?opt_nil, ?C_app; cbn [held fheld];
  repeat rewrite ?C_app, ?C_nil, ?C_process.

(* every queue operation moves a row: none is lost, none is duplicated *)
Theorem fire_preserves_rows s l s' n : fire s l = Some s' -> C n (rows_of s') = C n (rows_of s).
Proof.
  destruct l; simpl; intros H.
  - (* producer *)
    destruct (p_rem s) as [|x rest] eqn:P.
    + destruct (p_marks s); [discriminate|]. injection H as <-. crush_C. rewrite P. crush_C. lia.
    + destruct (isel x); injection H as <-; crush_C; rewrite P; rewrite (C_cons n x rest); crush_C; lia.
  - (* worker get *)
    destruct (nth_error (workers s) i) as [w0|] eqn:W; [|discriminate].
    destruct w0; try discriminate. destruct (q_in s) as [|[x|] rest] eqn:Q; try discriminate;
      injection H as <-; crush_C; pose proof (CW_set_nth n (workers s) i) as L.
    + specialize (L (WHold x) WIdle W). cbn [held] in L. rewrite C_nil in L. rewrite Q. crush_C. lia.
    + specialize (L WEnd WIdle W). cbn [held] in L. rewrite C_nil in L. rewrite Q. crush_C. lia.
  - (* worker put *)
    destruct (nth_error (workers s) i) as [w0|] eqn:W; [|discriminate].
    destruct w0; try discriminate; injection H as <-; crush_C; pose proof (CW_set_nth n (workers s) i) as L.
    + specialize (L WIdle (WHold x) W). cbn [held] in L. rewrite C_nil in L. lia.
    + specialize (L WDone WEnd W). cbn [held] in L. rewrite C_nil in L. lia.
  - (* fetcher get *)
    destruct (fetcher s) as [e|e x| |] eqn:F; try discriminate.
    destruct e as [|[|e]]; destruct (q_out s) as [|[x|] rest] eqn:Q; try discriminate;
      injection H as <-; crush_C; rewrite ?F, ?Q; crush_C; lia.
  - (* fetcher put *)
    destruct (fetcher s) as [e|e x| |] eqn:F; try discriminate; injection H as <-; crush_C; rewrite F; crush_C; lia.
  - (* collector *)
    destruct (c_done s); [discriminate|].
    destruct (q_int s) as [|[x|] rest] eqn:Q; try discriminate; injection H as <-; crush_C; rewrite Q; crush_C; lia.
Qed.

Theorem run_preserves_rows ls : forall s s' n, run s ls = Some s' -> C n (rows_of s') = C n (rows_of s).
Proof.
  induction ls as [|l ls IH]; intros s s' n H; simpl in H.
  - injection H as <-. reflexivity.
  - destruct (fire s l) as [s1|] eqn:F; [|discriminate].
    rewrite (IH _ _ n H). eapply fire_preserves_rows, F.
Qed.

Lemma held_idle n : flat_map held (repeat WIdle n) = [].
Proof. induction n as [|n IH]; simpl; [reflexivity|exact IH]. Qed.

(* in every reachable state the rows in the system are exactly the input rows, as a multiset of identities *)
Theorem reachable_rows_are_input n input ls s :
  run (init n input) ls = Some s -> Permutation (map iid (rows_of s)) (map iid input).
Proof.
  intros H. apply (Permutation_count_occ Nat.eq_dec). intros k.
  pose proof (run_preserves_rows ls _ _ k H) as E. unfold C in E. rewrite E.
  unfold rows_of, init. simpl. rewrite !app_nil_r.
  rewrite held_idle, app_nil_r. reflexivity.
Qed.

(* ================= the row function is applied exactly once to selected rows, never to others ================= *)
Definition fresh (x : item) : Prop := idone x = false.
Definition fresh_sel (x : item) : Prop := idone x = false /\ isel x = true.
Definition done_sel (x : item) : Prop := idone x = true /\ isel x = true.
Definition settled (x : item) : Prop := idone x = isel x.

Definition flags_ok (s : state) : Prop :=
  Forall fresh (p_rem s) /\ Forall fresh_sel (opt_items (q_in s)) /\ Forall fresh_sel (flat_map held (workers s)) /\
  Forall done_sel (opt_items (q_out s)) /\ Forall done_sel (fheld (fetcher s)) /\
  Forall settled (opt_items (q_int s)) /\ Forall settled (delivered s).

Lemma Forall_held_set_nth (P : item -> Prop) ws : forall i w w0,
  nth_error ws i = Some w0 -> Forall P (flat_map held ws) -> Forall P (held w) -> Forall P (flat_map held (set_nth i w ws)).
Proof.
  induction ws as [|a ws IH]; intros [|i] w w0 H F Fw; simpl in *; try discriminate.
  - apply Forall_app in F as [_ F]. apply Forall_app. split; assumption.
  - apply Forall_app in F as [Fa F]. apply Forall_app. split; [exact Fa|]. eapply IH; eassumption.
Qed.

Lemma Forall_held_nth (P : item -> Prop) ws : forall i x,
  nth_error ws i = Some (WHold x) -> Forall P (flat_map held ws) -> P x.
Proof.
  induction ws as [|a ws IH]; intros [|i] x H F; simpl in *; try discriminate.
  - injection H as ->. simpl in F. inversion F; assumption.
  - apply Forall_app in F as [_ F]. eapply IH; eassumption.
Qed.

Ltac fl :=
  repeat match goal with
         | |- _ /\ _ => split
         | |- Forall _ [] => constructor
         | |- Forall _ (_ ++ _) => apply Forall_app; split
         | |- Forall _ (_ :: _) => constructor
         | H : Forall _ (_ :: _) |- _ => inversion H; subst; clear H
         | H : Forall _ (_ ++ _) |- _ => apply Forall_app in H; destruct H
         end; try assumption.
Ltac itm :=
  unfold fresh, fresh_sel, done_sel, settled in *; simpl in *; intuition congruence.
Ltac norm_flags :=
  unfold flags_ok; cbn [p_rem p_marks q_in workers q_out fetcher q_int delivered upd_w];
  rewrite ?opt_items_app, ?opt_some, ?opt_none, ?opt_nil; cbn [held fheld].

Theorem fire_preserves_flags s l s' : flags_ok s -> fire s l = Some s' -> flags_ok s'.
Proof.
  intros (A & B & Cc & D & E & F & G) H. destruct l; simpl in H.
  - destruct (p_rem s) as [|x rest] eqn:P.
    + destruct (p_marks s); [discriminate|]. injection H as <-. norm_flags. fl.
    + destruct (isel x) eqn:S; injection H as <-; norm_flags; fl; itm.
  - destruct (nth_error (workers s) i) as [w0|] eqn:W; [|discriminate].
    destruct w0; try discriminate. destruct (q_in s) as [|[x|] rest] eqn:Q; try discriminate;
      injection H as <-; rewrite ?opt_some, ?opt_none in B; norm_flags; fl;
      try (eapply Forall_held_set_nth; [exact W|exact Cc|]; cbn [held]; fl).
  - destruct (nth_error (workers s) i) as [w0|] eqn:W; [|discriminate].
    destruct w0; try discriminate; injection H as <-; norm_flags; fl;
      try (eapply Forall_held_set_nth; [exact W|exact Cc|]; cbn [held]; fl).
    pose proof (Forall_held_nth fresh_sel _ _ _ W Cc). itm.
  - destruct (fetcher s) as [e|e x| |] eqn:Fe; try discriminate.
    destruct e as [|[|e]]; destruct (q_out s) as [|[x|] rest] eqn:Q; try discriminate;
      injection H as <-; rewrite ?opt_some, ?opt_none in D; norm_flags; fl.
  - destruct (fetcher s) as [e|e x| |] eqn:Fe; try discriminate; injection H as <-; cbn [fheld] in E; norm_flags; fl; itm.
  - destruct (c_done s); [discriminate|].
    destruct (q_int s) as [|[x|] rest] eqn:Q; try discriminate; injection H as <-;
      rewrite ?opt_some, ?opt_none in F; norm_flags; fl.
Qed.

Theorem delivered_rows_settled n input ls s :
  Forall fresh input -> run (init n input) ls = Some s -> Forall settled (delivered s).
Proof.
  intros Hin H.
  assert (I0 : flags_ok (init n input)).
  { unfold flags_ok, init. simpl. repeat split; try constructor; try assumption.
    rewrite held_idle. constructor. }
  assert (G : forall ls s0 s1, flags_ok s0 -> run s0 ls = Some s1 -> flags_ok s1).
  { induction ls0 as [|l ls0 IH]; intros s0 s1 I R; simpl in R; [injection R as <-; exact I|].
    destruct (fire s0 l) as [s2|] eqn:Fi; [|discriminate]. eapply IH; [eapply fire_preserves_flags; eassumption|exact R]. }
  apply (G ls _ _ I0 H).
Qed.

(* ================= every schedule is finite ================= *)
Definition wweight (w : wst) : nat := match w with WHold _ | WEnd => 4 | _ => 0 end.
Definition fweight (f : fst_) : nat := match f with FHold _ _ | FLast => 2 | _ => 0 end.

Definition mu (s : state) : nat :=
  6 * (length (p_rem s) + p_marks s) + 5 * length (q_in s) + list_sum (map wweight (workers s))
  + 3 * length (q_out s) + fweight (fetcher s) + length (q_int s).

Lemma wsum_set_nth ws : forall i w w0,
  nth_error ws i = Some w0 ->
  list_sum (map wweight (set_nth i w ws)) + wweight w0 = list_sum (map wweight ws) + wweight w.
Proof.
  induction ws as [|a ws IH]; intros [|i] w w0 H; simpl in *; try discriminate.
  - injection H as ->. lia.
  - specialize (IH i w w0 H). lia.
Qed.

Theorem fire_decreases s l s' : fire s l = Some s' -> mu s' < mu s.
Proof.
  unfold mu. destruct l; simpl; intros H.
  - destruct (p_rem s) as [|x rest] eqn:P.
    + destruct (p_marks s) eqn:M; [discriminate|]. injection H as <-. simpl. rewrite app_length. simpl. lia.
    + destruct (isel x); injection H as <-; simpl; rewrite app_length; simpl; lia.
  - destruct (nth_error (workers s) i) as [w0|] eqn:W; [|discriminate].
    destruct w0; try discriminate. destruct (q_in s) as [|[x|] rest] eqn:Q; try discriminate;
      injection H as <-; simpl; pose proof (wsum_set_nth (workers s) i) as L.
    + specialize (L (WHold x) WIdle W). simpl in L. lia.
    + specialize (L WEnd WIdle W). simpl in L. lia.
  - destruct (nth_error (workers s) i) as [w0|] eqn:W; [|discriminate].
    destruct w0; try discriminate; injection H as <-; simpl; rewrite app_length; simpl;
      pose proof (wsum_set_nth (workers s) i) as L.
    + specialize (L WIdle (WHold x) W). simpl in L. lia.
    + specialize (L WDone WEnd W). simpl in L. lia.
  - destruct (fetcher s) as [e|e x| |] eqn:F; try discriminate.
    destruct e as [|[|e]]; destruct (q_out s) as [|[x|] rest] eqn:Q; try discriminate; injection H as <-; simpl; lia.
  - destruct (fetcher s) as [e|e x| |] eqn:F; try discriminate; injection H as <-; simpl; rewrite app_length; simpl; lia.
  - destruct (c_done s); [discriminate|].
    destruct (q_int s) as [|[x|] rest] eqn:Q; try discriminate; injection H as <-; simpl; lia.
Qed.

(* no schedule is longer than 6 * (rows + workers) operations *)
Theorem schedules_are_bounded ls : forall s s', run s ls = Some s' -> length ls + mu s' <= mu s.
Proof.
  induction ls as [|l ls IH]; intros s s' H; simpl in *.
  - injection H as <-. lia.
  - destruct (fire s l) as [s1|] eqn:F; [|discriminate].
    pose proof (fire_decreases _ _ _ F). specialize (IH _ _ H). lia.
Qed.

Theorem init_measure n input : mu (init n input) = 6 * (length input + n).
Proof.
  unfold mu, init. simpl.
  assert (W : list_sum (map wweight (repeat WIdle n)) = 0) by (induction n; simpl; auto).
  rewrite W. lia.
Qed.
