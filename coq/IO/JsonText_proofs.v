(* json.loads (json.dumps j) = j on the model of IO/JsonText.v, for every JSON tree without floats
   whose strings hold valid code points: integers of any size, every escape class of ensure_ascii
   (quotes, backslash, control characters, \uXXXX, surrogate pairs), arrays and objects of any
   depth and width. *)
From Coq Require Import List ZArith Bool Lia ZifyBool Wf_nat.
From DF Require Import Base.Str IO.EJson IO.JsonText.
Import ListNotations.
Open Scope Z_scope.
Ltac Zify.zify_post_hook ::= Z.to_euclidean_division_equations.

(* ================= integers ================= *)
Definition dstep (a d : Z) : Z := 10 * a + (d - 48).

Lemma is_digit_spec c : is_digit c = true <-> 48 <= c <= 57.
Proof. unfold is_digit. rewrite andb_true_iff, !Z.leb_le. tauto. Qed.

Lemma dd_spec : forall fuel n acc, (1 <= fuel)%nat -> 0 <= n < 10 ^ Z.of_nat fuel ->
  exists ds, dec_digits fuel n acc = ds ++ acc /\ forallb is_digit ds = true /\
    (forall a, fold_left dstep ds a = a * 10 ^ Z.of_nat (length ds) + n) /\
    ((n = 0 /\ ds = [48]) \/ (0 < n /\ exists d r, ds = d :: r /\ d <> 48)).
Proof.
  induction fuel as [|f IH]; intros n acc F R; [lia|]. cbn [dec_digits].
  destruct (n <? 10) eqn:E.
  - apply Z.ltb_lt in E. exists [48 + n]. split; [reflexivity|]. split.
    + cbn [forallb]. rewrite andb_true_r. apply is_digit_spec. lia.
    + split.
      * intros a. cbn [fold_left length]. unfold dstep. change (Z.of_nat 1) with 1. rewrite Z.pow_1_r. lia.
      * destruct (Z.eq_dec n 0) as [->|N]; [left; split; reflexivity|right]. split; [lia|].
        exists (48 + n), []. split; [reflexivity|lia].
  - apply Z.ltb_ge in E.
    assert (F1 : (1 <= f)%nat).
    { destruct f; [|lia]. change (Z.of_nat 1) with 1 in R. rewrite Z.pow_1_r in R. lia. }
    assert (R1 : 0 <= n / 10 < 10 ^ Z.of_nat f).
    { rewrite Nat2Z.inj_succ, Z.pow_succ_r in R by lia. split; [apply Z.div_pos; lia|].
      apply Z.div_lt_upper_bound; lia. }
    destruct (IH (n / 10) ((48 + n mod 10) :: acc) F1 R1) as (ds & E1 & D1 & V1 & H1).
    exists (ds ++ [48 + n mod 10]). split; [rewrite E1, <- app_assoc; reflexivity|]. split.
    + rewrite forallb_app, D1. cbn [forallb]. rewrite andb_true_r. apply is_digit_spec.
      pose proof (Z.mod_pos_bound n 10 ltac:(lia)). lia.
    + split.
      * intros a. rewrite fold_left_app, V1. cbn [fold_left]. unfold dstep.
        rewrite app_length. cbn [length]. rewrite Nat2Z.inj_add. change (Z.of_nat 1) with 1.
        rewrite Z.pow_add_r, Z.pow_1_r by lia.
        set (P := 10 ^ Z.of_nat (length ds)). pose proof (Z.div_mod n 10 ltac:(lia)) as DM.
        set (q := n / 10) in *. set (r := n mod 10) in *. rewrite DM. ring.
      * right. split; [lia|]. destruct H1 as [[Z0 _]|[_ (d & r & -> & ND)]]; [lia|].
        exists d, (r ++ [48 + n mod 10]). split; [reflexivity|exact ND].
Qed.

Lemma pow_fuel z : 0 <= z -> z < 10 ^ Z.of_nat (S (Z.to_nat (Z.log2 z))).
Proof.
  intros H. pose proof (Z.log2_nonneg z) as L.
  rewrite Nat2Z.inj_succ, Z2Nat.id by exact L.
  destruct (Z.eq_dec z 0) as [->|N]; [simpl; lia|].
  destruct (Z.log2_spec z ltac:(lia)) as [_ U].
  assert (2 ^ Z.succ (Z.log2 z) <= 10 ^ Z.succ (Z.log2 z)) by (apply Z.pow_le_mono_l; lia). lia.
Qed.

Lemma str_of_Z_nonneg z : 0 <= z ->
  exists ds, str_of_Z z = ds /\ forallb is_digit ds = true /\ digits_val ds = z /\
    ((z = 0 /\ ds = [48]) \/ (0 < z /\ exists d r, ds = d :: r /\ d <> 48)).
Proof.
  intros H. unfold str_of_Z. destruct (z <? 0) eqn:E; [apply Z.ltb_lt in E; lia|].
  destruct (dd_spec (S (Z.to_nat (Z.log2 z))) z [] ltac:(lia) (conj H (pow_fuel z H))) as (ds & E1 & D & V & Hd).
  rewrite app_nil_r in E1. exists ds. split; [exact E1|]. split; [exact D|]. split; [|exact Hd].
  unfold digits_val. change (fun a d : Z => 10 * a + (d - 48)) with dstep. rewrite V. lia.
Qed.

Lemma span_digits_app ds rest : forallb is_digit ds = true ->
  (match rest with c :: _ => is_digit c = false | [] => True end) -> span_digits (ds ++ rest) = (ds, rest).
Proof.
  induction ds as [|d ds IH]; cbn [app forallb span_digits]; intros D R.
  - destruct rest as [|c r]; [reflexivity|]. cbn [span_digits]. rewrite R. reflexivity.
  - apply andb_true_iff in D as [D1 D2]. rewrite D1, (IH D2 R). reflexivity.
Qed.

Definition rest_ok (rest : str) : Prop :=
  match rest with [] => True | c :: _ => is_digit c = false /\ c <> 46 /\ c <> 101 /\ c <> 69 end.

Lemma punum_print n rest : 0 <= n -> rest_ok rest -> punum (str_of_Z n ++ rest) = Some (n, rest).
Proof.
  intros H R. destruct (str_of_Z_nonneg n H) as (ds & -> & D & V & Hd).
  unfold punum. rewrite span_digits_app; [|exact D|destruct rest; [exact I|apply R]].
  assert (T : match rest with
              | c :: _ => if (c =? 46) || (c =? 101) || (c =? 69) then None else Some (digits_val ds, rest)
              | [] => Some (digits_val ds, rest)
              end = Some (n, rest)).
  { rewrite V. destruct rest as [|c r]; [reflexivity|]. destruct R as (_ & R1 & R2 & R3).
    apply Z.eqb_neq in R1, R2, R3. rewrite R1, R2, R3. reflexivity. }
  destruct Hd as [[-> ->]|[_ (d & r & -> & ND)]].
  - cbn. exact T.
  - apply Z.eqb_neq in ND. rewrite ND. cbn [andb]. exact T.
Qed.

Lemma str_of_Z_neg z : z < 0 -> str_of_Z z = 45 :: str_of_Z (- z).
Proof.
  intros H. unfold str_of_Z. destruct (z <? 0) eqn:E; [|apply Z.ltb_ge in E; lia].
  destruct (- z <? 0) eqn:E2; [apply Z.ltb_lt in E2; lia|]. reflexivity.
Qed.

Lemma str_of_Z_head z : exists c t, str_of_Z z = c :: t /\ (c = 45 \/ 48 <= c <= 57).
Proof.
  destruct (Z_lt_le_dec z 0) as [N|P].
  - rewrite (str_of_Z_neg z N). eexists _, _. split; [reflexivity|left; reflexivity].
  - destruct (str_of_Z_nonneg z P) as (ds & -> & D & _ & Hd).
    destruct Hd as [[_ ->]|[_ (d & r & -> & _)]].
    + eexists _, _. split; [reflexivity|right; lia].
    + cbn [forallb] in D. apply andb_true_iff in D as [D1 _]. apply is_digit_spec in D1.
      eexists _, _. split; [reflexivity|right; exact D1].
Qed.

Lemma pnum_print z rest : rest_ok rest -> pnum (str_of_Z z ++ rest) = Some (z, rest).
Proof.
  intros R. destruct (Z_lt_le_dec z 0) as [N|P].
  - rewrite (str_of_Z_neg z N). cbn [app pnum]. change (45 =? 45) with true. cbv iota.
    rewrite (punum_print (- z) rest ltac:(lia) R). rewrite Z.opp_involutive. reflexivity.
  - destruct (str_of_Z_nonneg z P) as (ds & E & D & _ & Hd).
    assert (HD : exists c t, str_of_Z z = c :: t /\ 48 <= c <= 57).
    { rewrite E. destruct Hd as [[_ ->]|[_ (d & r & -> & _)]].
      - eexists _, _. split; [reflexivity|lia].
      - cbn [forallb] in D. apply andb_true_iff in D as [D1 _]. apply is_digit_spec in D1. eexists _, _. split; [reflexivity|exact D1]. }
    destruct HD as (c & t & EQ & RG). pose proof (punum_print z rest P R) as PU. rewrite EQ in *.
    cbn [app pnum] in *. assert (C : (c =? 45) = false) by (apply Z.eqb_neq; lia). rewrite C. exact PU.
Qed.

(* ================= strings ================= *)
Definition char_ok (c : Z) : Prop := 0 <= c < 1114112 /\ ~ (55296 <= c <= 57343).

Lemma hexval_hex_digit d : 0 <= d < 16 -> hexval (hex_digit d) = Some d.
Proof.
  intros H. unfold hexval, hex_digit. destruct (d <? 10) eqn:E.
  - apply Z.ltb_lt in E.
    replace ((48 <=? 48 + d) && (48 + d <=? 57)) with true by (symmetry; apply andb_true_iff; split; apply Z.leb_le; lia).
    f_equal. lia.
  - apply Z.ltb_ge in E.
    replace ((48 <=? 87 + d) && (87 + d <=? 57)) with false by (symmetry; apply andb_false_iff; right; apply Z.leb_gt; lia).
    replace ((97 <=? 87 + d) && (87 + d <=? 102)) with true by (symmetry; apply andb_true_iff; split; apply Z.leb_le; lia).
    f_equal. lia.
Qed.

Lemma hex4_u c t : 0 <= c < 65536 ->
  hex4 (hex_digit (c / 4096 mod 16) :: hex_digit (c / 256 mod 16) :: hex_digit (c / 16 mod 16) :: hex_digit (c mod 16) :: t)
  = Some (c, t).
Proof.
  intros H. unfold hex4.
  rewrite !hexval_hex_digit by (apply Z.mod_pos_bound; lia). f_equal. f_equal. lia.
Qed.

Lemma pstr_plain f c t acc : 32 <= c -> c <> 34 -> c <> 92 -> pstr (S f) (c :: t) acc = pstr f t (c :: acc).
Proof.
  intros H1 H2 H3. cbn [pstr]. apply Z.eqb_neq in H2, H3. rewrite H2, H3.
  assert (E : (c <? 32) = false) by (apply Z.ltb_ge; lia). rewrite E. reflexivity.
Qed.

Lemma pstr_u f t t' u acc : hex4 t = Some (u, t') -> (55296 <=? u) && (u <=? 56319) = false ->
  pstr (S f) (92 :: 117 :: t) acc = pstr f t' (u :: acc).
Proof. intros H N. cbn [pstr]. cbn [Z.eqb Pos.eqb]. rewrite H, N. reflexivity. Qed.

Lemma pstr_pair f t t2 t3 u v acc : hex4 t = Some (u, 92 :: 117 :: t2) -> (55296 <=? u) && (u <=? 56319) = true ->
  hex4 t2 = Some (v, t3) -> (56320 <=? v) && (v <=? 57343) = true ->
  pstr (S f) (92 :: 117 :: t) acc = pstr f t3 ((65536 + (u - 55296) * 1024 + (v - 56320)) :: acc).
Proof.
  intros H N H2 N2. cbn [pstr]. cbn [Z.eqb Pos.eqb]. rewrite H, N. cbn [strip_prefix]. cbn [Z.eqb Pos.eqb].
  rewrite H2, N2. reflexivity.
Qed.

Lemma pstr_char c t acc f : char_ok c -> pstr (S f) (esc_char c ++ t) acc = pstr f t (c :: acc).
Proof.
  intros [R NS]. unfold esc_char.
  destruct (c =? 34) eqn:E1; [apply Z.eqb_eq in E1; subst; reflexivity|].
  destruct (c =? 92) eqn:E2; [apply Z.eqb_eq in E2; subst; reflexivity|].
  destruct (c =? 10) eqn:E3; [apply Z.eqb_eq in E3; subst; reflexivity|].
  destruct (c =? 13) eqn:E4; [apply Z.eqb_eq in E4; subst; reflexivity|].
  destruct (c =? 9) eqn:E5; [apply Z.eqb_eq in E5; subst; reflexivity|].
  destruct (c =? 8) eqn:E6; [apply Z.eqb_eq in E6; subst; reflexivity|].
  destruct (c =? 12) eqn:E7; [apply Z.eqb_eq in E7; subst; reflexivity|].
  apply Z.eqb_neq in E1, E2.
  destruct ((32 <=? c) && (c <=? 126)) eqn:E8.
  - apply andb_true_iff in E8 as [A _]. apply Z.leb_le in A. cbn [app]. apply pstr_plain; assumption.
  - destruct (c <? 65536) eqn:E9.
    + apply Z.ltb_lt in E9. unfold u_escape. cbn [app].
      apply pstr_u; [apply hex4_u; lia|]. apply andb_false_iff.
      destruct (Z_lt_le_dec c 55296); [left; apply Z.leb_gt; lia|right; apply Z.leb_gt; lia].
    + apply Z.ltb_ge in E9. unfold u_escape. cbn [app].
      set (hi := 55296 + (c - 65536) / 1024). set (lo := 56320 + (c - 65536) mod 1024).
      assert (Hhi : 55296 <= hi <= 56319) by (unfold hi; lia).
      assert (Hlo : 56320 <= lo <= 57343) by (unfold lo; lia).
      transitivity (pstr f t ((65536 + (hi - 55296) * 1024 + (lo - 56320)) :: acc)).
      * eapply pstr_pair.
        -- apply hex4_u. lia.
        -- apply andb_true_iff. split; apply Z.leb_le; lia.
        -- apply hex4_u. lia.
        -- apply andb_true_iff. split; apply Z.leb_le; lia.
      * f_equal. f_equal. unfold hi, lo. lia.
Qed.

Lemma pstr_esc : forall s t acc f, Forall char_ok s -> (length s <= f)%nat ->
  pstr (S f) (esc s ++ 34 :: t) acc = Some (rev acc ++ s, t).
Proof.
  induction s as [|c s IH]; intros t acc f OK L.
  - cbn. rewrite app_nil_r. reflexivity.
  - inversion OK as [|? ? Hc Hs]; subst. unfold esc. cbn [flat_map]. fold (esc s). rewrite <- app_assoc.
    destruct f as [|f']; [cbn [length] in L; lia|].
    rewrite pstr_char by exact Hc. rewrite IH; [|exact Hs|cbn [length] in L; lia].
    cbn [rev]. rewrite <- app_assoc. reflexivity.
Qed.

Lemma esc_char_nonempty c : (1 <= length (esc_char c))%nat.
Proof.
  unfold esc_char, u_escape. repeat match goal with |- context [if ?b then _ else _] => destruct b end;
    rewrite ?app_length; cbn [length]; lia.
Qed.

Lemma esc_length s : (length s <= length (esc s))%nat.
Proof.
  induction s as [|c s IH]; [cbn; lia|]. unfold esc. cbn [flat_map]. fold (esc s). rewrite app_length.
  pose proof (esc_char_nonempty c). cbn [length]. lia.
Qed.

Lemma pstr_print_str s t : Forall char_ok s ->
  pstr (S (length (esc s ++ 34 :: t))) (esc s ++ 34 :: t) [] = Some (s, t).
Proof.
  intros OK. rewrite (pstr_esc s t [] _ OK); [reflexivity|].
  rewrite app_length. pose proof (esc_length s). lia.
Qed.

(* ================= values ================= *)
Fixpoint jok (j : json) : Prop :=
  match j with
  | JFlt _ _ => False
  | JStr s => Forall char_ok s
  | JArr l => (fix all (l : list json) : Prop := match l with [] => True | x :: r => jok x /\ all r end) l
  | JObj l => (fix all (l : list (str * json)) : Prop :=
                 match l with [] => True | (k, x) :: r => Forall char_ok k /\ jok x /\ all r end) l
  | _ => True
  end.

Fixpoint jsize (j : json) : nat :=
  match j with
  | JArr l => S ((fix sz (l : list json) : nat := match l with [] => O | x :: r => S (jsize x + sz r) end) l)
  | JObj l => S ((fix sz (l : list (str * json)) : nat := match l with [] => O | (_, x) :: r => S (jsize x + sz r) end) l)
  | _ => 1%nat
  end.

Fixpoint isize (l : list json) : nat := match l with [] => O | x :: r => S (jsize x + isize r) end.
Fixpoint msize (l : list (str * json)) : nat := match l with [] => O | (_, x) :: r => S (jsize x + msize r) end.
Fixpoint iok (l : list json) : Prop := match l with [] => True | x :: r => jok x /\ iok r end.
Fixpoint mok (l : list (str * json)) : Prop :=
  match l with [] => True | (k, x) :: r => Forall char_ok k /\ jok x /\ mok r end.

Lemma jsize_arr l : jsize (JArr l) = S (isize l).
Proof. reflexivity. Qed.
Lemma jsize_obj l : jsize (JObj l) = S (msize l).
Proof. reflexivity. Qed.
Lemma jok_arr l : jok (JArr l) <-> iok l.
Proof. split; intros H; exact H. Qed.
Lemma jok_obj l : jok (JObj l) <-> mok l.
Proof. split; intros H; exact H. Qed.

(* the first character of a printed value: no white space, no closing bracket, no separator *)
Definition head_ok (c : Z) : Prop :=
  c = 110 \/ c = 116 \/ c = 102 \/ c = 34 \/ c = 91 \/ c = 123 \/ c = 45 \/ 48 <= c <= 57.

Lemma jprint_head j : jok j -> exists c t, jprint j = c :: t /\ head_ok c.
Proof.
  unfold head_ok. destruct j as [|b|z|m e|x|l|l]; cbn [jprint]; intros OK.
  - eexists _, _. split; [reflexivity|tauto].
  - destruct b; eexists _, _; (split; [reflexivity|tauto]).
  - destruct (str_of_Z_head z) as (c & t & E & H). exists c, t. split; [exact E|tauto].
  - destruct OK.
  - eexists _, _. split; [reflexivity|tauto].
  - eexists _, _. split; [reflexivity|tauto].
  - eexists _, _. split; [reflexivity|tauto].
Qed.

Lemma skip_ws_head c t : head_ok c \/ c = 93 \/ c = 125 \/ c = 44 \/ c = 58 -> skip_ws (c :: t) = c :: t.
Proof.
  intros H. cbn [skip_ws]. assert (E : is_ws c = false).
  { unfold is_ws. unfold head_ok in H. rewrite !orb_false_iff, !Z.eqb_neq. lia. }
  rewrite E. reflexivity.
Qed.

Lemma pval_ws fuel s : pval fuel (32 :: s) = pval fuel s.
Proof. destruct fuel; reflexivity. Qed.

Lemma pitems_ws fuel s : pitems fuel (32 :: s) = pitems fuel s.
Proof. destruct fuel as [|f]; [reflexivity|]. cbn [pitems]. rewrite pval_ws. reflexivity. Qed.

Lemma pmembers_ws fuel s : pmembers fuel (32 :: s) = pmembers fuel s.
Proof. destruct fuel; reflexivity. Qed.

Lemma rest_ok_sep c t : c = 44 \/ c = 93 \/ c = 125 -> rest_ok (c :: t).
Proof. intros H. cbn [rest_ok]. rewrite <- not_true_iff_false, is_digit_spec. lia. Qed.

Definition P (fuel : nat) : Prop :=
  forall j rest, jok j -> (jsize j <= fuel)%nat -> rest_ok rest -> pval fuel (jprint j ++ rest) = Some (j, rest).

Lemma pitems_print F : (forall f, (f < F)%nat -> P f) ->
  forall l f rest, (f < F)%nat -> l <> [] -> iok l -> (isize l <= f)%nat ->
  pitems f (print_items jprint l ++ 93 :: rest) = Some (l, rest).
Proof.
  intros IH. induction l as [|x l IHl]; intros f rest LT NE OK SZ; [congruence|].
  cbn [iok] in OK. destruct OK as [Ox Ol]. cbn [isize] in SZ.
  destruct f as [|f']; [lia|]. cbn [pitems].
  destruct l as [|y l'].
  - cbn [print_items]. rewrite (IH f' ltac:(lia) x (93 :: rest) Ox ltac:(lia) (rest_ok_sep 93 rest ltac:(lia))).
    rewrite skip_ws_head by lia. reflexivity.
  - change (print_items jprint (x :: y :: l')) with (jprint x ++ 44 :: 32 :: print_items jprint (y :: l')).
    rewrite <- app_assoc. cbn [app].
    rewrite (IH f' ltac:(lia) x _ Ox ltac:(lia) (rest_ok_sep 44 _ ltac:(lia))).
    rewrite skip_ws_head by lia. cbn [Z.eqb Pos.eqb]. rewrite pitems_ws.
    rewrite (IHl f' rest ltac:(lia) ltac:(discriminate) Ol ltac:(cbn [isize] in *; lia)). reflexivity.
Qed.

Lemma print_members_cons k x y l : print_members jprint ((k, x) :: y :: l)
  = print_str k ++ 58 :: 32 :: jprint x ++ 44 :: 32 :: print_members jprint (y :: l).
Proof. destruct y. reflexivity. Qed.

Lemma pmembers_print F : (forall f, (f < F)%nat -> P f) ->
  forall l f rest, (f < F)%nat -> l <> [] -> mok l -> (msize l <= f)%nat ->
  pmembers f (print_members jprint l ++ 125 :: rest) = Some (l, rest).
Proof.
  intros IH. induction l as [|[k x] l IHl]; intros f rest LT NE OK SZ; [congruence|].
  cbn [mok] in OK. destruct OK as (Ok & Ox & Ol). cbn [msize] in SZ.
  destruct f as [|f']; [lia|]. cbn [pmembers].
  destruct l as [|y l'].
  - cbn [print_members]. unfold print_str. cbn [app]. rewrite <- !app_assoc. cbn [app].
    rewrite skip_ws_head by (unfold head_ok; lia). cbn [Z.eqb Pos.eqb negb].
    rewrite (pstr_print_str k _ Ok). rewrite skip_ws_head by lia. cbn [Z.eqb Pos.eqb negb].
    rewrite pval_ws. rewrite (IH f' ltac:(lia) x (125 :: rest) Ox ltac:(lia) (rest_ok_sep 125 rest ltac:(lia))).
    rewrite skip_ws_head by lia. reflexivity.
  - rewrite print_members_cons. unfold print_str. cbn [app]. rewrite <- !app_assoc. cbn [app].
    rewrite skip_ws_head by (unfold head_ok; lia). cbn [Z.eqb Pos.eqb negb].
    rewrite (pstr_print_str k _ Ok). rewrite skip_ws_head by lia. cbn [Z.eqb Pos.eqb negb].
    rewrite pval_ws. rewrite <- app_assoc. cbn [app].
    rewrite (IH f' ltac:(lia) x _ Ox ltac:(lia) (rest_ok_sep 44 _ ltac:(lia))).
    rewrite skip_ws_head by lia. cbn [Z.eqb Pos.eqb]. rewrite pmembers_ws.
    rewrite (IHl f' rest ltac:(lia) ltac:(discriminate) Ol ltac:(cbn [msize] in *; lia)). reflexivity.
Qed.

Lemma neq_eqb a b : a <> b -> (a =? b) = false.
Proof. apply Z.eqb_neq. Qed.

Theorem pval_print_all : forall fuel, P fuel.
Proof.
  induction fuel as [fuel IH] using lt_wf_ind. unfold P. intros j rest OK SZ R.
  destruct fuel as [|f]; [destruct j; cbn [jsize] in SZ; lia|].
  destruct j as [|b|z|m e|x|l|l].
  - reflexivity.
  - destruct b; reflexivity.
  - (* integers *)
    cbn [jprint]. destruct (str_of_Z_head z) as (c & t & E & H).
    pose proof (pnum_print z rest R) as PN. rewrite E in *. cbn [app] in *. cbn [pval].
    rewrite skip_ws_head by (unfold head_ok; lia).
    rewrite !neq_eqb by lia. rewrite PN. reflexivity.
  - destruct OK.
  - (* strings *)
    cbn [jprint jok] in *. unfold print_str. cbn [app]. rewrite <- app_assoc. cbn [app pval].
    rewrite skip_ws_head by (unfold head_ok; lia). cbn [Z.eqb Pos.eqb].
    rewrite (pstr_print_str x rest OK). reflexivity.
  - (* arrays *)
    apply jok_arr in OK. rewrite jsize_arr in SZ. cbn [jprint app]. rewrite <- app_assoc. cbn [app pval].
    rewrite skip_ws_head by (unfold head_ok; lia). cbn [Z.eqb Pos.eqb].
    destruct l as [|x l'].
    + cbn [print_items app]. rewrite skip_ws_head by lia. reflexivity.
    + assert (HD : exists c t, print_items jprint (x :: l') ++ 93 :: rest = c :: t /\ head_ok c).
      { cbn [iok] in OK. destruct (jprint_head x (proj1 OK)) as (c & t & E & H).
        destruct l' as [|y l'']; cbn [print_items]; rewrite E; cbn [app]; eexists _, _; (split; [reflexivity|exact H]). }
      destruct HD as (c & t & E & H). rewrite E. rewrite skip_ws_head by (left; exact H).
      assert (C : (c =? 93) = false) by (apply Z.eqb_neq; unfold head_ok in H; lia). rewrite C. rewrite <- E.
      rewrite (pitems_print (S f) IH (x :: l') f rest ltac:(lia) ltac:(discriminate) OK ltac:(lia)). reflexivity.
  - (* objects *)
    apply jok_obj in OK. rewrite jsize_obj in SZ. cbn [jprint app]. rewrite <- app_assoc. cbn [app pval].
    rewrite skip_ws_head by (unfold head_ok; lia). cbn [Z.eqb Pos.eqb].
    destruct l as [|[k x] l'].
    + cbn [print_members app]. rewrite skip_ws_head by lia. reflexivity.
    + assert (HD : exists t, print_members jprint ((k, x) :: l') ++ 125 :: rest = 34 :: t).
      { destruct l' as [|y l'']; [cbn [print_members]|rewrite print_members_cons]; unfold print_str; cbn [app]; eexists; reflexivity. }
      destruct HD as (t & E). rewrite E. rewrite skip_ws_head by (unfold head_ok; lia). cbn [Z.eqb Pos.eqb]. rewrite <- E.
      rewrite (pmembers_print (S f) IH ((k, x) :: l') f rest ltac:(lia) ltac:(discriminate) OK ltac:(lia)). reflexivity.
Qed.

(* every printed value is at least as long as its size measure, so json.loads' fuel suffices *)
Lemma str_of_Z_len z : (1 <= length (str_of_Z z))%nat.
Proof. destruct (str_of_Z_head z) as (c & t & -> & _). cbn [length]. lia. Qed.

Lemma jsize_le_len : forall n j, (jsize j <= n)%nat -> (jsize j <= length (jprint j))%nat.
Proof.
  induction n as [|n IH]; intros j SZ; [destruct j; cbn [jsize] in SZ; lia|].
  destruct j as [|b|z|m e|x|l|l]; try (cbn; lia).
  - destruct b; cbn; lia.
  - cbn [jsize jprint]. apply str_of_Z_len.
  - rewrite jsize_arr in *. cbn [jprint length]. rewrite app_length. cbn [length].
    assert (H : forall l, (isize l <= n)%nat -> (isize l <= length (print_items jprint l) + 1)%nat).
    { induction l0 as [|x r IHr]; intros S0; [cbn; lia|]. cbn [isize] in S0.
      pose proof (IH x ltac:(lia)) as Hx. destruct r as [|y r'].
      - cbn [print_items isize]. lia.
      - change (print_items jprint (x :: y :: r')) with (jprint x ++ 44 :: 32 :: print_items jprint (y :: r')).
        rewrite app_length. cbn [length]. pose proof (IHr ltac:(cbn [isize] in *; lia)). cbn [isize] in *. lia. }
    pose proof (H l ltac:(lia)). lia.
  - rewrite jsize_obj in *. cbn [jprint length]. rewrite app_length. cbn [length].
    assert (H : forall l, (msize l <= n)%nat -> (msize l <= length (print_members jprint l) + 1)%nat).
    { induction l0 as [|[k x] r IHr]; intros S0; [cbn; lia|]. cbn [msize] in S0.
      pose proof (IH x ltac:(lia)) as Hx. destruct r as [|y r'].
      - cbn [print_members msize]. unfold print_str. rewrite !app_length. cbn [length]. rewrite app_length. cbn [length]. lia.
      - rewrite print_members_cons. unfold print_str. cbn [app length]. rewrite !app_length. cbn [length]. rewrite !app_length. cbn [length].
        pose proof (IHr ltac:(cbn [msize] in *; lia)). cbn [msize] in *. lia. }
    pose proof (H l ltac:(lia)). lia.
Qed.

Theorem jparse_jprint j : jok j -> jparse (jprint j) = Some j.
Proof.
  intros OK. unfold jparse.
  pose proof (pval_print_all (S (length (jprint j))) j [] OK) as H. rewrite app_nil_r in H.
  rewrite H; [reflexivity| |exact I].
  pose proof (jsize_le_len (jsize j) j ltac:(lia)). lia.
Qed.

(* trailing white space (the line feed of an ndjson line) is accepted *)
Theorem jparse_jprint_line j : jok j -> jparse (jprint j ++ [10]) = Some j.
Proof.
  intros OK. unfold jparse.
  pose proof (pval_print_all (S (length (jprint j ++ [10]))) j [10] OK) as H.
  rewrite H; [reflexivity| |].
  - pose proof (jsize_le_len (jsize j) j ltac:(lia)). rewrite app_length. lia.
  - cbn [rest_ok]. repeat split; try lia; try reflexivity.
Qed.

(* ---------- the JSON file format: rows separated by a bare comma ---------- *)
Lemma pitems_rows F : (forall f, (f < F)%nat -> P f) ->
  forall l f rest, (f < F)%nat -> l <> [] -> iok l -> (isize l <= f)%nat ->
  pitems f (print_rows l ++ 93 :: rest) = Some (l, rest).
Proof.
  intros IH. induction l as [|x l IHl]; intros f rest LT NE OK SZ; [congruence|].
  cbn [iok] in OK. destruct OK as [Ox Ol]. cbn [isize] in SZ.
  destruct f as [|f']; [lia|]. cbn [pitems].
  destruct l as [|y l'].
  - cbn [print_rows]. rewrite (IH f' ltac:(lia) x (93 :: rest) Ox ltac:(lia) (rest_ok_sep 93 rest ltac:(lia))).
    rewrite skip_ws_head by lia. reflexivity.
  - change (print_rows (x :: y :: l')) with (jprint x ++ 44 :: print_rows (y :: l')).
    rewrite <- app_assoc. cbn [app].
    rewrite (IH f' ltac:(lia) x _ Ox ltac:(lia) (rest_ok_sep 44 _ ltac:(lia))).
    rewrite skip_ws_head by lia. cbn [Z.eqb Pos.eqb].
    rewrite (IHl f' rest ltac:(lia) ltac:(discriminate) Ol ltac:(cbn [isize] in *; lia)). reflexivity.
Qed.

Lemma print_rows_len : forall l, (isize l <= length (print_rows l) + 1)%nat.
Proof.
  induction l as [|x r IH]; [cbn; lia|]. pose proof (jsize_le_len (jsize x) x ltac:(lia)) as Hx.
  destruct r as [|y r'].
  - cbn [print_rows isize]. lia.
  - change (print_rows (x :: y :: r')) with (jprint x ++ 44 :: print_rows (y :: r')).
    rewrite app_length. cbn [length]. cbn [isize] in *. lia.
Qed.

Theorem jparse_json_file rows : iok rows -> jparse (json_file rows) = Some (JArr rows).
Proof.
  intros OK. unfold jparse, json_file.
  set (n := length (91 :: print_rows rows ++ [93])).
  assert (H : pval (S n) (91 :: print_rows rows ++ [93]) = Some (JArr rows, [])).
  { cbn [pval]. rewrite skip_ws_head by (unfold head_ok; lia). cbn [Z.eqb Pos.eqb].
    destruct rows as [|x l'].
    - cbn [print_rows app]. rewrite skip_ws_head by lia. reflexivity.
    - assert (HD : exists c t, print_rows (x :: l') ++ [93] = c :: t /\ head_ok c).
      { cbn [iok] in OK. destruct (jprint_head x (proj1 OK)) as (c & t & E & Hc).
        destruct l' as [|y l'']; cbn [print_rows]; rewrite E; cbn [app]; eexists _, _; (split; [reflexivity|exact Hc]). }
      destruct HD as (c & t & E & Hc). rewrite E. rewrite skip_ws_head by (left; exact Hc).
      assert (C : (c =? 93) = false) by (apply Z.eqb_neq; unfold head_ok in Hc; lia). rewrite C. rewrite <- E.
      rewrite (pitems_rows (S n) (fun f _ => pval_print_all f) (x :: l') n [] ltac:(lia) ltac:(discriminate) OK).
      + reflexivity.
      + pose proof (print_rows_len (x :: l')). unfold n. cbn [length]. rewrite app_length. cbn [length]. lia. }
  rewrite H. reflexivity.
Qed.
