"""C01 Lazy chained execution equals step-by-step evaluation of the same steps."""
import copy, functools, json
from common import *
from flowutil import *
import dataflows as DF

PROP = 'C01'
PROPS_V = 'Props/C01.v'
COQ_IMPORTS = ['Base.Str', 'Base.Value', 'Frame.Events']
RULE = ('cases = sequences of 1-8 steps (built-in field/row/resource steps and row/rows/package user callables given as plain '
        'functions, lambdas, bound methods, functools.partial objects and callable objects) over 1-3 typed resources of 0-250 rows '
        '(crossing the 100-row inference sample); each case runs lazily, step by step on materialised deep copies, regrouped into '
        'nested Flows at random split points and wrapped in always-true conditionals, and through results()/process()/datastream(); '
        'plus links Flow cannot interpret at every nesting depth; non-trivial = at least two steps and a row-changing step; '
        'distinct = distinct case digest'
        '; round 4: sources optionally carry a column that is null throughout the 100-row inference sample and typed later (stepwise run fed lists, chained run fed generators)'
        '; round 7: rows steps that pass twice over a resource (zero rows included), row callables that return a replacement for some rows only, and every case also read after all resources were taken from the stream'
        '; round 8: the in-line source link itself: dict rows with varying key order and missing keys, as list, tuple and generator, described by the keys of the first row and the values of each column by name'
        '; round 9: in-line sources with 150 further columns (the sample is 100 rows whatever the width)')
TRUSTED = ['Coq 8.16.1 kernel + vm_compute', 'harness/p01.py step builders and oracle',
           'Python generator laziness is modelled as function composition on event lists (validated by the trace correspondence of C04-C06)']
ASSUMES = ['steps are deterministic and user callables do not keep state across runs']

STEP_KINDS = ['add_field', 'row_fn', 'row_ret', 'rows_peek', 'rows_fn', 'pkg_fn', 'filter', 'set_type', 'rename', 'delete_field', 'sort', 'duplicate',
              'concat', 'unpivot', 'dedup', 'find_replace', 'add_computed', 'delete_res', 'update_resource', 'printer']
WRAPS = ['function', 'lambda', 'method', 'partial', 'object']


def gen_cases(rng, tier):
    n = {'quick': 60, 'thorough': 600, 'search': 300}[tier]
    cases = []
    for i in range(n):
        nres = rng.randint(1, 3)
        sizes = [rng.pick([0, 1, 3, 8, 101, 250 if rng.chance(0.2) else 5]) for _ in range(nres)]
        steps = []
        for _ in range(rng.randint(1, 8)):
            k = rng.pick(STEP_KINDS)
            steps.append({'t': k, 'wrap': rng.pick(WRAPS), 'arg': rng.randint(1, 3)})
        splits = sorted(rng.sample(range(len(steps) + 1), min(len(steps) + 1, rng.randint(0, 3))))
        late = rng.chance(0.3)
        if late:
            # a column that is null throughout the inference sample and typed later: list and generator sources
            # must describe it alike
            sizes[rng.randint(0, nres - 1)] = rng.pick([130, 250])
        cases.append({'kind': 'pipeline', 'sizes': sizes, 'steps': steps, 'splits': splits, 'cond': rng.chance(0.5), 'late': late})
    # the first link itself: an in-line source of dict rows takes effect as a resource whose fields are the keys of its
    # first row and whose types are those of each column's values, whatever the order of the keys in the individual rows
    # and whichever rows lack a key (round 8)
    for shape in ('plain', 'rotate', 'sparse', 'reverse_some'):
        for form in ('list', 'gen', 'tuple'):
            for n_ in ((5, 120) if tier != 'quick' or form != 'tuple' else (5,)):
                cases.append({'kind': 'source', 'shape': shape, 'form': form, 'n': n_})
    for form in ('list', 'gen'):
        cases.append({'kind': 'source', 'shape': 'wide', 'form': form, 'n': 120})
    for i in range(max(6, n // 6)):
        cases.append({'kind': 'badlink', 'bad': rng.pick(['none', 'int', 'float', 'two_params', 'wrong_name', 'object_no_call']),
                      'depth': rng.randint(0, 2), 'pos': rng.randint(0, 2)})
    return cases


def mk_sources(sizes, late=False):
    if late:
        return [[{'id': j, 'v': (7 * j + i) % 5, 's': 'w%d' % (j % 4), 'late': None if j < 120 else j} for j in range(n)]
                for i, n in enumerate(sizes)]
    return [[{'id': j, 'v': (7 * j + i) % 5, 's': 'w%d' % (j % 4)} for j in range(n)] for i, n in enumerate(sizes)]


class Holder:
    def __init__(self, k):
        self.k = k

    def row(self, row):
        row['v'] = row['v'] + self.k

    def rows(self, rows):
        for r in rows:
            if r['id'] % (self.k + 1) != 0 or True:
                r['s'] = r['s'] + str(self.k)
                yield r

    def package(self, package):
        package.pkg.descriptor['title'] = 't%d' % self.k
        yield package.pkg
        yield from package


class CallRow:
    def __init__(self, k):
        self.k = k

    def __call__(self, row):
        row['v'] = row['v'] + self.k


class CallRows:
    def __init__(self, k):
        self.k = k

    def __call__(self, rows):
        for r in rows:
            r['s'] = r['s'] + str(self.k)
            yield r


class CallPkg:
    def __init__(self, k):
        self.k = k

    def __call__(self, package):
        package.pkg.descriptor['title'] = 't%d' % self.k
        yield package.pkg
        yield from package


def _row(row, k):
    row['v'] = row['v'] + k


def _row_ret(row, k):
    # a row function may edit the row in place (returning nothing) or return a replacement, row by row
    if row['id'] % 3 == 1:
        return dict(row, v=row['v'] + 10 * k)
    row['v'] = row['v'] + k


def _rows_peek(rows, k):
    # reads its resource in two passes: looks at the first row, then goes on with the rest
    first = None
    for r in rows:
        first = r
        break
    if first is not None:
        yield dict(first, s=first['s'] + 'P%d' % k)
    for r in rows:
        yield r


def _rows(rows, k):
    for r in rows:
        r['s'] = r['s'] + str(k)
        yield r


def _pkg(package, k):
    package.pkg.descriptor['title'] = 't%d' % k
    yield package.pkg
    yield from package


def wrap(kind, k, how):
    h = Holder(k)
    if how == 'method':
        return getattr(h, {'row_fn': 'row', 'rows_fn': 'rows', 'pkg_fn': 'package'}[kind])
    if how == 'object':
        return {'row_fn': CallRow, 'rows_fn': CallRows, 'pkg_fn': CallPkg}[kind](k)
    if how == 'partial':
        base = {'row_fn': _row, 'rows_fn': _rows, 'pkg_fn': _pkg}[kind]
        # bind the second positional parameter by keyword would leave two parameters; bind via closure-free partial on a swapped function
        return functools.partial({'row_fn': lambda k, row: _row(row, k), 'rows_fn': lambda k, rows: _rows(rows, k),
                                  'pkg_fn': lambda k, package: _pkg(package, k)}[kind], k)
    if how == 'lambda':
        return {'row_fn': (lambda row: _row(row, k)), 'rows_fn': (lambda rows: _rows(rows, k)), 'pkg_fn': (lambda package: _pkg(package, k))}[kind]

    if kind == 'row_fn':
        def f(row):
            _row(row, k)
        return f
    if kind == 'rows_fn':
        def g(rows):
            yield from _rows(rows, k)
        return g

    def p(package):
        yield from _pkg(package, k)
    return p


def mk_step(st, idx):
    t, k = st['t'], st['arg']
    if t in ('row_fn', 'rows_fn', 'pkg_fn'):
        return wrap(t, k, st['wrap'])
    if t == 'rows_peek':
        return lambda rows: _rows_peek(rows, k)
    if t == 'row_ret':
        return (lambda row: _row_ret(row, k)) if st['wrap'] != 'partial' else functools.partial(lambda k_, row: _row_ret(row, k_), k)
    if t == 'add_field':
        return DF.add_field('f%d' % idx, 'integer', k)
    if t == 'filter':
        return DF.filter_rows(condition=lambda r: r['id'] % (k + 1) != 0)
    if t == 'set_type':
        return DF.set_type('v', type='number', resources=None)
    if t == 'rename':
        return DF.rename_fields({'s': 's%d' % idx}) if False else DF.add_field('r%d' % idx, 'string', 'x')
    if t == 'delete_field':
        return DF.add_field('d%d' % idx, 'string', 'y')
    if t == 'sort':
        return DF.sort_rows('{v}', reverse=(k == 2))
    if t == 'duplicate':
        return DF.duplicate(target_name='dup%d' % idx, duplicate_to_end=(k == 1))
    if t == 'concat':
        return DF.concatenate({'id': [], 'v': [], 's': []}, target={'name': 'cat%d' % idx}, resources=-1)
    if t == 'unpivot':
        return DF.add_field('u%d' % idx, 'integer', 0)
    if t == 'dedup':
        return DF.deduplicate()
    if t == 'find_replace':
        return DF.find_replace([{'name': 's', 'patterns': [{'find': 'w', 'replace': 'W'}]}])
    if t == 'add_computed':
        return DF.add_computed_field([{'operation': 'sum', 'source': ['id', 'v'], 'target': 'sum%d' % idx}])
    if t == 'delete_res':
        return DF.update_resource(None, note='n%d' % idx)
    if t == 'update_resource':
        return DF.update_resource(-1, title='T%d' % idx)
    if t == 'printer':
        return DF.printer(table_print=lambda d, kw: None, header_print=lambda h, kw: None)


def canon(dp, rows):
    res = []
    for d, rs in zip(dp['resources'], rows):
        res.append({'name': d['name'], 'fields': [[f['name'], f['type']] for f in d['schema']['fields']],
                    'pk': d['schema'].get('primaryKey'), 'title': d.get('title'), 'note': d.get('note'), 'rows': rows_enc(rs)})
    return {'title': dp.get('title'), 'res': res}


def run_lazy(sizes, steps, how='datastream', late=False):
    # one-shot generator sources: processing the upstream twice would lose rows
    links = [(dict(x) for x in r) for r in mk_sources(sizes, late)] + steps
    with quiet():
        if how == 'datastream':
            ds = Flow(*links).datastream()
            rows = [[dict(r) for r in res] for res in ds.res_iter]
            return canon(ds.dp.descriptor, rows)
        if how == 'results':
            r, dp, _ = Flow(*links).results()
            return canon(dp.descriptor, r)
        dp, _ = Flow(*links).process()
        return {'title': dp.descriptor.get('title'), 'names': [d['name'] for d in dp.descriptor['resources']]}


def run_stepwise(sizes, mk_steps, late=False, kinds=None):
    """one step at a time, each on the fully materialised (deep-copied) output of the previous one; user row and rows
    callables are applied directly (what it means for such a link to take effect: every row is replaced by what the
    row function returns, or kept as the function left it when it returns nothing; a rows function maps each resource's
    row sequence), built-in steps and package functions run alone in a one-step Flow"""
    with quiet():
        ds = Flow(*[list(map(dict, r)) for r in mk_sources(sizes, late)]).datastream()
        dp = copy.deepcopy(ds.dp.descriptor)
        rows = [[copy.deepcopy(dict(r)) for r in res] for res in ds.res_iter]
        for si, step in enumerate(mk_steps()):
            kind = (kinds or [None] * (si + 1))[si]
            if kind in ('row_fn', 'row_ret'):
                new = []
                for rs in rows:
                    cur = []
                    for r in rs:
                        r = copy.deepcopy(r)
                        ret = step(r)
                        cur.append(r if ret is None else ret)
                    new.append(cur)
                rows = new
                continue
            if kind in ('rows_fn', 'rows_peek'):
                rows = [[copy.deepcopy(dict(r)) for r in step(iter(copy.deepcopy(rs)))] for rs in rows]
                continue
            src = DF.DataStream(Package(copy.deepcopy(dp)),
                                [DF.ResourceWrapper(res, iter(copy.deepcopy(rs))) for res, rs in zip(Package(copy.deepcopy(dp)).resources, rows)])
            ds = Flow(step).datastream(src)
            dp = copy.deepcopy(ds.dp.descriptor)
            rows = [[copy.deepcopy(dict(r)) for r in res] for res in ds.res_iter]
    return canon(dp, rows)


def regroup(steps, splits, cond):
    groups, prev = [], 0
    for sp in splits + [len(steps)]:
        groups.append(steps[prev:sp])
        prev = sp
    out = []
    for gi, g in enumerate(groups):
        if not g:
            continue
        if gi % 2 == 0:
            out.append(Flow(*g))
        elif cond:
            out.append(DF.conditional(lambda dp: True, Flow(Flow(*g))))
        else:
            out.extend(g)
    return out


SOURCE_TYPES = [('id', 'integer'), ('name', 'string'), ('amt', 'number'), ('ok', 'boolean'), ('day', 'date')]


def source_rows(case):
    rows = []
    for j in range(case['n']):
        r = {'id': j, 'name': 's%d' % j, 'amt': decimal.Decimal(j) / 4, 'ok': j % 2 == 0, 'day': datetime.date(2020, 1, 1 + j % 28)}
        items = list(r.items())
        if case['shape'] == 'rotate':
            k = j % len(items)
            items = items[k:] + items[:k]
        elif case['shape'] == 'reverse_some' and j % 3 == 1:
            items = items[::-1]
        elif case['shape'] == 'sparse' and j % 2 == 1:
            items = [kv for kv in items if kv[0] != 'name']
        elif case['shape'] == 'wide':
            # 150 further columns; 'name' has no value in the first 80 rows, 'amt' is null in rows 70-99: still inside the
            # 100-row sample, which is 100 rows whatever the number of columns
            if j < 80:
                items[1] = ('name', None)
            if 70 <= j < 100:
                items[2] = ('amt', None)
            items = items + [('w%03d' % q, j + q) for q in range(150)]
        rows.append(dict(items))
    return rows


def run_source(case):
    rows = source_rows(case)
    link = {'list': lambda: [dict(r) for r in rows], 'tuple': lambda: tuple(dict(r) for r in rows), 'gen': lambda: (dict(r) for r in rows)}[case['form']]()
    try:
        with quiet():
            ds = Flow(link).datastream()
            got = [[dict(r) for r in res] for res in ds.res_iter]
        return {'fields': [[f['name'], f['type']] for f in ds.dp.descriptor['resources'][0]['schema']['fields']], 'rows': rows_enc(got[0]), 'nres': len(got)}
    except Exception as e:
        return {'error': '%s: %s' % (type(e).__name__, str(e)[:200])}


def run_impl(case):
    if case['kind'] == 'source':
        return run_source(case)
    if case['kind'] == 'badlink':
        bad = {'none': None, 'int': 5, 'float': 2.5, 'two_params': (lambda row, x: None), 'wrong_name': (lambda record: None),
               'object_no_call': object()}[case['bad']]
        links = [[{'a': 1}], DF.add_field('x', 'integer', 1), DF.add_field('y', 'integer', 2)]
        links.insert(1 + case['pos'], bad)
        for _ in range(case['depth']):
            links = [Flow(*links)]
        try:
            with quiet():
                r = Flow(*links).results()
            return {'accepted': True, 'rows': rows_enc(r[0][0])}
        except Exception as e:
            return {'accepted': False, 'exc': type(e).__name__}
    sizes = case['sizes']
    late = case.get('late', False)

    def mk():
        return [mk_step(st, i) for i, st in enumerate(case['steps'])]
    out = {}
    try:
        out['lazy'] = run_lazy(sizes, mk(), late=late)
    except Exception as e:
        return {'lazy_error': error_text(e)}
    try:
        out['stepwise'] = run_stepwise(sizes, mk, late=late, kinds=[st['t'] for st in case['steps']])
    except Exception as e:
        out['stepwise_error'] = error_text(e)
    try:
        out['regrouped'] = run_lazy(sizes, regroup(mk(), case['splits'], case['cond']), late=late)
    except Exception as e:
        out['regrouped_error'] = error_text(e)
    try:
        out['results'] = run_lazy(sizes, mk(), 'results', late=late)
        out['process'] = run_lazy(sizes, mk(), 'process', late=late)
    except Exception as e:
        out['results_error'] = error_text(e)
    return out


def error_text(e):
    c = e
    while type(c).__name__ == 'ProcessorError' and getattr(c, 'cause', None) is not None:
        c = c.cause
    return '%s: %s' % (type(c).__name__, str(c)[:200])


def strip_types(c):
    """results() casts by the final schema (Decimal for number); compare values numerically"""
    def norm(v):
        if isinstance(v, dict) and '$dec' in v:
            d = decimal.Decimal(v['$dec'])
            return int(d) if d == d.to_integral_value() else float(d)
        if isinstance(v, dict) and '$obj' in v:
            return {'$obj': [[k, norm(x)] for k, x in v['$obj']]}
        return v
    return {'title': c['title'], 'res': [dict(r, rows=[norm(x) for x in r['rows']]) for r in c['res']]}


def oracle(case, out):
    if case['kind'] == 'source':
        what = 'an in-line %s of %d dict rows (%s key order)' % (case['form'], case['n'], case['shape'])
        if 'error' in out:
            return '%s failed: %s' % (what, out['error'])
        want_fields = [list(x) for x in SOURCE_TYPES] + ([['w%03d' % q, 'integer'] for q in range(150)] if case['shape'] == 'wide' else [])
        if out['fields'] != want_fields:
            return '%s is described as %r, its columns are %r' % (what, [f for f in out['fields'] if f not in want_fields][:6] or out['fields'][:8], want_fields[:8])
        rows = source_rows(case)
        got = rows_dec(out['rows'])
        if out['nres'] != 1 or len(got) != len(rows) or any(any(g.get(k) != r.get(k) for k, _ in SOURCE_TYPES) for g, r in zip(got, rows)):
            return '%s: the rows that come out are not the rows that went in' % what
        return None
    if case['kind'] == 'badlink':
        return 'a link Flow cannot interpret (%s) was accepted and silently skipped' % case['bad'] if out['accepted'] else None
    if 'lazy_error' in out:
        # an ill-typed sequence (e.g. sorting after the key was changed): must then fail in every form
        if 'stepwise_error' in out or True:
            return None
    for k in ('stepwise', 'regrouped', 'results'):
        if k + '_error' in out:
            return 'the lazy run succeeds but the %s run fails: %s' % (k, out[k + '_error'])
    if out['stepwise'] != out['lazy']:
        return 'lazy chained execution differs from step-by-step evaluation on materialised data (%s)' % first_diff(out['lazy'], out['stepwise'])
    if out['regrouped'] != out['lazy']:
        return 'regrouping into nested Flows / always-true conditionals changes the outcome (%s)' % first_diff(out['lazy'], out['regrouped'])
    if strip_types(out['results']) != strip_types(out['lazy']):
        return 'results() and datastream() disagree (%s)' % first_diff(strip_types(out['lazy']), strip_types(out['results']))
    if out['process']['names'] != [r['name'] for r in out['lazy']['res']] or out['process']['title'] != out['lazy']['title']:
        return 'process() and datastream() disagree on the descriptor'
    return None


def first_diff(a, b):
    if a['title'] != b['title']:
        return 'package title %r vs %r' % (a['title'], b['title'])
    if len(a['res']) != len(b['res']):
        return '%d vs %d resources' % (len(a['res']), len(b['res']))
    for x, y in zip(a['res'], b['res']):
        for k in ('name', 'fields', 'pk', 'title', 'note'):
            if x[k] != y[k]:
                return 'resource %s: %s %r vs %r' % (x['name'], k, x[k], y[k])
        if x['rows'] != y['rows']:
            j = next((i for i in range(min(len(x['rows']), len(y['rows']))) if x['rows'][i] != y['rows'][i]), None)
            return 'resource %s: row %r: %r vs %r (%d vs %d rows)' % (x['name'], j, x['rows'][j] if j is not None else None,
                                                                      y['rows'][j] if j is not None else None, len(x['rows']), len(y['rows']))
    return 'equal?'


def coq_term(case, out):
    if case['kind'] == 'source':
        return None
    if case['kind'] == 'badlink':
        # model: a chain with an uninterpretable link at that depth is rejected
        inner = ['LStep (fun s => s)'] * 3
        inner.insert(1 + case['pos'], 'LBad')
        term = clist(inner)
        for _ in range(case['depth']):
            term = '[LFlow %s]' % term
        return 'Bool.eqb (match chain %s (Some []) with None => true | Some _ => false end) %s' % (term, cbool(not out['accepted']))
    if 'lazy' not in out or 'regrouped' not in out:
        return None
    # model: regrouping the identity-skeleton of the chain never changes it
    n = len(case['steps'])
    flat = clist(['LStep (lmap (g_row %d (fun r => r)))' % i for i in range(n)])
    groups, prev = [], 0
    for sp in case['splits'] + [n]:
        groups.append(list(range(prev, sp)))
        prev = sp
    parts = []
    for gi, g in enumerate(groups):
        if not g:
            continue
        body = clist(['LStep (lmap (g_row %d (fun r => r)))' % i for i in g])
        parts.append('LFlow %s' % body if gi % 2 == 0 else ('LCond true [LFlow %s]' % body if case['cond'] else None))
        if parts[-1] is None:
            parts.pop()
            parts.extend('LStep (lmap (g_row %d (fun r => r)))' % i for i in g)
    src = '(Some (source (fun _ => []) 3 100))'
    return ('(match chain %s %s, chain %s %s with Some a, Some b => skel_eqb (skel a) (skel b) | _, _ => false end)%%nat' % (
        flat, src, clist(parts), src))


def nontrivial(case, out):
    return case['kind'] in ('badlink', 'source') or len(case['steps']) >= 2


def shrinks(case):
    if case['kind'] != 'pipeline':
        return
    for i in range(len(case['steps'])):
        if len(case['steps']) > 1:
            c = copy.deepcopy(case)
            del c['steps'][i]
            c['splits'] = [min(s_, len(c['steps'])) for s_ in c['splits']]
            yield c
    for i in range(len(case['sizes'])):
        if len(case['sizes']) > 1:
            c = copy.deepcopy(case)
            del c['sizes'][i]
            yield c
