From Coq Require Import List ZArith Bool Lia.
From DF Require Import Base.Str Base.Str_proofs Base.ListX Base.Value Base.Value_proofs Proc.RowOps Proc.Validate.
Import ListNotations.
Open Scope Z_scope.

Section V.
  Variable cast : str -> value -> option value.
  Notation is_bad := (is_bad cast).
  Notation bad_fields := (bad_fields cast).
  Notation cast_row := (cast_row cast).
  Notation clear_row := (clear_row cast).
  Notation check_fields := (check_fields cast).
  Notation validator := (validator cast).
  Notation run_validator := (run_validator cast).

  Lemma is_bad_rset_other r f v g : g <> f -> is_bad (rset r f v) g = is_bad r g.
  Proof. intros N. unfold Validate.is_bad. rewrite rget0_rset_other by exact N. reflexivity. Qed.

  Lemma bad_fields_rset r f v fs : ~ In f fs -> bad_fields fs (rset r f v) = bad_fields fs r.
  Proof.
    intros N. unfold Validate.bad_fields. apply filter_ext_in. intros g Hg. apply is_bad_rset_other.
    intros ->. contradiction.
  Qed.

  Definition tag (i : Z) (l : list str) : list (str * Z) := map (fun f => (f, i)) l.

  (* ---- one row, policies that never raise ---- *)
  Lemma check_ignore fields : forall i r ok calls, NoDup fields ->
    check_fields PIgnore fields i r ok calls = inl (cast_row fields r, ok, calls ++ tag i (bad_fields fields r)).
  Proof.
    induction fields as [|f fs IH]; intros i r ok calls ND; simpl.
    - rewrite app_nil_r. reflexivity.
    - inversion ND as [|? ? Hn ND']; subst. unfold Validate.is_bad at 1.
      destruct (cast f (rget0 r f)) as [v|] eqn:C.
      + rewrite IH by exact ND'. rewrite bad_fields_rset by exact Hn. reflexivity.
      + rewrite IH by exact ND'. simpl. rewrite <- app_assoc. reflexivity.
  Qed.

  Lemma check_clear fields : forall i r ok calls, NoDup fields ->
    check_fields PClear fields i r ok calls = inl (clear_row fields r, ok, calls ++ tag i (bad_fields fields r)).
  Proof.
    induction fields as [|f fs IH]; intros i r ok calls ND; simpl.
    - rewrite app_nil_r. reflexivity.
    - inversion ND as [|? ? Hn ND']; subst. unfold Validate.is_bad at 1.
      destruct (cast f (rget0 r f)) as [v|] eqn:C.
      + rewrite IH by exact ND'. rewrite bad_fields_rset by exact Hn. reflexivity.
      + rewrite IH by exact ND'. rewrite bad_fields_rset by exact Hn. simpl. rewrite <- app_assoc. reflexivity.
  Qed.

  Lemma bad_fields_cons f fs r :
    bad_fields (f :: fs) r = if is_bad r f then f :: bad_fields fs r else bad_fields fs r.
  Proof. reflexivity. Qed.

  Lemma check_drop fields : forall i r ok calls, NoDup fields ->
    exists r', check_fields PDrop fields i r ok calls
               = inl (r', ok && (match bad_fields fields r with [] => true | _ => false end),
                      calls ++ tag i (bad_fields fields r))
               /\ (bad_fields fields r = [] -> r' = cast_row fields r).
  Proof.
    induction fields as [|f fs IH]; intros i r ok calls ND.
    - exists r. simpl. rewrite app_nil_r, andb_true_r. auto.
    - inversion ND as [|? ? Hn ND']; subst. rewrite bad_fields_cons.
      cbn [Validate.check_fields Validate.cast_row]. unfold Validate.is_bad.
      destruct (cast f (rget0 r f)) as [v|] eqn:C.
      + destruct (IH i (rset r f v) ok calls ND') as [r' [E1 E2]].
        rewrite bad_fields_rset in E1, E2 by exact Hn. exists r'. split; [exact E1|exact E2].
      + destruct (IH i r false (calls ++ [(f, i)]) ND') as [r' [E1 E2]].
        exists r'. rewrite E1. simpl. rewrite andb_false_r, <- app_assoc. split; [reflexivity|discriminate].
  Qed.

  Lemma check_valid pol fields : forall i r ok calls,
    NoDup fields -> bad_fields fields r = [] ->
    check_fields pol fields i r ok calls = inl (cast_row fields r, ok, calls).
  Proof.
    induction fields as [|f fs IH]; intros i r ok calls ND B; simpl; [reflexivity|].
    inversion ND as [|? ? Hn ND']; subst. simpl in B. unfold Validate.is_bad in B at 1.
    destruct (cast f (rget0 r f)) as [v|] eqn:C; [|discriminate].
    apply IH; [exact ND'|]. rewrite bad_fields_rset by exact Hn. exact B.
  Qed.

  Lemma check_raise_bad fields : forall i r ok calls f rest,
    NoDup fields -> bad_fields fields r = f :: rest ->
    exists r', check_fields PRaise fields i r ok calls = inr (f, r', calls ++ [(f, i)]).
  Proof.
    induction fields as [|g fs IH]; intros i r ok calls f rest ND B; simpl in *; [discriminate|].
    inversion ND as [|? ? Hn ND']; subst. unfold Validate.is_bad in B at 1.
    destruct (cast g (rget0 r g)) as [v|] eqn:C.
    - apply IH with (rest := rest); [exact ND'|]. rewrite bad_fields_rset by exact Hn. exact B.
    - injection B as <- _. exists r. reflexivity.
  Qed.

  (* ---- whole resource ---- *)
  Definition valid_row fields (r : row) : bool := match bad_fields fields r with [] => true | _ => false end.

  Fixpoint all_calls fields (i : Z) (rows : list row) : list (str * Z) :=
    match rows with
    | [] => []
    | r :: rs => tag i (bad_fields fields r) ++ all_calls fields (i + 1) rs
    end.

  Theorem policy_ignore fields rows : NoDup fields ->
    forall i st, vs_raised st = None ->
    validator PIgnore fields i rows st =
    {| vs_out := vs_out st ++ map (cast_row fields) rows; vs_calls := vs_calls st ++ all_calls fields i rows; vs_raised := None |}.
  Proof.
    intros ND. induction rows as [|r rs IH]; intros i st Hr; simpl.
    - rewrite !app_nil_r. destruct st; simpl in *; subst; reflexivity.
    - rewrite check_ignore by exact ND. rewrite IH by reflexivity. simpl.
      rewrite <- !app_assoc. reflexivity.
  Qed.

  Theorem policy_clear fields rows : NoDup fields ->
    forall i st, vs_raised st = None ->
    validator PClear fields i rows st =
    {| vs_out := vs_out st ++ map (clear_row fields) rows; vs_calls := vs_calls st ++ all_calls fields i rows; vs_raised := None |}.
  Proof.
    intros ND. induction rows as [|r rs IH]; intros i st Hr; simpl.
    - rewrite !app_nil_r. destruct st; simpl in *; subst; reflexivity.
    - rewrite check_clear by exact ND. rewrite IH by reflexivity. simpl.
      rewrite <- !app_assoc. reflexivity.
  Qed.

  Theorem policy_drop fields rows : NoDup fields ->
    forall i st, vs_raised st = None ->
    validator PDrop fields i rows st =
    {| vs_out := vs_out st ++ map (cast_row fields) (filter (valid_row fields) rows);
       vs_calls := vs_calls st ++ all_calls fields i rows; vs_raised := None |}.
  Proof.
    intros ND. induction rows as [|r rs IH]; intros i st Hr; simpl.
    - rewrite !app_nil_r. destruct st; simpl in *; subst; reflexivity.
    - destruct (check_drop fields i r true (vs_calls st) ND) as [r' [E1 E2]]. rewrite E1. simpl.
      rewrite IH by reflexivity. simpl. unfold valid_row at 2.
      destruct (bad_fields fields r) eqn:B; simpl.
      + rewrite (E2 eq_refl). rewrite <- !app_assoc. reflexivity.
      + rewrite <- !app_assoc. reflexivity.
  Qed.

  (* raise: the run aborts at the first row with an uncastable checked value, with its index *)
  Theorem policy_raise_first_bad fields pre r post f rest : NoDup fields ->
    (forall x, In x pre -> bad_fields fields x = []) -> bad_fields fields r = f :: rest ->
    forall i st, vs_raised st = None ->
    exists r', validator PRaise fields i (pre ++ r :: post) st =
    {| vs_out := vs_out st ++ map (cast_row fields) pre;
       vs_calls := vs_calls st ++ [(f, i + Z.of_nat (length pre))];
       vs_raised := Some (i + Z.of_nat (length pre), f, r') |}.
  Proof.
    intros ND Hpre Hbad. induction pre as [|p pre IH]; intros i st Hr; simpl.
    - destruct (check_raise_bad fields i r true (vs_calls st) f rest ND Hbad) as [r' E]. rewrite E.
      exists r'. rewrite app_nil_r, Z.add_0_r. reflexivity.
    - rewrite check_valid; [|exact ND|apply Hpre; left; reflexivity].
      destruct (IH (fun x Hx => Hpre x (or_intror Hx)) (i + 1)
                   {| vs_out := vs_out st ++ [cast_row fields p]; vs_calls := vs_calls st; vs_raised := None |} eq_refl)
        as [r' E].
      exists r'. rewrite E. simpl. rewrite <- app_assoc. simpl.
      replace (i + 1 + Z.of_nat (length pre)) with (i + Z.pos (Pos.of_succ_nat (length pre))) by lia. reflexivity.
  Qed.

  (* rows whose checked values are all valid are never dropped or altered beyond the cast,
     whatever the policy, and no handler is invoked *)
  Theorem valid_rows_untouched pol fields rows : NoDup fields ->
    (forall x, In x rows -> bad_fields fields x = []) ->
    forall i st, vs_raised st = None ->
    validator pol fields i rows st =
    {| vs_out := vs_out st ++ map (cast_row fields) rows; vs_calls := vs_calls st; vs_raised := None |}.
  Proof.
    intros ND. induction rows as [|r rs IH]; intros Hv i st Hr; simpl.
    - rewrite app_nil_r. destruct st; simpl in *; subst; reflexivity.
    - rewrite check_valid; [|exact ND|apply Hv; left; reflexivity].
      rewrite IH; [|intros x Hx; apply Hv; right; exact Hx|reflexivity]. simpl.
      rewrite <- app_assoc. reflexivity.
  Qed.

  (* ---- what cast_row / clear_row do to each field ---- *)
  Lemma cast_row_other fields : forall r g, ~ In g fields -> rget0 (cast_row fields r) g = rget0 r g.
  Proof.
    induction fields as [|f fs IH]; intros r g N; simpl; [reflexivity|].
    destruct (cast f (rget0 r f)); rewrite IH by (intros X; apply N; right; exact X); [|reflexivity].
    apply rget0_rset_other. intros ->. apply N. left. reflexivity.
  Qed.

  Lemma cast_row_field fields : forall r f, NoDup fields -> In f fields ->
    rget0 (cast_row fields r) f = match cast f (rget0 r f) with Some v => v | None => rget0 r f end.
  Proof.
    induction fields as [|g fs IH]; intros r f ND Hin; [destruct Hin|].
    inversion ND as [|? ? Hn ND']; subst. simpl. destruct Hin as [->|Hin].
    - destruct (cast f (rget0 r f)) as [v|] eqn:C; rewrite cast_row_other by exact Hn; [apply rget0_rset_same|reflexivity].
    - assert (f <> g) by (intros ->; contradiction).
      destruct (cast g (rget0 r g)) as [v|]; rewrite IH by assumption; [|reflexivity].
      rewrite rget0_rset_other by assumption. reflexivity.
  Qed.

  Lemma clear_row_other fields : forall r g, ~ In g fields -> rget0 (clear_row fields r) g = rget0 r g.
  Proof.
    induction fields as [|f fs IH]; intros r g N; simpl; [reflexivity|].
    destruct (cast f (rget0 r f)); rewrite IH by (intros X; apply N; right; exact X);
      apply rget0_rset_other; intros ->; apply N; left; reflexivity.
  Qed.

  (* clear nulls exactly the offending fields *)
  Lemma clear_row_field fields : forall r f, NoDup fields -> In f fields ->
    rget0 (clear_row fields r) f = match cast f (rget0 r f) with Some v => v | None => VNull end.
  Proof.
    induction fields as [|g fs IH]; intros r f ND Hin; [destruct Hin|].
    inversion ND as [|? ? Hn ND']; subst. simpl. destruct Hin as [->|Hin].
    - destruct (cast f (rget0 r f)) as [v|] eqn:C; rewrite clear_row_other by exact Hn; apply rget0_rset_same.
    - assert (f <> g) by (intros ->; contradiction).
      destruct (cast g (rget0 r g)) as [v|]; rewrite IH by assumption;
        rewrite rget0_rset_other by assumption; reflexivity.
  Qed.
End V.

(* set_type's transform happens before the cast *)
Lemma transform_row_field tr fields : forall r f, NoDup fields -> In f fields ->
  rget0 (transform_row tr fields r) f = tr f (rget0 r f).
Proof.
  induction fields as [|g fs IH]; intros r f ND Hin; [destruct Hin|].
  inversion ND as [|? ? Hn ND']; subst. simpl.
  assert (O : forall l r0 x, ~ In x l -> rget0 (transform_row tr l r0) x = rget0 r0 x).
  { induction l as [|h l IHl]; intros r0 x N; simpl; [reflexivity|].
    rewrite IHl by (intros X; apply N; right; exact X).
    apply rget0_rset_other. intros ->. apply N. left. reflexivity. }
  destruct Hin as [->|Hin].
  - rewrite O by exact Hn. apply rget0_rset_same.
  - rewrite IH by assumption. rewrite rget0_rset_other; [reflexivity|]. intros ->. contradiction.
Qed.
