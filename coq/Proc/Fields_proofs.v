From Coq Require Import List ZArith Bool Lia Permutation.
From DF Require Import Base.Str Base.Str_proofs Base.ListX Base.Value Base.Value_proofs Proc.RowOps Proc.Fields.
Import ListNotations.
Open Scope Z_scope.

(* ---------- generic: filtering a row by a key set ---------- *)
Lemma keep_keys_keys keep r : rkeys (keep_keys keep r) = filter (fun k => str_in k keep) (rkeys r).
Proof.
  unfold keep_keys, rkeys. induction r as [|[k v] r IH]; simpl; [reflexivity|].
  destruct (str_in k keep); simpl; rewrite IH; reflexivity.
Qed.

Lemma keep_keys_get keep r k : str_in k keep = true -> rget (keep_keys keep r) k = rget r k.
Proof.
  intros H. unfold keep_keys. induction r as [|[k' v] r IH]; simpl; [reflexivity|].
  destruct (str_in k' keep) eqn:E; simpl.
  - destruct (str_eqb k k'); [reflexivity|exact IH].
  - destruct (str_eqb k k') eqn:E2; [|exact IH].
    apply str_eqb_eq in E2. subst. congruence.
Qed.

Lemma filter_in_filter (p : str -> bool) l :
  filter (fun k => str_in k (filter p l)) l = filter p l.
Proof.
  apply filter_ext_in. intros k Hk.
  destruct (p k) eqn:E.
  - apply str_in_In, filter_In. auto.
  - destruct (str_in k (filter p l)) eqn:F; [|reflexivity].
    apply str_in_In, filter_In in F. destruct F; congruence.
Qed.

(* ---------- select_fields ---------- *)
Lemma select_names_In pats names k :
  In k (select_names pats names) <-> In k names /\ existsb (fun p => p k) pats = true.
Proof.
  revert names; induction pats as [|p ps IH]; intros names; simpl.
  - split; [tauto|intros [_ H]; discriminate].
  - rewrite in_app_iff, IH, !filter_In, orb_true_iff.
    destruct (p k); simpl; intuition discriminate.
Qed.

(* a field matched by several selectors is selected once: the selection never repeats a name *)
Lemma NoDup_filter (A : Type) (f : A -> bool) (l : list A) : NoDup l -> NoDup (filter f l).
Proof.
  induction l as [|x r IH]; simpl; intros H; [constructor|]. inversion H as [|? ? Hx Hr]; subst.
  destruct (f x); [constructor; [rewrite filter_In; tauto|apply IH, Hr]|apply IH, Hr].
Qed.

Lemma NoDup_app_disjoint (A : Type) (a b : list A) :
  NoDup a -> NoDup b -> (forall x, In x a -> ~ In x b) -> NoDup (a ++ b).
Proof.
  induction a as [|x r IH]; simpl; intros Ha Hb D; [exact Hb|]. inversion Ha as [|? ? Hx Hr]; subst.
  constructor.
  - rewrite in_app_iff. intros [H|H]; [exact (Hx H)|exact (D x (or_introl eq_refl) H)].
  - apply IH; [exact Hr|exact Hb|]. intros y Hy. apply D. now right.
Qed.

Lemma select_names_nodup pats : forall names, NoDup names -> NoDup (select_names pats names).
Proof.
  induction pats as [|p ps IH]; intros names H; simpl; [constructor|].
  apply NoDup_app_disjoint; [apply NoDup_filter, H|apply IH, NoDup_filter, H|].
  intros x Hx Hy. apply filter_In in Hx as [_ Px]. apply select_names_In in Hy as [Hy _].
  apply filter_In in Hy as [_ Ny]. rewrite Px in Ny. discriminate.
Qed.

(* the resulting field list and each row's keys agree (as sets; the schema is in
   selection order, the row keeps its own order) *)
Lemma select_lockstep pats names r k :
  rkeys r = names ->
  (In k (rkeys (keep_keys (select_names pats names) r)) <-> In k (select_names pats names)).
Proof.
  intros <-. rewrite keep_keys_keys, filter_In, str_in_In, select_names_In. tauto.
Qed.

Lemma select_values pats names r k :
  In k (select_names pats names) -> rget (keep_keys (select_names pats names) r) k = rget r k.
Proof. intros H. apply keep_keys_get, str_in_In, H. Qed.

(* selection order: pattern by pattern, each in original order *)
Lemma select_names_order p ps names :
  select_names (p :: ps) names = filter p names ++ select_names ps (filter (fun n => negb (p n)) names).
Proof. reflexivity. Qed.

Lemma select_names_NoDup pats names : NoDup names -> NoDup (select_names pats names).
Proof.
  revert names; induction pats as [|p ps IH]; intros names ND; simpl; [constructor|].
  apply NoDup_app_intro.
  - apply NoDup_filter, ND.
  - apply IH, NoDup_filter, ND.
  - intros x H1 H2. apply filter_In in H1 as [_ H1]. apply select_names_In in H2 as [H2 _].
    apply filter_In in H2 as [_ H2]. rewrite H1 in H2. discriminate.
Qed.

(* ---------- delete_fields ---------- *)
Lemma delete_lockstep pats names r :
  rkeys r = names -> rkeys (keep_keys (delete_names pats names) r) = delete_names pats names.
Proof.
  intros <-. rewrite keep_keys_keys. unfold delete_names. apply filter_in_filter.
Qed.

Lemma delete_values pats names r k :
  In k (delete_names pats names) -> rget (keep_keys (delete_names pats names) r) k = rget r k.
Proof. intros H. apply keep_keys_get, str_in_In, H. Qed.

Lemma delete_names_spec pats names k :
  In k (delete_names pats names) <-> In k names /\ existsb (fun p => p k) pats = false.
Proof. unfold delete_names. rewrite filter_In, negb_true_iff. tauto. Qed.

Lemma delete_names_subseq pats names : subseq (delete_names pats names) names.
Proof. apply subseq_filter. Qed.

(* ---------- rename_fields ---------- *)
Definition ren (m : list (str * str)) (k : str) : str :=
  match lookup_str m k with Some t => t | None => k end.

Lemma rename_schema_spec pats names targets l m :
  rename_schema pats names targets = Ok (l, m) ->
  l = map (fun n => match rename_one pats n with Some t => t | None => n end) names /\
  (forall n, In n names -> NoDup names -> ren m n = match rename_one pats n with Some t => t | None => n end).
Proof.
  revert targets l m; induction names as [|n ns IH]; intros targets l m H; simpl in H.
  - injection H as <- <-. split; [reflexivity|]. intros n [].
  - destruct (rename_one pats n) as [t|] eqn:R.
    + destruct (str_in t targets); [discriminate|].
      destruct (rename_schema pats ns (t :: targets)) as [[l' m']|c] eqn:E; [|discriminate].
      injection H as <- <-. destruct (IH _ _ _ E) as [IH1 IH2]. split.
      * simpl. rewrite R, IH1. reflexivity.
      * intros x [->|Hx] ND.
        -- unfold ren. simpl. rewrite str_eqb_refl, R. reflexivity.
        -- inversion ND as [|? ? Hn ND']; subst. unfold ren. simpl.
           destruct (str_eqb x n) eqn:Ex; [apply str_eqb_eq in Ex; subst; contradiction|].
           apply IH2; assumption.
    + destruct (rename_schema pats ns targets) as [[l' m']|c] eqn:E; [|discriminate].
      injection H as <- <-. destruct (IH _ _ _ E) as [IH1 IH2]. split.
      * simpl. rewrite R, IH1. reflexivity.
      * intros x [->|Hx] ND.
        -- inversion ND as [|? ? Hn ND']; subst.
           (* x is not a key of m' because keys of m' are in ns *)
           assert (K : forall mm tt ll, rename_schema pats ns tt = Ok (ll, mm) -> lookup_str mm x = None).
           { clear - Hn. induction ns as [|y ys IHy]; intros mm tt ll Hm; simpl in Hm.
             - injection Hm as <- <-. reflexivity.
             - destruct (rename_one pats y) as [t|].
               + destruct (str_in t tt); [discriminate|].
                 destruct (rename_schema pats ys (t :: tt)) as [[l2 m2]|c] eqn:E2; [|discriminate].
                 injection Hm as <- <-. simpl.
                 destruct (str_eqb x y) eqn:Exy; [apply str_eqb_eq in Exy; subst; exfalso; apply Hn; left; reflexivity|].
                 eapply IHy; [intros X; apply Hn; right; exact X|exact E2].
               + destruct (rename_schema pats ys tt) as [[l2 m2]|c] eqn:E2; [|discriminate].
                 injection Hm as <- <-. eapply IHy; [intros X; apply Hn; right; exact X|exact E2]. }
           unfold ren. rewrite (K _ _ _ E), R. reflexivity.
        -- inversion ND; subst. apply IH2; assumption.
Qed.

(* rows: keys are renamed in place, values kept, when targets do not collide *)
Lemma rename_row_keys_nodup m r :
  NoDup (map (ren m) (rkeys r)) ->
  rename_row m r = map (fun kv => (ren m (fst kv), snd kv)) r.
Proof.
  intros ND. unfold rename_row. apply rdict_nodup.
  unfold rkeys in *. rewrite map_map in *. exact ND.
Qed.

Lemma rename_lockstep m r :
  NoDup (map (ren m) (rkeys r)) -> rkeys (rename_row m r) = map (ren m) (rkeys r).
Proof.
  intros ND. rewrite rename_row_keys_nodup by exact ND. unfold rkeys. rewrite !map_map. reflexivity.
Qed.

Lemma rename_values m r k v :
  NoDup (map (ren m) (rkeys r)) -> NoDup (rkeys r) ->
  rget r k = Some v -> rget (rename_row m r) (ren m k) = Some v.
Proof.
  intros ND ND0 H. rewrite rename_row_keys_nodup by exact ND.
  induction r as [|[k' v'] r IH]; simpl in *; [discriminate|].
  inversion ND as [|? ? Hn ND']; subst. inversion ND0 as [|? ? Hn0 ND0']; subst.
  destruct (str_eqb k k') eqn:E.
  - apply str_eqb_eq in E. subst. rewrite str_eqb_refl. exact H.
  - destruct (str_eqb (ren m k) (ren m k')) eqn:E2.
    + apply str_eqb_eq in E2. exfalso. apply Hn. rewrite <- E2.
      apply in_map. clear - H. induction r as [|[a b] r IH]; simpl in *; [discriminate|].
      destruct (str_eqb k a) eqn:Ea; [apply str_eqb_eq in Ea; left; congruence|right; apply IH, H].
    + apply IH; assumption.
Qed.

(* ---------- add_computed_field ---------- *)
Lemma compute_row_one f r v :
  compute (cf_op f) (cf_sources f) (cf_with f) r = Ok v ->
  compute_row [f] r = Ok (rset r (cf_target f) v).
Proof. intros H. simpl. rewrite H. reflexivity. Qed.

(* a fresh target is appended; existing keys stay where they are *)
Lemma add_field_lockstep r t v names :
  rkeys r = names -> ~ In t names -> rkeys (rset r t v) = names ++ [t].
Proof.
  intros <- H. apply rkeys_rset_absent. destruct (rhas r t) eqn:E; [|reflexivity].
  apply rhas_In in E. contradiction.
Qed.

Lemma add_field_untouched r t v k : k <> t -> rget (rset r t v) k = rget r k.
Proof. intros H. apply rget_rset_other, H. Qed.

Lemma add_field_value r t v : rget (rset r t v) t = Some v.
Proof. apply rget_rset_same. Qed.

Lemma computed_schema_names schema fs :
  map fst (computed_schema schema fs) = map fst schema ++ map cf_target fs.
Proof. unfold computed_schema. rewrite map_app, map_map. reflexivity. Qed.

Lemma compute_row_keys fs : forall r out,
  compute_row fs r = Ok out ->
  (forall f, In f fs -> ~ In (cf_target f) (rkeys r)) -> NoDup (map cf_target fs) ->
  rkeys out = rkeys r ++ map cf_target fs.
Proof.
  induction fs as [|f fs IH]; intros r out H Fresh ND; simpl in *.
  - injection H as <-. rewrite app_nil_r. reflexivity.
  - destruct (compute (cf_op f) (cf_sources f) (cf_with f) r) as [v|c]; [|discriminate].
    inversion ND as [|? ? Hn ND']; subst.
    assert (A : rhas r (cf_target f) = false).
    { destruct (rhas r (cf_target f)) eqn:E; [|reflexivity]. apply rhas_In in E.
      exfalso. eapply Fresh; [left; reflexivity|exact E]. }
    rewrite (IH _ _ H); [|intros g Hg; rewrite rkeys_rset_absent by exact A; rewrite in_app_iff; simpl;
                          intros [X|[X|[]]]; [eapply Fresh; [right; exact Hg|exact X]|
                                              apply Hn; rewrite X; apply in_map, Hg]|exact ND'].
    rewrite rkeys_rset_absent by exact A. rewrite <- app_assoc. reflexivity.
Qed.

(* documented operations on that row alone *)
Lemma compute_sum sources w r zs :
  ints_of (source_values sources r) = Some zs -> compute OpSum sources w r = Ok (VInt (zsum zs)).
Proof. intros H. unfold compute. rewrite H. reflexivity. Qed.

Lemma compute_constant sources w r : compute OpConstant sources w r = Ok (VStr w).
Proof. reflexivity. Qed.

Lemma compute_max sources w r z zs :
  ints_of (source_values sources r) = Some (z :: zs) ->
  compute OpMax sources w r = Ok (VInt (fold_left Z.max zs z)).
Proof. intros H. unfold compute. rewrite H. reflexivity. Qed.

Lemma compute_min sources w r z zs :
  ints_of (source_values sources r) = Some (z :: zs) ->
  compute OpMin sources w r = Ok (VInt (fold_left Z.min zs z)).
Proof. intros H. unfold compute. rewrite H. reflexivity. Qed.

Lemma fold_max_ge zs : forall z x, In x (z :: zs) -> x <= fold_left Z.max zs z.
Proof.
  induction zs as [|y ys IH]; intros z x H; simpl in *.
  - destruct H as [->|[]]. lia.
  - destruct H as [->|[->|H]].
    + apply Z.le_trans with (Z.max x y); [lia|]. apply IH. left. reflexivity.
    + apply Z.le_trans with (Z.max z x); [lia|]. apply IH. left. reflexivity.
    + apply IH. right. exact H.
Qed.

Lemma fold_max_in zs : forall z, In (fold_left Z.max zs z) (z :: zs).
Proof.
  induction zs as [|y ys IH]; intros z; simpl; [left; reflexivity|].
  destruct (IH (Z.max z y)) as [H|H].
  - destruct (Z.max_spec z y) as [[_ E]|[_ E]]; rewrite E in H at 1; [right; left|left]; exact H.
  - right. right. exact H.
Qed.

Lemma zsum_app a b : zsum (a ++ b) = zsum a + zsum b.
Proof.
  unfold zsum. rewrite fold_left_app.
  assert (G : forall l acc, fold_left Z.add l acc = acc + fold_left Z.add l 0).
  { induction l as [|x l IH]; intros acc; simpl; [lia|]. rewrite IH, (IH x). lia. }
  rewrite G. reflexivity.
Qed.

(* ---------- find_replace ---------- *)
Lemma fr_apply_keys f r out : fr_apply f r = Ok out -> rkeys out = rkeys r.
Proof.
  unfold fr_apply. destruct (fr_subs f); [intros H; injection H as <-; reflexivity|].
  destruct (rget r (fr_name f)) as [v|] eqn:G; [|discriminate].
  destruct (str_of_value v); [|discriminate]. intros H. injection H as <-.
  apply rkeys_rset_present. apply rhas_rget. eauto.
Qed.

Lemma fr_apply_other f r out k : fr_apply f r = Ok out -> k <> fr_name f -> rget out k = rget r k.
Proof.
  unfold fr_apply. destruct (fr_subs f); [intros H; injection H as <-; reflexivity|].
  destruct (rget r (fr_name f)) as [v|] eqn:G; [|discriminate].
  destruct (str_of_value v); [|discriminate]. intros H N. injection H as <-.
  apply rget_rset_other, N.
Qed.

Lemma find_replace_keys fs : forall r out, find_replace_row fs r = Ok out -> rkeys out = rkeys r.
Proof.
  induction fs as [|f fs IH]; intros r out H; simpl in H; [injection H as <-; reflexivity|].
  destruct (fr_apply f r) as [r'|c] eqn:E; [|discriminate].
  rewrite (IH _ _ H). eapply fr_apply_keys, E.
Qed.

Lemma find_replace_untouched fs : forall r out k,
  find_replace_row fs r = Ok out -> (forall f, In f fs -> k <> fr_name f) -> rget out k = rget r k.
Proof.
  induction fs as [|f fs IH]; intros r out k H N; simpl in H; [injection H as <-; reflexivity|].
  destruct (fr_apply f r) as [r'|c] eqn:E; [|discriminate].
  rewrite (IH _ _ _ H) by (intros g Hg; apply N; right; exact Hg).
  eapply fr_apply_other; [exact E|apply N; left; reflexivity].
Qed.

Lemma fr_apply_value f r x subs g :
  rget r (fr_name f) = Some (VStr x) -> fr_subs f = g :: subs ->
  fr_apply f r = Ok (rset r (fr_name f) (VStr (fold_left (fun acc h => h acc) (g :: subs) x))).
Proof. intros H1 H2. unfold fr_apply. rewrite H2, H1. reflexivity. Qed.
