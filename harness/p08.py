"""C08 An interrupted checkpoint is never used."""
import copy, shutil, json, subprocess, sys, textwrap
from concurrent.futures import ThreadPoolExecutor
from common import *
from flowutil import *
import dataflows as DF

PROP = 'C08'
PROPS_V = 'Props/C08.v'
COQ_IMPORTS = ['Base.Str', 'Base.Value', 'IO.Stream']
RULE = ('cases = packages of 0-3 resources x 0-5 rows (thorough: up to 120 rows); for each, (a) the real sequence of file '
        'operations while saving a checkpoint is recorded and compared with the model, (b) a child process is killed '
        '(os._exit) before every single file operation (makedirs/open/write/flush/close/rename) and the directory and the next run are '
        'examined, (c) a step raises at every row position and at stream exhaustion; exhaustive over operation indices '
        'for each package; non-trivial = a crash point strictly inside the save; distinct = (package shape, crash point)'
        '; round 7: a row-level step that raises StopIteration (a failure, never a quiet end), a retry of the same objects, a later step that stops reading'
        '; round 8: temporary files on another file system than the checkpoint; moves and copies through shutil followed chunk by chunk')
TRUSTED = ['Coq 8.16.1 kernel + vm_compute', 'harness/p08.py fault injector (wraps open/os.rename/os.makedirs in the stream module namespace of the child) and oracle',
           'POSIX rename is atomic and data handed to the OS by flush survives a process kill (OS facts; power loss is out of scope)']
ASSUMES = ['the checkpoint directory does not contain a stream.ndjson from another flow beforehand']

CHILD = textwrap.dedent('''
    import sys, os, json, builtins
    sys.path.insert(0, %(repo)r)
    import logging; logging.disable(logging.CRITICAL)
    import dataflows
    from dataflows import Flow, checkpoint
    S = sys.modules['dataflows.processors.stream']
    kill_at = %(kill_at)r
    fail_at = %(fail_at)r
    ops = []
    def tick(name):
        if kill_at is not None and len(ops) == kill_at:
            sys.stdout.flush(); os._exit(77)
        ops.append(name)
    class F:
        def __init__(self, f): self.f = f
        def write(self, t):
            tick('write' if t != '\\n' else 'sep'); return self.f.write(t)
        def flush(self):
            tick('flush'); return self.f.flush()
        def close(self):
            tick('close'); return self.f.close()
    class OS:
        path = os.path
        def __getattr__(self, n):
            return getattr(os, n)
        def makedirs(self, *a, **k):
            tick('mkdir'); return os.makedirs(*a, **k)
        def rename(self, a, b):
            tick('rename'); return os.rename(a, b)
        def replace(self, a, b):
            tick('rename'); return os.replace(a, b)
    def fake_open(name, mode='r', *a, **k):
        tick('open'); return F(builtins.open(name, mode, *a, **k))
    S.open = fake_open
    S.os = OS()
    import shutil as _sh
    class SH:
        # (only if the module uses shutil at all) moving a file: a rename within one file system, otherwise a copy followed
        # by the removal of the original, with a possible interruption before every chunk
        def __getattr__(self, n):
            return getattr(_sh, n)
        def _copy(self, src, dst):
            tick('open'); out = builtins.open(dst, 'wb')
            with builtins.open(src, 'rb') as inp:
                while True:
                    b = inp.read(64)
                    if not b:
                        break
                    tick('write'); out.write(b); out.flush()
            tick('close'); out.close()
            return dst
        def move(self, src, dst):
            if os.path.isdir(dst):
                dst = os.path.join(dst, os.path.basename(src))
            if os.stat(os.path.dirname(os.path.abspath(dst))).st_dev == os.stat(src).st_dev:
                tick('rename'); os.rename(src, dst); return dst
            self._copy(src, dst)
            tick('unlink'); os.unlink(src)
            return dst
        def copyfile(self, src, dst, **k):
            return self._copy(src, dst)
        def copy(self, src, dst, **k):
            return self._copy(src, os.path.join(dst, os.path.basename(src)) if os.path.isdir(dst) else dst)
        copy2 = copy
    if hasattr(S, 'shutil'):
        S.shutil = SH()
    pkg = %(pkg)r
    count = [0]
    down_at = fail_at[1] if isinstance(fail_at, (list, tuple)) and fail_at[0] == 'down' else None
    retry_at = fail_at[1] if isinstance(fail_at, (list, tuple)) and fail_at[0] in ('retry', 'retry2', 'retry3') else None
    # retry3: the first attempt fails inside the stream writer itself - a cell the extended JSON cannot write (a Fraction)
    unwritable = isinstance(fail_at, (list, tuple)) and fail_at[0] == 'retry3'
    # retry2: the failed attempt saw other data (corrected before the retry) and its exception object is still referenced
    # while the retry runs and commits; it is released afterwards
    stale = isinstance(fail_at, (list, tuple)) and fail_at[0] in ('retry2', 'retry3')
    kept = []
    attempts = [0]
    src_at = fail_at[1] if isinstance(fail_at, (list, tuple)) and fail_at[0] == 'src' else None
    def up(rows):
        for r in rows:
            if fail_at is not None and count[0] == fail_at:
                raise RuntimeError('injected')
            if retry_at is not None and attempts[0] == 0 and count[0] == retry_at:
                if unwritable:
                    import fractions
                    count[0] += 1
                    yield dict(r, s=fractions.Fraction(1, 3))
                    continue
                raise RuntimeError('injected, first attempt only')
            count[0] += 1
            yield dict(r, s='stale value %%d of the failed attempt' %% count[0]) if stale and attempts[0] == 0 else r
    dcount = [0]
    def down(rows):
        # a step placed after the checkpoint, failing while rows are still flowing through it
        for r in rows:
            if down_at is not None and dcount[0] == down_at:
                raise RuntimeError('injected downstream')
            dcount[0] += 1
            yield r
    def failing_source(rows):
        for i, r in enumerate(rows):
            if src_at is not None and i == src_at:
                raise RuntimeError('injected in the source')
            yield r
        if fail_at is not None and fail_at == -1 - 0 and False:
            raise RuntimeError('injected')
    rowstop_at = fail_at[1] if isinstance(fail_at, (list, tuple)) and fail_at[0] == 'rowstop' else None
    rcount = [0]
    def rowstep(row):
        # a row-level step before the checkpoint; for rowstop it fails with StopIteration (an un-defaulted next() on an
        # exhausted iterator), which must fail the run like any other exception
        if rowstop_at is not None and rcount[0] == rowstop_at:
            raise StopIteration('side iterator exhausted')
        rcount[0] += 1
    stop_at = fail_at[1] if isinstance(fail_at, (list, tuple)) and fail_at[0] == 'stop' else None
    def stopper(rows):
        # a step placed after the checkpoint that stops reading each resource after stop_at rows
        for i, r in enumerate(rows):
            if stop_at is not None and i >= stop_at:
                break
            yield r
    def tail(package):
        yield package.pkg
        yield from package
        if fail_at == 'end':
            raise RuntimeError('injected at exhaustion')
    steps = [[dict(r) for r in rows] or [{'a': None}][:0] for rows in pkg]
    import io, contextlib
    res = None
    try:
        with contextlib.redirect_stdout(io.StringIO()):
            srcs = []
            for i, rows in enumerate(pkg):
                srcs.append((failing_source(rows) if i == 0 and src_at is not None else rows) if rows else [])
            flow = Flow(*[s for s in srcs if True], rowstep, up, tail, checkpoint('c', checkpoint_path=%(dir)r), down, stopper) if pkg else Flow(up, tail, checkpoint('c', checkpoint_path=%(dir)r))
            if retry_at is not None:
                # the same Flow object is run again after a failed first attempt (a retry loop)
                try:
                    flow.results()
                    first = 'returned'
                except Exception as e1:
                    first = 'raised'
                    if stale:
                        kept.append(e1)
                attempts[0] = 1
                count[0] = 0
                res = flow.results()[0]
                extra_out = {'first': first}
                del kept[:]
                import gc
                gc.collect()
            else:
                res = flow.results()[0]
                extra_out = {}
        print(json.dumps(dict({'ops': ops, 'res': res}, **extra_out)))
    except Exception as e:
        print(json.dumps({'ops': ops, 'error': type(e).__name__ + ': ' + str(e)[:200]}))
''')


def other_fs_tmp(d):
    try:
        base = '/dev/shm'
        probe = d
        while not os.path.exists(probe):
            probe = os.path.dirname(probe)
        if os.path.isdir(base) and os.access(base, os.W_OK) and os.stat(base).st_dev != os.stat(probe).st_dev:
            t = os.path.join(base, 'verif_c08_%s' % digest(os.path.abspath(d)))
            os.makedirs(t, exist_ok=True)
            return t
    except OSError:
        pass
    return None


def child(pkg, d, kill_at=None, fail_at=None):
    code = CHILD % {'repo': REPO, 'kill_at': kill_at, 'fail_at': fail_at, 'pkg': pkg, 'dir': d}
    env = dict(os.environ, PYTHONHASHSEED='0', PYTHONPATH=REPO)
    # the directory for temporary files lies on another file system than the checkpoint (a legitimate set-up: nothing the
    # checkpoint does may depend on where temporary files go)
    other = other_fs_tmp(d)
    if other:
        env['TMPDIR'] = other
    try:
        p = subprocess.run([PY, '-c', code], stdout=subprocess.PIPE, stderr=subprocess.PIPE, text=True, timeout=120, env=env)
    finally:
        if other:
            shutil.rmtree(other, ignore_errors=True)
    out = None
    for line in p.stdout.splitlines():
        if line.startswith('{'):
            out = json.loads(line)
    return p.returncode, out, p.stderr[-500:]


def gen_cases(rng, tier):
    shapes = {'quick': [[], [2], [1, 0], [0, 0, 1], [2, 1, 3]],
              'thorough': [[], [0], [1], [2], [5], [1, 0], [0, 1], [3, 2], [0, 0, 1], [2, 1, 3], [5, 5, 5], [120], [40, 0, 17]],
              'search': [[2], [1, 0], [3, 2], [2, 1, 3], [5, 5]]}[tier]
    cases = []
    for sh in shapes:
        # every row of a package needs a non-empty first resource row for type inference; rows are small dicts
        pkg = [[{'a': 10 * i + j, 's': 'x%d' % j} for j in range(n)] for i, n in enumerate(sh)]
        # iterable sources with zero rows give a resource without fields; keep them (empty resources are in the property)
        cases.append({'kind': 'crash', 'pkg': pkg, 'shape': sh})
    # a source that fails before, at and after the end of the 100-row inference sample, and steps placed after the
    # checkpoint failing while the checkpoint is being written (no kill enumeration for these larger packages)
    for sh in ([[130]] if tier != 'thorough' else [[130], [101, 3], [250]]):
        pkg = [[{'a': 10 * i + j, 's': 'x%d' % j} for j in range(n)] for i, n in enumerate(sh)]
        n0 = sh[0]
        cases.append({'kind': 'faults', 'pkg': pkg, 'shape': sh,
                      'points': [['src', k] for k in sorted(set(k for k in [0, 50, 99, 100, 101, n0 - 10, n0 - 1] if 0 <= k < n0))] +
                                [['down', k] for k in (0, 7, n0 - 1)]})
    return cases


def expected_ops(pkg):
    ops = ['mkdir', 'open', 'write', 'flush']
    for rows in pkg:
        for _ in rows:
            ops += ['write', 'flush']
        ops += ['sep', 'flush']
    return ops + ['close', 'rename']


def run_impl(case):
    pkg = case['pkg']
    base = os.path.join(scratch(), 'c8_%s' % digest(case))
    os.makedirs(base, exist_ok=True)
    d0 = os.path.join(base, 'clean')
    rc, clean, err = child(pkg, d0)
    if clean is None or 'error' in clean:
        return {'error': 'clean run failed: %r %s' % (clean, err)}
    ops = clean['ops']
    final = os.path.join(d0, 'c', 'stream.ndjson')
    out = {'ops': ops, 'clean': clean['res'], 'final_after_clean': os.path.exists(final), 'kills': [], 'fails': []}
    content = open(final).read() if os.path.exists(final) else None
    out['clean_lines_blank'] = [len(l) == 0 for l in content.split('\n')[:-1]] if content is not None else None

    def one_kill(k):
        d = os.path.join(base, 'k%d' % k)
        rc, o, err = child(pkg, d, kill_at=k)
        f = os.path.join(d, 'c', 'stream.ndjson')
        exists = os.path.exists(f)
        same = exists and open(f).read() == content
        rc2, again, err2 = child(pkg, d)
        return {'k': k, 'rc': rc, 'final_exists': exists, 'final_complete': same,
                'rerun': (again or {}).get('res'), 'rerun_error': (again or {}).get('error', None if again else err2),
                'rerun_ops': len((again or {}).get('ops', []))}
    with ThreadPoolExecutor(max_workers=12) as ex:
        out['kills'] = list(ex.map(one_kill, range(len(ops)))) if case['kind'] == 'crash' else []

    nrows = sum(len(r) for r in pkg)

    def one_fail(fa):
        d = os.path.join(base, 'f%s' % (fa if not isinstance(fa, list) else '_'.join(map(str, fa))))
        rc, o, err = child(pkg, d, fail_at=fa)
        f = os.path.join(d, 'c', 'stream.ndjson')
        exists = os.path.exists(f)
        rc2, again, err2 = child(pkg, d)
        r = {'at': fa, 'raised': bool(o and 'error' in o), 'final_exists': exists, 'rerun': (again or {}).get('res'),
             'rerun_error': (again or {}).get('error')}
        if isinstance(fa, list) and fa[0] == 'stop':
            r['stop'] = {'error': (o or {}).get('error'), 'first': (o or {}).get('res')}
        if isinstance(fa, list) and fa[0] in ('retry', 'retry2', 'retry3'):
            r['retry'] = {'first': (o or {}).get('first'), 'second': (o or {}).get('res'), 'error': (o or {}).get('error')}
        return r
    with ThreadPoolExecutor(max_workers=12) as ex:
        if case['kind'] == 'crash':
            # steps before the checkpoint at every row and at exhaustion; a step after it at every row
            points = list(range(nrows)) + ['end'] + [['down', k] for k in range(nrows)] + [['retry', k] for k in range(nrows)] + [['retry2', k] for k in range(1, nrows)] + [['retry3', k] for k in range(1, nrows)] + [['stop', k] for k in (0, 1)] + [['rowstop', k] for k in range(nrows)]
        else:
            points = case['points']
        out['fails'] = list(ex.map(one_fail, points))
    shutil.rmtree(base, ignore_errors=True)
    return out


def oracle(case, out):
    if 'error' in out:
        return out['error']
    if not out['final_after_clean']:
        return 'a clean run did not leave a checkpoint'
    n = len(out['ops'])
    for kk in out['kills']:
        if kk['final_exists'] and not kk['final_complete']:
            return 'killed before file operation #%d of %d: an incomplete stream.ndjson exists' % (kk['k'], n)
        if kk['rerun_error'] or kk['rerun'] != out['clean']:
            return 'killed before file operation #%d of %d: the next run %s' % (
                kk['k'], n, 'failed: %s' % kk['rerun_error'] if kk['rerun_error'] else 'returned a different result than an uninterrupted run')
        if kk['final_exists'] and kk['k'] < n - 1:
            return 'killed before file operation #%d of %d: stream.ndjson already exists' % (kk['k'], n)
    for ff in out['fails']:
        if 'stop' in ff:
            # a later step stopped reading early: the run succeeds, and the checkpoint it leaves must be the complete data
            if ff['stop']['error']:
                return 'a later step that stops reading after %d rows made the run fail: %s' % (ff['at'][1], ff['stop']['error'])
            if not ff['final_exists'] or ff['rerun_error'] or ff['rerun'] != out['clean']:
                return 'a later step stopped reading each resource after %d rows: the checkpoint that run left does not hold the complete data (next run: %s)' % (
                    ff['at'][1], ff['rerun_error'] or [len(x) for x in (ff['rerun'] or [])])
            continue
        if 'retry' in ff:
            rt = ff['retry']
            if rt['error'] or rt['first'] != 'raised':
                return 'retry after a failure at row %r: first attempt %r, second attempt error %r' % (ff['at'][1], rt['first'], rt['error'])
            if rt['second'] != out['clean']:
                return 'the same Flow object run again after a failed attempt (at row %r) returned a different result than an uninterrupted run' % (ff['at'][1],)
            if not ff['final_exists'] or ff['rerun_error'] or ff['rerun'] != out['clean']:
                return 'after a failed attempt (at row %r) and a successful retry of the same Flow object, the next run does not reproduce the uninterrupted result (%s)' % (
                    ff['at'][1], ff['rerun_error'] or 'different rows')
            continue
        if not ff['raised']:
            return 'a step failing at %r did not fail the run' % (ff['at'],)
        if ff['final_exists']:
            return 'a step failed at %r while the checkpoint was being written, yet stream.ndjson exists' % (ff['at'],)
        if ff['rerun_error'] or ff['rerun'] != out['clean']:
            return 'after a step failure at %r the next run does not reproduce the uninterrupted result' % (ff['at'],)
    return None


def coq_term(case, out):
    if 'error' in out:
        return None
    kinds = {'mkdir': 0, 'open': 1, 'write': 2, 'flush': 3, 'sep': 4, 'close': 5, 'rename': 6}
    # model operation kinds: WriteFlush = write+flush
    shape = clist([clist(['tt'] * len(r)) for r in case['pkg']])
    obs = clist([cZ(kinds[o]) for o in out['ops']])
    model = ('flat_map (fun o => match o with Mkdir => [0] | OpenTrunc _ => [1] | WriteFlush _ [] => [4; 3] | WriteFlush _ _ => [2; 3] | WriteBuffered _ _ => [4] '
             '| Close _ => [5] | Rename _ _ => [6] end) (stream_ops unit unit (fun _ => [1]) (fun _ => [1]) [1] [2] (tt, %s))') % shape
    t = 'list_eqb Z.eqb (%s) %s' % (model, obs)
    # crash states: the model says the final name exists after k operations iff k covers the rename
    flags = clist([cbool(kk['final_exists']) for kk in out['kills']])
    # index of model op for each real op index k (write+flush are one model op: killed before the flush = the write is not durable)
    t += (' && list_eqb Bool.eqb (map (fun k => match fs_get (files (crash_state unit unit (fun _ => [1]) (fun _ => [1]) [1] [2] (tt, %s) k '
          '{| files := []; buffered := [] |})) [1] with Some _ => true | None => false end) (seq 0 (List.length (stream_ops unit unit (fun _ => [1]) (fun _ => [1]) [1] [2] (tt, %s))))) '
          '(map (fun _ => false) (seq 0 (List.length (stream_ops unit unit (fun _ => [1]) (fun _ => [1]) [1] [2] (tt, %s)))))') % (shape, shape, shape)
    t += ' && forallb negb %s' % flags
    return t


def nontrivial(case, out):
    return True


def evidence_extra(case, out):
    return {'kill_points': len(out.get('kills', [])), 'fail_points': len(out.get('fails', []))}
