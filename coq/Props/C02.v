(* C02: emitted rows always agree with the emitted descriptor. *)
From Coq Require Import List ZArith Bool Permutation.
From DF Require Import Base.Str Base.ListX Base.Value Proc.RowOps Proc.RowOps_proofs Proc.Fields Proc.Fields_proofs Proc.Resources Proc.Resources_proofs
     Proc.Validate Proc.Validate_proofs Proc.Join Proc.ConcatSchema_proofs Frame.WF Gen.Consts Base.Lits.
Import ListNotations.
Open Scope Z_scope.

(* a pipeline of any length preserves well-formedness if each of its steps does *)
Theorem C02_wf_pipeline : forall steps : list (pkg -> pkg),
  Forall (fun f => forall p, pkg_wf p -> pkg_wf (f p)) steps ->
  forall p, pkg_wf p -> pkg_wf (fold_left (fun acc f => f acc) steps p).
Proof. exact wf_pipeline. Qed.
Print Assumptions C02_wf_pipeline.

(* resource level *)
Theorem C02_wf_delete_resource : forall sel p, pkg_wf p -> pkg_wf (delete_resource sel p).
Proof. exact wf_delete_resource. Qed.
Print Assumptions C02_wf_delete_resource.
Theorem C02_wf_append_sources : forall p new,
  pkg_wf p -> pkg_wf new -> (forall n, In n (map r_name p) -> In n (map r_name new) -> False) -> pkg_wf (append_resources p new).
Proof. exact wf_append. Qed.
Print Assumptions C02_wf_append_sources.
Theorem C02_wf_filter_dedup : forall r rows',
  res_wf r -> subseq rows' (r_rows r) ->
  res_wf {| r_name := r_name r; r_path := r_path r; r_fields := r_fields r; r_pk := r_pk r; r_rows := rows' |}.
Proof. exact wf_rows_subseq. Qed.
Print Assumptions C02_wf_filter_dedup.
Theorem C02_wf_sort : forall r rows',
  res_wf r -> (forall x, In x rows' -> In x (r_rows r)) ->
  res_wf {| r_name := r_name r; r_path := r_path r; r_fields := r_fields r; r_pk := r_pk r; r_rows := rows' |}.
Proof. exact wf_rows_perm. Qed.
Print Assumptions C02_wf_sort.

(* field level: rows carry only declared fields after select/delete, add, rename, concatenate, unpivot *)
Theorem C02_wf_select_delete : forall keep names r, (forall k, In k keep -> In k names) -> row_fits keep (keep_keys keep r).
Proof. exact wf_keep_keys. Qed.
Print Assumptions C02_wf_select_delete.
Theorem C02_wf_add_field : forall names r t v, row_fits names r -> row_fits (names ++ [t]) (rset r t v).
Proof. exact wf_add_field. Qed.
Print Assumptions C02_wf_add_field.
Theorem C02_wf_rename : forall m r,
  NoDup (map (ren m) (rkeys r)) -> forall names, row_fits names r -> row_fits (map (ren m) names) (rename_row m r).
Proof. exact wf_rename. Qed.
Print Assumptions C02_wf_rename.
Theorem C02_wf_concatenate : forall m targets r o,
  (forall a b, Resources.lookup_str m a = Some b -> In b targets) -> concat_row m targets r = Ok o -> row_fits targets o.
Proof. exact wf_concat_row. Qed.
Print Assumptions C02_wf_concatenate.
Theorem C02_wf_unpivot : forall keep vn r pf names,
  (forall k, In k (rkeys (snd pf)) -> In k names) -> (forall k, In k keep -> In k names) -> In vn names ->
  row_fits names (cell_spec keep vn r pf).
Proof. exact wf_unpivot_cell. Qed.
Print Assumptions C02_wf_unpivot.

(* values: after set_type / validate every emitted checked value is the cast of the incoming one (hence valid) *)
Theorem C02_values_are_casts : forall cast fields r f, NoDup fields -> In f fields ->
  rget0 (cast_row cast fields r) f = match cast f (rget0 r f) with Some v => v | None => rget0 r f end.
Proof. exact cast_row_field. Qed.
Print Assumptions C02_values_are_casts.

(* join: the declared types of aggregate fields (regenerated from the source) fit the values the aggregates produce *)
Theorem C02_join_declared_types_fit :
  value_fits (join_field_type c_join_aggs GAvg s_integer) (VFlt 3 (-1)) = true /\
  value_fits (join_field_type c_join_aggs GMedian s_integer) (VFlt 3 (-1)) = true /\
  value_fits (join_field_type c_join_aggs GCount s_string) (VInt 2) = true /\
  value_fits (join_field_type c_join_aggs GCounters s_string) (VList []) = true.
Proof. vm_compute. repeat split; reflexivity. Qed.
Print Assumptions C02_join_declared_types_fit.

(* the executable check used on the implementation's output is sound for the property *)
(* concatenate, for every field specification it accepts, every selection and all rows: each emitted row carries exactly
   the fields the target's descriptor declares, and the target's primary key names declared fields *)
Theorem C02_concatenate_rows_agree_with_descriptor : forall fields m selected rows out,
  build_mapping fields [] = Ok m ->
  concat_rows m (map fst fields) rows = Ok out ->
  let sch := concat_schema m (map fst fields) selected in
  Forall (fun o => Permutation (rkeys o) (map fst (fst sch))) out /\ incl (snd sch) (map fst (fst sch)).
Proof. exact concat_target_agrees. Qed.
Print Assumptions C02_concatenate_rows_agree_with_descriptor.

Theorem C02_check_sound : forall p, pkg_wf_b p = true -> pkg_wf p.
Proof. exact pkg_wf_b_sound. Qed.
Print Assumptions C02_check_sound.
