From Coq Require Import List ZArith Bool Lia.
From DF Require Import Base.Str Base.Str_proofs Base.ListX Base.Value Base.Value_proofs Proc.RowOps.
Import ListNotations.
Open Scope Z_scope.

(* ================= filter_rows ================= *)

Lemma filter_loop_spec cond c rows :
  (forall r, In r rows -> cond r = Ok (c r)) ->
  filter_loop cond rows = Ok (filter c rows).
Proof.
  induction rows as [|r rs IH]; intros H; simpl; [reflexivity|].
  rewrite (H r (or_introl eq_refl)). rewrite IH by (intros; apply H; right; assumption).
  reflexivity.
Qed.

Lemma filter_loop_err cond rows code :
  filter_loop cond rows = Err code -> exists r, In r rows /\ cond r = Err code.
Proof.
  induction rows as [|r rs IH]; simpl; [discriminate|].
  destruct (cond r) as [b|c] eqn:E.
  - destruct (filter_loop cond rs) as [out|c] eqn:F; [discriminate|].
    intros H. injection H as ->. destruct (IH eq_refl) as [r' [Hin Hc]]. exists r'. auto.
  - intros H. injection H as ->. exists r. auto.
Qed.

Lemma filter_loop_subseq cond rows out :
  filter_loop cond rows = Ok out -> subseq out rows.
Proof.
  revert out; induction rows as [|r rs IH]; simpl; intros out H.
  - injection H as <-. constructor.
  - destruct (cond r) as [b|c]; [|discriminate].
    destruct (filter_loop cond rs) as [o|c]; [|discriminate].
    injection H as <-. destruct b; [apply ss_keep|apply ss_skip]; apply IH; reflexivity.
Qed.

Definition cond_holds (neg : bool) (r : row) (kv : str * value) : bool :=
  xorb neg (py_eq (rget0 r (fst kv)) (snd kv)).

Lemma any_cond_spec neg conds r :
  (forall kv, In kv conds -> rhas r (fst kv) = true) ->
  any_cond neg conds r = Ok (existsb (cond_holds neg r) conds).
Proof.
  induction conds as [|[k v] cs IH]; intros H; simpl; [reflexivity|].
  pose proof (H (k, v) (or_introl eq_refl)) as Hk. simpl in Hk.
  apply rhas_rget in Hk as [x Hx]. rewrite Hx.
  unfold cond_holds at 1. simpl. unfold rget0. rewrite Hx.
  destruct (xorb neg (py_eq x v)); simpl; [reflexivity|].
  apply IH. intros kv Hin. apply H. right. exact Hin.
Qed.

(* the documented meaning: any-of equals OR any-of not_equals *)
Lemma old_style_spec equals not_equals r :
  (forall kv, In kv (equals ++ not_equals) -> rhas r (fst kv) = true) ->
  old_style equals not_equals r =
  Ok (existsb (cond_holds false r) equals || existsb (cond_holds true r) not_equals).
Proof.
  intros H. unfold old_style.
  rewrite any_cond_spec by (intros; apply H; apply in_or_app; auto).
  destruct (existsb (cond_holds false r) equals); simpl; [reflexivity|].
  apply any_cond_spec. intros; apply H; apply in_or_app; auto.
Qed.

(* ================= deduplicate ================= *)

Section Dedup.
  Variable pk : list str.
  Variable kf : row -> list value.

  Definition keyed (rows : list row) := forall r, In r rows -> key_of pk r = Ok (kf r).

  (* every emitted row is new w.r.t. [seen] and all rows emitted before it *)
  Fixpoint fresh_chain (seen : list (list value)) (out : list row) : Prop :=
    match out with
    | [] => True
    | r :: o => key_in (kf r) seen = false /\ fresh_chain (kf r :: seen) o
    end.

  Lemma dedup_subseq seen rows out :
    keyed rows -> dedup_loop pk seen rows = Ok out -> subseq out rows.
  Proof.
    revert seen out; induction rows as [|r rs IH]; intros seen out K H; simpl in H.
    - injection H as <-. constructor.
    - rewrite (K r (or_introl eq_refl)) in H.
      assert (K' : keyed rs) by (intros x Hx; apply K; right; exact Hx).
      destruct (key_in (kf r) seen).
      + apply ss_skip. eapply IH; eassumption.
      + destruct (dedup_loop pk (kf r :: seen) rs) as [o|c] eqn:E; [|discriminate].
        injection H as <-. apply ss_keep. eapply IH; eassumption.
  Qed.

  Lemma dedup_fresh seen rows out :
    keyed rows -> dedup_loop pk seen rows = Ok out -> fresh_chain seen out.
  Proof.
    revert seen out; induction rows as [|r rs IH]; intros seen out K H; simpl in H.
    - injection H as <-. exact I.
    - rewrite (K r (or_introl eq_refl)) in H.
      assert (K' : keyed rs) by (intros x Hx; apply K; right; exact Hx).
      destruct (key_in (kf r) seen) eqn:S.
      + eapply IH; eassumption.
      + destruct (dedup_loop pk (kf r :: seen) rs) as [o|c] eqn:E; [|discriminate].
        injection H as <-. simpl. split; [exact S|]. eapply IH; eassumption.
  Qed.

  Lemma dedup_fixed seen out :
    keyed out -> fresh_chain seen out -> dedup_loop pk seen out = Ok out.
  Proof.
    revert seen; induction out as [|r o IH]; intros seen K F; simpl; [reflexivity|].
    rewrite (K r (or_introl eq_refl)). destruct F as [F1 F2]. rewrite F1.
    rewrite IH; [reflexivity| |exact F2]. intros x Hx; apply K; right; exact Hx.
  Qed.

  (* applying deduplicate twice changes nothing *)
  Lemma dedup_idempotent rows out :
    keyed rows -> dedup_loop pk [] rows = Ok out -> dedup_loop pk [] out = Ok out.
  Proof.
    intros K H. apply dedup_fixed.
    - intros r Hr. apply K. eapply subseq_In; [eapply dedup_subseq; eassumption|exact Hr].
    - eapply dedup_fresh; eassumption.
  Qed.

  (* every input row's key is represented among seen ++ emitted keys *)
  Lemma dedup_covers seen rows out :
    (forall k, key_eq k k = true) ->
    keyed rows -> dedup_loop pk seen rows = Ok out ->
    forall r, In r rows -> key_in (kf r) (map kf (rev out) ++ seen) = true.
  Proof.
    intros Hrefl. revert seen out; induction rows as [|r rs IH]; intros seen out K H x Hx; simpl in H.
    - destruct Hx.
    - rewrite (K r (or_introl eq_refl)) in H.
      assert (K' : keyed rs) by (intros y Hy; apply K; right; exact Hy).
      destruct (key_in (kf r) seen) eqn:S.
      + destruct Hx as [<-|Hx].
        * unfold key_in in *. rewrite existsb_app. rewrite S. apply orb_true_r.
        * eapply IH; eassumption.
      + destruct (dedup_loop pk (kf r :: seen) rs) as [o|c] eqn:E; [|discriminate].
        injection H as <-. simpl. rewrite map_app. simpl. rewrite <- app_assoc. simpl.
        destruct Hx as [<-|Hx].
        * unfold key_in. rewrite existsb_app. simpl. rewrite Hrefl. simpl. apply orb_true_r.
        * eapply IH; eassumption.
  Qed.

  (* Exact characterisation under an equivalence: the loop keeps row i iff no
     earlier row (kept or not) has an equal key. *)
  Fixpoint first_occ (before : list row) (rows : list row) : list row :=
    match rows with
    | [] => []
    | r :: rs =>
        if existsb (fun p => key_eq (kf r) (kf p)) before
        then first_occ (before ++ [r]) rs
        else r :: first_occ (before ++ [r]) rs
    end.

  Hypothesis key_sym : forall a b, key_eq a b = key_eq b a.
  Hypothesis key_trans : forall a b c, key_eq a b = true -> key_eq b c = true -> key_eq a c = true.

  Lemma dedup_first_occ_gen seen before rows :
    keyed rows ->
    (forall k, key_in k seen = existsb (fun p => key_eq k (kf p)) before) ->
    dedup_loop pk seen rows = Ok (first_occ before rows).
  Proof.
    revert seen before; induction rows as [|r rs IH]; intros seen before K Inv; simpl; [reflexivity|].
    rewrite (K r (or_introl eq_refl)).
    assert (K' : keyed rs) by (intros y Hy; apply K; right; exact Hy).
    rewrite Inv. destruct (existsb (fun p => key_eq (kf r) (kf p)) before) eqn:S.
    - apply IH; [exact K'|]. intros k. rewrite Inv, existsb_app. simpl. rewrite orb_false_r.
      destruct (key_eq k (kf r)) eqn:Ek; [|rewrite orb_false_r; reflexivity].
      rewrite orb_true_r. apply existsb_exists in S as [p [Hp Ep]].
      apply existsb_exists. exists p. split; [exact Hp|]. eapply key_trans; eassumption.
    - rewrite (IH (kf r :: seen) (before ++ [r])); [reflexivity|exact K'|].
      intros k. rewrite existsb_app. simpl. rewrite orb_false_r, Inv.
      apply orb_comm.
  Qed.

  Theorem dedup_first_occurrences_sec rows :
    keyed rows -> dedup_loop pk [] rows = Ok (first_occ [] rows).
  Proof. intros K. apply dedup_first_occ_gen; [exact K|reflexivity]. Qed.
End Dedup.

Lemma deduper_no_pk rows : deduper [] rows = Ok rows.
Proof. reflexivity. Qed.

(* ================= unpivot ================= *)

Definition kept_spec (keep : list str) (r : row) (acc : row) : row :=
  fold_left (fun a f => rset a f (rget0 r f)) keep acc.

Definition cell_spec (keep : list str) (vn : str) (r : row) (pf : str * row) : row :=
  rset (kept_spec keep r (snd pf)) vn (rget0 r (fst pf)).

Definition has_all (keep : list str) (r : row) : Prop := forall f, In f keep -> rhas r f = true.

Lemma copy_kept_spec keep r acc :
  has_all keep r -> copy_kept keep r acc = Ok (kept_spec keep r acc).
Proof.
  revert acc; induction keep as [|f fs IH]; intros acc H; simpl; [reflexivity|].
  pose proof (H f (or_introl eq_refl)) as Hf. apply rhas_rget in Hf as [v Hv].
  rewrite Hv. unfold rget0 at 1. rewrite Hv. apply IH. intros g Hg. apply H. right. exact Hg.
Qed.

Lemma unpivot_row_spec piv keep vn r :
  has_all keep r -> unpivot_row piv keep vn r = Ok (map (cell_spec keep vn r) piv).
Proof.
  intros H. induction piv as [|pf ps IH]; simpl; [reflexivity|].
  unfold unpivot_cell. rewrite copy_kept_spec by exact H. rewrite IH. reflexivity.
Qed.

(* one output row per (input row, unpivoted field), rows in order, fields in spec order *)
Lemma unpivot_rows_spec piv keep vn rows :
  (forall r, In r rows -> has_all keep r) ->
  unpivot_rows piv keep vn rows = Ok (flat_map (fun r => map (cell_spec keep vn r) piv) rows).
Proof.
  induction rows as [|r rs IH]; intros H; simpl; [reflexivity|].
  rewrite unpivot_row_spec by (apply H; left; reflexivity).
  rewrite IH by (intros; apply H; right; assumption). reflexivity.
Qed.

Lemma cell_value keep vn r pf : rget0 (cell_spec keep vn r pf) vn = rget0 r (fst pf).
Proof. unfold cell_spec. apply rget0_rset_same. Qed.

(* no cell is lost or invented: the value column of the output is exactly the
   row-major list of the unpivoted cells *)
Lemma unpivot_cells_conserved piv keep vn rows :
  map (fun o => rget0 o vn) (flat_map (fun r => map (cell_spec keep vn r) piv) rows)
  = flat_map (fun r => map (fun pf => rget0 r (fst pf)) piv) rows.
Proof.
  induction rows as [|r rs IH]; simpl; [reflexivity|].
  rewrite map_app, IH. f_equal. rewrite map_map. apply map_ext. intros pf. apply cell_value.
Qed.

Lemma unpivot_count {A B} (piv : list A) (g : row -> A -> B) rows :
  length (flat_map (fun r => map (g r) piv) rows) = (length rows * length piv)%nat.
Proof. induction rows as [|r rs IH]; simpl; [reflexivity|]. rewrite app_length, map_length, IH. lia. Qed.

(* kept fields carry the source row's values (when the kept name is not the value column
   and is not overwritten by a later kept name -- names are unique) *)
Lemma kept_spec_preserve keep r a f :
  ~ In f keep -> rget0 (kept_spec keep r a) f = rget0 a f.
Proof.
  revert a; induction keep as [|g gs IH]; intros a Hn; simpl; [reflexivity|].
  rewrite IH by (intros X; apply Hn; right; exact X).
  apply rget0_rset_other. intros ->. apply Hn. left. reflexivity.
Qed.

Lemma kept_spec_get keep r acc f :
  In f keep -> rget0 (kept_spec keep r acc) f = rget0 r f.
Proof.
  revert acc; induction keep as [|g gs IH]; intros acc Hin; [destruct Hin|].
  simpl. destruct (in_dec (list_eq_dec Z.eq_dec) f gs) as [Hgs|Hgs].
  - apply IH, Hgs.
  - destruct Hin as [->|Hin]; [|contradiction].
    rewrite kept_spec_preserve by exact Hgs. apply rget0_rset_same.
Qed.

Lemma cell_kept keep vn r pf f :
  In f keep -> f <> vn -> rget0 (cell_spec keep vn r pf) f = rget0 r f.
Proof.
  intros Hin Hne. unfold cell_spec. rewrite rget0_rset_other by exact Hne. apply kept_spec_get, Hin.
Qed.

(* the package phase partitions the field names: each is unpivoted or kept, never both/neither *)
Lemma unpivot_config_partition specs fields f :
  In f fields <->
  In f (map fst (fst (unpivot_config specs fields))) \/ In f (snd (unpivot_config specs fields)).
Proof.
  revert fields; induction specs as [|u us IH]; intros fields; simpl.
  - tauto.
  - pose proof (IH (filter (fun g => negb (u_match u g)) fields)) as IH'.
    destruct (unpivot_config us (filter (fun g => negb (u_match u g)) fields)) as [piv keep].
    simpl in *. rewrite map_app, in_app_iff, map_map. simpl. rewrite map_id.
    rewrite filter_In. rewrite filter_In in IH'.
    destruct (u_match u f); simpl in *; intuition discriminate.
Qed.

Lemma unpivot_config_count specs fields :
  (length (fst (unpivot_config specs fields)) + length (snd (unpivot_config specs fields)) = length fields)%nat.
Proof.
  revert fields; induction specs as [|u us IH]; intros fields; simpl; [reflexivity|].
  destruct (unpivot_config us (filter (fun g => negb (u_match u g)) fields)) as [piv keep] eqn:E.
  simpl. specialize (IH (filter (fun g => negb (u_match u g)) fields)). rewrite E in IH. simpl in IH.
  rewrite app_length, map_length.
  assert (P : forall l, (length (filter (u_match u) l) + length (filter (fun g => negb (u_match u g)) l) = length l)%nat).
  { induction l as [|x l IHl]; simpl; [reflexivity|]. destruct (u_match u x); simpl; lia. }
  specialize (P fields). lia.
Qed.

(* kept fields stay in original order *)
Lemma unpivot_config_keep_subseq specs fields :
  subseq (snd (unpivot_config specs fields)) fields.
Proof.
  revert fields; induction specs as [|u us IH]; intros fields; simpl; [apply subseq_refl|].
  destruct (unpivot_config us (filter (fun g => negb (u_match u g)) fields)) as [piv keep] eqn:E.
  simpl. specialize (IH (filter (fun g => negb (u_match u g)) fields)). rewrite E in IH. simpl in IH.
  clear E. revert keep IH. generalize (fun g => negb (u_match u g)) as p. intros p.
  induction fields as [|x l IHl]; simpl; intros keep H; [exact H|].
  destruct (p x).
  - inversion H; subst; [apply ss_skip|apply ss_keep]; auto.
  - apply ss_skip. apply IHl, H.
Qed.
