#!/usr/bin/env python3
"""Files the confirmed seeded changes under /verif/seeded/<prop>-<k>/ and records which check catches which change."""
import os, sys, json, subprocess, glob, shutil, re
V = os.path.dirname(os.path.dirname(os.path.abspath(__file__)))
logs = {}
for f in sorted(glob.glob('/var/tmp/verify_seed_*.log'), key=os.path.getmtime):
    for line in open(f):
        line = line.strip()
        if line.startswith('{'):
            d = json.loads(line)
            logs[d['dir']] = d
only = sys.argv[1:] 
for src in sorted(glob.glob(os.path.join(V, 'seeded', '_incoming', 'C*', 'change*'))):
    prop = src.split('/')[-2]
    k = re.search(r'change(\d+)$', src).group(1)
    sid = '%s-%s' % (prop, k)
    if only and sid not in only and prop not in only:
        continue
    dst = os.path.join(V, 'seeded', sid)
    os.makedirs(dst, exist_ok=True)
    for fn in ('patch.diff', 'demo.py', 'notes.txt'):
        if os.path.exists(os.path.join(src, fn)):
            shutil.copy(os.path.join(src, fn), os.path.join(dst, fn))
    conf = logs.get(src, {})
    p = subprocess.run([os.path.join(V, 'tools', 'try_patch.sh'), os.path.join(dst, 'patch.diff'), prop], stdout=subprocess.PIPE, stderr=subprocess.STDOUT, text=True,
                       env=dict(os.environ, SEED_REPLAY_DIR='/var/tmp/seed_replays/%s' % sid))
    out = p.stdout
    viol = re.findall(r'VIOLATION property=(\S+) replay=(\S+)( no-failing-input-found)?', out)
    notes = open(os.path.join(dst, 'notes.txt')).read() if os.path.exists(os.path.join(dst, 'notes.txt')) else ''
    meta = {'id': sid, 'breaks_property': prop,
            'what_it_needs': notes[:1500],
            'confirmed': {'patch_applies_to_repo_head': conf.get('applies'), 'demo_exit_code_unpatched': conf.get('demo_clean_rc'),
                          'demo_exit_code_patched': conf.get('demo_patched_rc'), 'test_suite_with_patch': conf.get('suite'),
                          'how': 'tools/verify_seed.sh: scratch git worktree of /repo HEAD under /tmp, demo.py run before and after git apply, pinned test suite run with the patch; worktree removed afterwards'},
            'ran': 'tools/try_patch.sh seeded/%s/patch.diff %s  (scratch copies of /repo/dataflows with the patch applied and of /verif under /var/tmp, VERIF_REPO pointing at the former, ./check %s --tier quick run in the latter)' % (sid, prop, prop),
            'caught': bool(viol), 'caught_with_failing_input': any(not v[2] for v in viol),
            'check_summary': out.strip().splitlines()[-1] if out.strip() else ''}
    json.dump(meta, open(os.path.join(dst, 'meta.json'), 'w'), indent=1)
    print(sid, 'caught' if viol else 'MISSED', '(concrete input)' if meta['caught_with_failing_input'] else '', flush=True)
