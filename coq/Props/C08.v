(* C08: an interrupted checkpoint is never used. *)
From Coq Require Import List ZArith Bool.
From DF Require Import Base.Str Base.ListX Base.Value IO.Stream IO.Stream_proofs Gen.Consts.
Import ListNotations.
Open Scope Z_scope.

(* killed after any number k of file operations short of the final rename, stream.ndjson does not exist *)
Theorem C08_crash_prefix_no_checkpoint : forall (D R : Type) (encD : D -> line) (encR : R -> line) final active,
  active <> final -> forall p k s0,
  fs_get (files s0) final = None -> (k < length (stream_ops D R encD encR final active p))%nat ->
  fs_get (files (crash_state D R encD encR final active p k s0)) final = None.
Proof. exact crash_prefix_no_checkpoint. Qed.
Print Assumptions C08_crash_prefix_no_checkpoint.

(* a checkpoint that is picked up is always complete *)
Theorem C08_picked_up_is_complete : forall (D R : Type) (encD : D -> line) (encR : R -> line) final active,
  active <> final -> forall p k s0 c,
  fs_get (files s0) final = None ->
  fs_get (files (crash_state D R encD encR final active p k s0)) final = Some c -> c = stream_lines D R encD encR p.
Proof. exact picked_up_is_complete. Qed.
Print Assumptions C08_picked_up_is_complete.

(* the next run after a crash at any point recomputes and leaves the complete checkpoint
   (the stale .active file is truncated) *)
Theorem C08_rerun_after_crash : forall (D R : Type) (encD : D -> line) (encR : R -> line) final active p k s0,
  fs_get (files (run_ops (stream_ops D R encD encR final active p) (crash_state D R encD encR final active p k s0))) final
  = Some (stream_lines D R encD encR p).
Proof. exact rerun_after_crash. Qed.
Print Assumptions C08_rerun_after_crash.

(* tie to the source: the temporary name differs from the final name because the
   suffix the code appends (regenerated constant) is not empty *)
(* nothing ever waits in the file object's buffer while a checkpoint is written: whenever a flow fails or the process dies
   between two operations, no bytes of the abandoned attempt are left that could reach the disk later (e.g. into a
   checkpoint committed by a retry) *)
Theorem C08_nothing_left_buffered : forall (D R : Type) (encD : D -> line) (encR : R -> line) final active p k s0,
  buffered s0 = [] -> buffered (run_ops (firstn k (stream_ops D R encD encR final active p)) s0) = [].
Proof. exact never_buffered. Qed.
Print Assumptions C08_nothing_left_buffered.

Theorem C08_active_name_differs : forall final, final ++ c_active_suffix <> final.
Proof. intros final. apply app_ne_self. discriminate. Qed.
Print Assumptions C08_active_name_differs.
