"""C15 Field-level processors change schema and rows in lockstep."""
import re, copy, functools
from common import *
import rx
from flowutil import *
import dataflows as DF

PROP = 'C15'
PROPS_V = 'Props/C15.v'
COQ_IMPORTS = ['Base.Str', 'Base.Value', 'Base.Regex', 'Proc.RowOps', 'Proc.Fields']
RULE = ('cases = generated tables (0-6 rows; field names incl. regex metacharacters and names that are prefixes of each '
        'other) x one of select/delete/rename/add_field/add_computed_field/find_replace with generated patterns '
        '(regex on/off), operations (constant,sum,avg,min,max,multiply,join,format,callable) with nulls; non-trivial = '
        'the step changes schema or rows, or raises; distinct = distinct case digest'
        '; round 4: find_replace templates with \\g<n>, \\g<name> and escapes; rename specifications whose earlier target is matched by a later entry'
        '; round 7: rename/select patterns whose alternatives are prefixes of field names, narrowing twice, every case also read after all resources were taken from the stream'
        '; round 8: rows reaching the step with their keys re-ordered; the same specification used just before with the other reading of the names (regex / literal)'
        '; round 9: field lists given as one-shot iterables over two selected resources (the second one is checked too); one select_fields object at two positions of a chain')
TRUSTED = ['Coq 8.16.1 kernel + vm_compute', 'harness/p15.py printers and oracle',
           'Python re decides which names a field pattern fully matches and computes substitutions (tables handed to the model)',
           'avg over integers is compared only where the quotient is an exact small dyadic rational (float printed exactly)']
ASSUMES = ['field patterns have no top-level alternation (the code anchors by string concatenation)',
           'rename targets do not collide with remaining field names (domain guard of the property)',
           'numeric computed operations are modelled over integers/booleans; Decimal/float sources are outside the model and checked by the oracle only']

NAMES = ['id', 'idx', 'name', 'nam', 'a.b', 'axb', 'a+b', 'v(1)', 'c1', 'c2', 'c10', 'n*', 'total']
VALS = [None, 0, 1, 2, 5, -3, 'x', 'yy', 'a b', 'é']
PATS = ['id', 'idx?', 'nam', 'name', r'a.b', r'a\.b', r'c\d', r'c\d+', r'c(\d+)', r'(id|name)', r'.*', r'[a-c].*', 'total', 'zz', r'v\(1\)', r'n\*', r'a\+b',
        # alternations at the top level of the pattern: the whole name must match one alternative
        'id|name', 'nam|total', r'c\d|id',
        # groups whose alternatives are prefixes of each other, and a group that can also match the empty string
        r'(id|idx)', r'(nam|name)', r'(.*)', r'(c1|c10)']


def gen_table(rng, typed=False):
    names = rng.sample(NAMES, rng.randint(2, 6))
    nrows = rng.randint(0, 6)
    if typed:
        kinds = dict((n, rng.pick(['int', 'str', 'int'])) for n in names)
        rows = [dict((n, rng.pick([None, 0, 1, 2, 5, -3, 8]) if kinds[n] == 'int' else rng.pick([None, 'x', 'yy', 'a b']))
                     for n in names) for _ in range(nrows)]
        types = dict((n, 'integer' if kinds[n] == 'int' else 'string') for n in names)
    else:
        rows = [dict((n, rng.pick(VALS)) for n in names) for _ in range(nrows)]
        types = dict((n, 'any') for n in names)
    return names, rows, types


def gen_cases(rng, tier):
    n = {'quick': 330, 'thorough': 3300, 'search': 1500}[tier]
    cases = []
    for i in range(n):
        k = ['select', 'delete', 'rename', 'computed', 'add_field', 'find_replace'][i % 6]
        names, rows, types = gen_table(rng, typed=(k in ('computed',)))
        c = {'kind': k, 'names': names, 'rows': rows_enc(rows), 'types': types, 'two': rng.chance(0.3)}
        c['_want_both'] = (k == 'computed') and not c['two'] and rng.chance(0.5)
        regex = rng.chance(0.6)
        c['regex'] = regex
        if k != 'computed':
            c.pop('_want_both', None)
        if k in ('select', 'delete'):
            if regex:
                c['fields'] = [rng.pick(PATS) for _ in range(rng.randint(1, 3))]
            else:
                c['fields'] = [rng.pick(names + ['zz']) for _ in range(rng.randint(1, 3))]
            if k == 'delete' and not c['two'] and len(names) >= 3 and rng.chance(0.5):
                cand = [n for n in names if not any((re.fullmatch(p, n) if regex else p == n) for p in c['fields'])]
                if cand and any((re.fullmatch(p, n) if regex else p == n) for p in c['fields'] for n in names if n != cand[-1]):
                    c['narrow2'] = cand[-1]
        elif k == 'rename':
            m = []
            for _ in range(rng.randint(1, 3)):
                if regex:
                    p = rng.pick(PATS)
                    g = re.compile(p).groups
                    t = rng.pick(['R', 'new_' , r'\1_x' if g else 'S', 'X' + str(rng.randint(0, 2))])
                    if rng.chance(0.5) and not (g and '\\1' in t):
                        t = t + rng.pick(['', r'\g<0>'])
                else:
                    p = rng.pick(names + ['zz'])
                    t = rng.pick(['R', 'S', 'new', names[0]])
                if p not in [a for a, _ in m]:
                    m.append([p, t])
            if rng.chance(0.25):
                # a chain: the target of an earlier entry is matched by a later one (each field is renamed once, by
                # the first entry that matches its own name)
                n0 = rng.pick(names)
                m = [[re.escape(n0), 'mid1'], [r'mid(\d)', r'end\1']] if regex else [[n0, 'mid1'], ['mid1', 'end1']]
                if rng.chance(0.5):
                    m.append([rng.pick(names), 'R'] if not regex else [rng.pick(PATS), 'R'])
                    if m[-1][0] in (m[0][0], m[1][0]):
                        m.pop()
            c['map'] = m
        elif k == 'computed':
            fs = []
            for j in range(rng.randint(1, 3)):
                op = rng.pick(['sum', 'avg', 'max', 'min', 'multiply', 'constant', 'join', 'format', 'callable'])
                src = rng.sample(names, rng.randint(0, min(3, len(names))))
                if op == 'format':
                    simple = [x for x in names if re.fullmatch(r'[a-z_][a-z0-9_]*', x)] or ['zz']
                    parts = []
                    for _ in range(rng.randint(1, 3)):
                        parts.append(['lit', rng.pick(['-', 'v=', ' ', ''])] if rng.chance(0.4) else ['fld', rng.pick(simple)])
                    w = parts
                elif op in ('constant', 'join'):
                    w = rng.pick([',', '-', 'K', ''])
                elif op == 'callable':
                    w = rng.pick(names + ['zz'])
                else:
                    w = ''
                fs.append({'op': op, 'source': src, 'with': w, 'target': rng.pick(['t1', 't2', 'out', names[0]]) if rng.chance(0.9) else names[-1]})
            c['fields'] = fs
            # (only columns read by sum/join, which accept an empty list of values: max/min/multiply/avg of nothing is an error)
            fragile = set(x for f in fs if f['op'] in ('avg', 'min', 'max', 'multiply') for x in f['source'])
            srcs = [x for f in fs if f['op'] in ('sum', 'join') for x in f['source'] if x in names and x not in fragile]
            targets = [f['target'] for f in fs]
            fmt_fields = [p_[1] for f in fs if f['op'] == 'format' for p_ in f['with'] if p_[0] == 'fld']
            cand = [x for x in srcs if x not in targets and x not in fmt_fields and not any(f['op'] == 'callable' and f['with'] == x for f in fs)]
            if c.pop('_want_both', False) and cand and len(names) >= 2:
                c['both'] = cand[0]
        elif k == 'add_field':
            c['name'] = rng.pick(['new', 'x1', names[0]])
            c['type'] = 'any'
            c['default'] = enc(rng.pick([None, 0, 7, 'dflt', True]))
        else:
            fs = []
            for _ in range(rng.randint(1, 2)):
                pats = []
                for _ in range(rng.randint(0, 2)):
                    f = rng.pick(['x', 'y+', r'(\w)\s(\w)', 'None', r'\d', '^', 'a|b', r'(?P<p>\w)\s(?P<q>\w)'])
                    g = re.compile(f)
                    # the replacement is a template of re.sub: numbered, \g<number> and \g<name> references, escapes
                    r_ = rng.pick(['Z', '', r'\1' if g.groups else 'q', '[&]', r'\g<1>;' if g.groups else r'<\g<0>>',
                                   r'\g<q>-\g<p>' if g.groupindex else r'\g<0>\g<0>', r'a\tb', r'\\'])
                    pats.append([f, r_])
                fs.append({'name': rng.pick(names + (['zz'] if rng.chance(0.05) else [])), 'patterns': pats})
            c['fields'] = fs
        if rng.chance(0.3):
            # rows reach the step with their keys in another order than the schema lists the fields (round 8)
            c['keyorder'] = rng.pick(['rotate', 'reverse'])
        if k in ('select', 'delete') and rng.chance(0.2):
            c['oneshot'] = True
        if k in ('select', 'delete') and not c['two'] and rng.chance(0.15):
            c['again'] = True
        if k in ('select', 'delete', 'rename') and rng.chance(0.25):
            # the same specification was used a moment ago, in the same process, with the other reading of the names
            # (regular expressions / literal names): nothing of that may carry over
            c['warm'] = True
        cases.append(c)
    # systematically: names that mean different things as literals and as patterns, used both ways one after the other;
    # renaming and deleting behind a step that reorders the rows' keys
    for names, f in ((['a.c', 'abc', 'k'], 'a.c'), (['x+', 'xx', 'k'], 'x+'), (['k', 'k.', 'kk'], 'k.')):
        rows = [dict((n, 'v%d%d' % (i, j)) for j, n in enumerate(names)) for i in range(2)]
        for regex in (True, False):
            cases.append({'kind': 'delete', 'names': names, 'rows': rows_enc(rows), 'types': dict((n, 'string') for n in names), 'two': False,
                          'regex': regex, 'fields': [f], 'warm': True})
            cases.append({'kind': 'select', 'names': names, 'rows': rows_enc(rows), 'types': dict((n, 'string') for n in names), 'two': False,
                          'regex': regex, 'fields': [f], 'warm': True})
    for ko in ('rotate', 'reverse'):
        names = ['a', 'b', 'c']
        rows = [{'a': 1, 'b': 'x', 'c': True}, {'a': 2, 'b': 'y', 'c': False}]
        types = {'a': 'integer', 'b': 'string', 'c': 'boolean'}
        cases.append({'kind': 'rename', 'names': names, 'rows': rows_enc(rows), 'types': types, 'two': False, 'regex': False, 'map': [['a', 'first']], 'keyorder': ko})
        cases.append({'kind': 'rename', 'names': names, 'rows': rows_enc(rows), 'types': types, 'two': False, 'regex': True, 'map': [['(a|c)', r'n_\1']], 'keyorder': ko})
        cases.append({'kind': 'delete', 'names': names, 'rows': rows_enc(rows), 'types': types, 'two': False, 'regex': False, 'fields': ['b'], 'keyorder': ko})
        cases.append({'kind': 'select', 'names': names, 'rows': rows_enc(rows), 'types': types, 'two': False, 'regex': False, 'fields': ['c', 'a'], 'keyorder': ko})
    # systematically: a one-shot iterable of field names with two selected resources; one step object at two positions
    for kind in ('delete', 'select'):
        names = ['a', 'b', 'c']
        rows = [{'a': 1, 'b': 'x', 'c': True}, {'a': 2, 'b': 'y', 'c': False}]
        types = {'a': 'integer', 'b': 'string', 'c': 'boolean'}
        cases.append({'kind': kind, 'names': names, 'rows': rows_enc(rows), 'types': types, 'two': False, 'regex': False, 'fields': ['b', 'a'] if kind == 'select' else ['b'],
                      'oneshot': True, 'narrow2': 'c'})
        cases.append({'kind': kind, 'names': names, 'rows': rows_enc(rows), 'types': types, 'two': False, 'regex': True, 'fields': ['[ab]'], 'again': True})
    # one select_fields object at two positions of a chain with a renaming step between them: each position selects from
    # the schema it finds
    cases.append({'kind': 'reuse_select', 'names': ['id', 'label', 'other'], 'rows': rows_enc([{'id': 1, 'label': 'x', 'other': True}, {'id': 2, 'label': 'y', 'other': False}]),
                  'types': {'id': 'integer', 'label': 'string', 'other': 'boolean'}, 'two': False, 'regex': True})
    # systematically: sum and join over two columns, with a second selected resource that lacks one of them
    for op, w in (('sum', ''), ('join', '-')):
        for drop in ('c1', 'c2'):
            rows = [{'c1': 1, 'c2': 10, 'id': 'p'}, {'c1': None, 'c2': 5, 'id': 'q'}, {'c1': 3, 'c2': None, 'id': 'r'}]
            cases.append({'kind': 'computed', 'names': ['c1', 'c2', 'id'], 'rows': rows_enc(rows), 'types': {'c1': 'integer', 'c2': 'integer', 'id': 'string'},
                          'two': False, 'regex': False, 'fields': [{'op': op, 'source': ['c1', 'c2'], 'with': w, 'target': 't1'}], 'both': drop})
    return cases


def fmt_string(parts):
    return ''.join(p[1].replace('{', '{{').replace('}', '}}') if p[0] == 'lit' else '{' + p[1] + '}' for p in parts)


def input_rows(case):
    """the rows as they reach the step under test: a preceding step may have re-ordered their keys"""
    rows = rows_dec(case['rows'])
    if case.get('keyorder') == 'rotate':
        rows = [dict(list(r.items())[1:] + list(r.items())[:1]) if len(r) > 1 else r for r in rows]
    elif case.get('keyorder') == 'reverse':
        rows = [dict(reversed(list(r.items()))) for r in rows]
    return rows


def step_of(case):
    k = case['kind']
    res = 't' if case['two'] else None
    # the field list handed over as a one-shot iterable (a generator, a map object) instead of a list
    oneshot = (lambda l: (x for x in l)) if case.get('oneshot') else list
    if k == 'select':
        return DF.select_fields(oneshot(case['fields']), resources=res, regex=case['regex'])
    if k == 'delete':
        return DF.delete_fields(oneshot(case['fields']), resources=res, regex=case['regex'])
    if k == 'rename':
        return DF.rename_fields(dict((a, b) for a, b in case['map']), resources=res, regex=case['regex'])
    if k == 'computed':
        fs = []
        for f in case['fields']:
            if f['op'] == 'callable':
                key = f['with']
                fs.append({'operation': (lambda kk: (lambda row: row.get(kk)))(key), 'target': f['target']})
            elif f['op'] == 'format':
                fs.append({'operation': 'format', 'target': f['target'], 'with': fmt_string(f['with'])})
            else:
                fs.append({'operation': f['op'], 'source': list(f['source']), 'target': f['target'], 'with': f['with']})
        return DF.add_computed_field(fs, resources=res)
    if k == 'add_field':
        return DF.add_field(case['name'], case['type'], dec(case['default']), resources=res)
    if k == 'find_replace':
        return DF.find_replace([{'name': f['name'], 'patterns': [{'find': a, 'replace': b} for a, b in f['patterns']]}
                                for f in case['fields']], resources=res)


def run_impl(case):
    if case['kind'] == 'reuse_select':
        res = [mk_resource('t', case['names'], rows_dec(case['rows']), types=case['types'])]
        st = DF.select_fields(['id', 'label.*'], regex=True)
        out = run_stream(res, [st, DF.rename_fields({'label': 'label_en'}, regex=False), st])
        if 'error' in out:
            return {'error': out['error'], 'exc': out['exc']}
        return {'rows': rows_enc(out['rows'][0]), 'fields': field_names(out['dp'], 0)}
    rows = rows_dec(case['rows'])
    res = [mk_resource('t', case['names'], rows, types=case['types'])]
    if case['two']:
        res.append(mk_resource('other', case['names'], rows, types=case['types']))
    if case.get('both'):
        # a second selected resource that lacks the first source column: each resource is computed from its own columns
        drop = case['both']
        keep = [n for n in case['names'] if n != drop]
        res.append(mk_resource('narrow', keep, [dict((k_, v_) for k_, v_ in r.items() if k_ != drop) for r in rows],
                               types=dict((n, case['types'][n]) for n in keep)))
    if case.get('narrow2'):
        # a second selected resource with fewer fields: each resource keeps, loses and renames its own fields
        drop = case['narrow2']
        keep = [n for n in case['names'] if n != drop]
        res.append(mk_resource('narrow2', keep, [dict((k_, v_) for k_, v_ in r.items() if k_ != drop) for r in rows],
                               types=dict((n, case['types'][n]) for n in keep)))
    if case.get('warm') and case['kind'] in ('select', 'delete', 'rename'):
        try:
            with quiet():
                Flow(Src(copy.deepcopy(res)), step_of(dict(case, regex=not case['regex']))).results()
        except Exception:
            pass
    pre = {'rotate': [rotate_keys], 'reverse': [reverse_keys]}.get(case.get('keyorder'), [])
    if case.get('again'):
        # the same step object a second time, further down the same chain, behind a step that renames every field and one
        # that names them back: the chain as a whole does what the step does once
        st = step_of(case)
        there = DF.rename_fields(dict((n, 'tmp_%d' % i) for i, n in enumerate(case['names'])), regex=False)
        out = run_stream(res, pre + [st, there, DF.rename_fields(dict(('tmp_%d' % i, n) for i, n in enumerate(case['names'])), regex=False), st], collect=False, rerun=not case.get('oneshot'))
    else:
        # (also read with all resources taken before any row is read; a step built over a one-shot iterable is run once)
        out = run_stream(res, pre + [step_of(case)], collect=True) if not case.get('oneshot') else run_stream(res, pre + [step_of(case)], rerun=False)
    if 'error' in out:
        return {'error': out['error'], 'exc': out['exc']}
    r = {'rows': rows_enc(out['rows'][0]), 'fields': field_names(out['dp'], 0),
         'types': [f['type'] for f in out['dp']['resources'][0]['schema']['fields']]}
    if case['two']:
        r['other_rows'] = rows_enc(out['rows'][1])
        r['other_fields'] = field_names(out['dp'], 1)
    if case.get('narrow2') and len(out['rows']) > 1:
        r['narrow_rows'] = rows_enc(out['rows'][-1])
        r['narrow_fields'] = field_names(out['dp'], len(out['rows']) - 1)
    return r


def matches(case, p, name):
    if case['regex']:
        return re.fullmatch(p, name) is not None
    return p == name


def pystr(v):
    return str(v)


def expected(case):
    """the property, directly: ('ok', fields, rows) | ('err',) | ('skip',)"""
    names = case['names']
    rows = input_rows(case)
    k = case['kind']
    if k == 'select':
        remaining = list(names)
        sel = []
        for p in case['fields']:
            m = [n for n in remaining if matches(case, p, n)]
            sel += m
            remaining = [n for n in remaining if n not in m]
        if not sel:
            return ('err',)
        return ('ok', sel, [dict((a, b) for a, b in r.items() if a in sel) for r in rows])
    if k == 'delete':
        keep = [n for n in names if not any(matches(case, p, n) for p in case['fields'])]
        return ('ok', keep, [dict((a, b) for a, b in r.items() if a in keep) for r in rows])
    if k == 'rename':
        new, ren, targets = [], {}, set()
        for n in names:
            t = n
            for p, tgt in case['map']:
                if matches(case, p, n):
                    t = re.sub('^' + p + '$', tgt, n) if case['regex'] else tgt
                    if t in targets:
                        return ('err',)
                    targets.add(t)
                    ren[n] = t
                    break
            new.append(t)
        if len(set(new)) != len(new):
            return ('skip',)      # target collides with a remaining name: outside the property's domain
        return ('ok', new, [dict((ren.get(a, a), b) for a, b in r.items()) for r in rows])
    if k == 'computed':
        out = []
        for r in rows:
            r = dict(r)
            for f in case['fields']:
                vals = [r.get(c) for c in f['source'] if r.get(c) is not None]
                op = f['op']
                try:
                    if op == 'sum':
                        v = sum(vals)
                    elif op == 'avg':
                        v = sum(vals) / len(vals)
                    elif op == 'max':
                        v = max(vals)
                    elif op == 'min':
                        v = min(vals)
                    elif op == 'multiply':
                        v = functools.reduce(lambda x, y: x * y, vals)
                    elif op == 'constant':
                        v = f['with']
                    elif op == 'join':
                        v = f['with'].join(str(x) for x in vals)
                    elif op == 'format':
                        v = fmt_string(f['with']).format(**r)
                    else:
                        v = r.get(f['with'])
                except Exception:
                    return ('err',)
                r[f['target']] = v
            out.append(r)
        new = list(names)
        for f in case['fields']:
            new.append(f['target'])
        if len(set(new)) != len(new):
            return ('skip',)      # target not fresh: outside the property's domain
        return ('ok', new, out)
    if k == 'add_field':
        if case['name'] in names:
            return ('skip',)
        d = dec(case['default'])
        return ('ok', names + [case['name']], [dict(list(r.items()) + [(case['name'], d)]) for r in rows])
    if k == 'find_replace':
        out = []
        for r in rows:
            r = dict(r)
            for f in case['fields']:
                if f['name'] not in r and f['patterns']:
                    return ('err',)
                for a, b in f['patterns']:
                    r[f['name']] = re.sub(str(a), str(b), str(r[f['name']]))
            out.append(r)
        return ('ok', names, out)


def same_rows(a, b, ordered=True):
    if len(a) != len(b):
        return False
    for x, y in zip(a, b):
        if ordered and list(x.keys()) != list(y.keys()):
            return False
        if set(x.keys()) != set(y.keys()):
            return False
        for kk in x:
            if type(x[kk]) is not type(y[kk]) or x[kk] != y[kk]:
                return False
    return True


def oracle(case, out):
    if case['kind'] == 'reuse_select':
        if out.get('error') is not None:
            return 'select_fields used at two positions of one chain: run failed (%s)' % out.get('exc')
        want = [{'id': r['id'], 'label_en': r['label']} for r in rows_dec(case['rows'])]
        if out['fields'] != ['id', 'label_en'] or not same_rows(rows_dec(out['rows']), want, ordered=False):
            return 'select_fields used at two positions of one chain (a rename between them): fields %r rows %r, expected %r' % (out['fields'], rows_dec(out['rows'])[:2], want[:2])
        return None
    exp = expected(case)
    k = case['kind']
    if exp[0] == 'skip':
        return None
    if exp[0] == 'err':
        return None if out.get('error') is not None else '%s: expected the documented rejection, got a result' % k
    if out.get('error') is not None:
        if k == 'rename' and any(matches(case, p, 'zz') is None for p, _ in case['map']):
            return None
        return '%s: run failed (%s)' % (k, out.get('exc'))
    got = rows_dec(out['rows'])
    if out['fields'] != exp[1]:
        return '%s: schema fields %r, expected %r' % (k, out['fields'], exp[1])
    if not same_rows(got, exp[2], ordered=(k != 'select')):
        return '%s: rows differ from the documented result' % k
    for r in got:
        if set(r.keys()) != set(out['fields']):
            return '%s: row keys %r disagree with the schema %r' % (k, list(r.keys()), out['fields'])
    if case.get('narrow2') and k in ('select', 'delete') and 'narrow_fields' in out and not case.get('again'):
        # the second selected resource (it lacks one field): the step does to it what it does to a resource of that shape
        keep = [n for n in case['names'] if n != case['narrow2']]
        c2 = dict(case, names=keep, rows=rows_enc([dict((k_, v_) for k_, v_ in r_.items() if k_ != case['narrow2']) for r_ in rows_dec(case['rows'])]),
                  types=dict((n, case['types'][n]) for n in keep), narrow2=None)
        exp2 = expected(c2)
        if exp2[0] == 'ok':
            if out['narrow_fields'] != exp2[1]:
                return '%s: the second selected resource has the schema fields %r, expected %r' % (k, out['narrow_fields'], exp2[1])
            if not same_rows(rows_dec(out['narrow_rows']), exp2[2], ordered=(k != 'select')):
                return '%s: the rows of the second selected resource differ from the documented result' % k
    if case['two']:
        if out['other_fields'] != case['names'] or not same_rows(rows_dec(out['other_rows']), input_rows(case)):
            return '%s: the unselected resource was changed' % k
    return None


def tbl_for(case, p, tgt=None):
    names = [n for n in case['names'] if matches(case, p, n)]
    if tgt is None:
        return cstrs(names)
    subs = [(n, re.sub('^' + p + '$', tgt, n) if case['regex'] else tgt) for n in names]
    return '(mk_rpat %s %s)' % (cstrs(names), clist([cpair(cstr(a), cstr(b)) for a, b in subs]))


def coq_cop(f):
    op = f['op']
    if op == 'format':
        return '(OpFormat %s)' % clist(['(inl %s)' % cstr(p[1]) if p[0] == 'lit' else '(inr %s)' % cstr(p[1]) for p in f['with']])
    if op == 'callable':
        return '(OpGet %s)' % cstr(f['with'])
    return {'sum': 'OpSum', 'avg': 'OpAvg', 'max': 'OpMax', 'min': 'OpMin', 'multiply': 'OpMultiply',
            'constant': 'OpConstant', 'join': 'OpJoin'}[op]


def coq_term(case, out):
    k = case['kind']
    if k == 'reuse_select':
        return None
    names = cstrs(case['names'])
    rows = input_rows(case)
    err = out.get('error')
    try:
        if k in ('select', 'delete'):
            # a pattern of the modelled regex fragment is matched by the Coq matcher itself (proved to decide the language
            # of the expression); Python's re only supplies a table for patterns outside the fragment and for literal names
            pats = clist([(rx.matcher_term(p) if case['regex'] else None) or '(tbl_match %s)' % tbl_for(case, p) for p in case['fields']])
            fn = 'select_names' if k == 'select' else 'delete_names'
            if err is not None:
                return ('match select_schema %s %s with Err _ => true | Ok _ => false end' % (pats, names)) if k == 'select' else 'false'
            return '(list_eqb str_eqb (%s %s %s) %s) && rows_eqb (map (keep_keys (%s %s %s)) %s) %s' % (
                fn, pats, names, cstrs(out['fields']), fn, pats, names, crows(rows), crows(rows_dec(out['rows'])))
        if k == 'rename':
            pats = clist([tbl_for(case, p, t) for p, t in case['map']])
            if err is not None:
                return 'match rename_schema %s %s [] with Err _ => true | Ok _ => false end' % (pats, names)
            return ('match rename_schema %s %s [] with Err _ => false | Ok (l, m) => list_eqb str_eqb l %s && '
                    'rows_eqb (map (rename_row m) %s) %s end') % (pats, names, cstrs(out['fields']), crows(rows),
                                                                  crows(rows_dec(out['rows'])))
        if k in ('computed', 'add_field'):
            if k == 'add_field':
                fs = '[{| cf_op := OpLit %s; cf_sources := []; cf_with := []; cf_target := %s |}]' % (
                    cval(dec(case['default'])), cstr(case['name']))
                schema = clist([cpair(cstr(n), cstr(case['types'][n])) for n in case['names']])
            else:
                fs = clist(['{| cf_op := %s; cf_sources := %s; cf_with := %s; cf_target := %s |}' % (
                    coq_cop(f), cstrs([] if f['op'] in ('callable', 'format') else f['source']), cstr(f['with'] if isinstance(f['with'], str) and f['op'] != 'callable' else ''),
                    cstr(f['target'])) for f in case['fields']])
                schema = clist([cpair(cstr(n), cstr(case['types'][n])) for n in case['names']])
            model_rows = 'map_res (compute_row %s) %s' % (fs, crows(rows))
            if err is not None:
                return 'match %s with Err _ => true | Ok _ => false end' % model_rows
            t = ('match %s with Err c => (c =? E_UNMODELLED) | Ok rs => rows_eqb rs %s end' % (model_rows, crows(rows_dec(out['rows']))))
            if k == 'computed' and len(set(out['fields'])) == len(out['fields']):
                t += ' && list_eqb (fun a b => str_eqb (fst a) (fst b) && str_eqb (snd a) (snd b)) (computed_schema %s %s) %s' % (
                    schema, fs, clist([cpair(cstr(a), cstr(b)) for a, b in zip(out['fields'], out['types'])]))
            return t
        if k == 'find_replace':
            fs = []
            for f in case['fields']:
                subs = []
                for a, b in f['patterns']:
                    # table of re.sub over every string that can reach this pattern
                    dom = set()
                    for r in rows:
                        if f['name'] in r:
                            dom.add(str(r[f['name']]))
                    # close under the earlier patterns of the same field and earlier fields of the same name
                    allp = [(x, y) for g in case['fields'] if g['name'] == f['name'] for x, y in g['patterns']]
                    for _ in range(len(allp) + 1):
                        for x, y in allp:
                            dom |= set(re.sub(str(x), str(y), d) for d in list(dom))
                    subs.append('(tbl_sub %s)' % clist([cpair(cstr(d), cstr(re.sub(str(a), str(b), d))) for d in sorted(dom)]))
                fs.append('{| fr_name := %s; fr_subs := %s |}' % (cstr(f['name']), clist(subs)))
            model = 'map_res (find_replace_row %s) %s' % (clist(fs), crows(rows))
            if err is not None:
                return 'match %s with Err _ => true | Ok _ => false end' % model
            return 'match %s with Err c => (c =? E_UNMODELLED) | Ok rs => rows_eqb rs %s end' % (model, crows(rows_dec(out['rows'])))
    except (re.error, Unrepresentable):
        return None
    return None


def nontrivial(case, out):
    return out.get('error') is not None or out.get('rows') != case['rows'] or out.get('fields') != case['names']


def shrinks(case):
    for i in range(len(case['rows'])):
        c = copy.deepcopy(case)
        del c['rows'][i]
        yield c
    for key in ('fields', 'map'):
        if isinstance(case.get(key), list) and len(case[key]) > 1:
            for i in range(len(case[key])):
                c = copy.deepcopy(case)
                del c[key][i]
                yield c
