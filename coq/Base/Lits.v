(* string constants used by the models (kept apart so that model files need not open string_scope) *)
From Coq Require Import List ZArith String.
From DF Require Import Base.Str.
Open Scope string_scope.
Definition s_None := s "None".
Definition s_True := s "True".
Definition s_False := s "False".
Definition s_any := s "any".
Definition s_string := s "string".
Definition s_number := s "number".
Definition s_integer := s "integer".
Definition s_boolean := s "boolean".
Definition s_array := s "array".
Definition s_object := s "object".
Definition s_date := s "date".
Definition s_time := s "time".
Definition s_datetime := s "datetime".
Definition s_year := s "year".
Definition s_name := s "name".
Definition s_type := s "type".
Definition s_colon := s ":".
Definition s_hash := s "#".
Definition s_key := s "__key__".
Definition s_empty : str := nil.
Definition s_sum := s "sum".
Definition s_avg := s "avg".
Definition s_median := s "median".
Definition s_max := s "max".
Definition s_min := s "min".
Definition s_first := s "first".
Definition s_last := s "last".
Definition s_count := s "count".
Definition s_set := s "set".
Definition s_counters := s "counters".
