From Coq Require Import List ZArith Bool Lia.
From DF Require Import Base.Str Base.Str_proofs Base.ListX Base.Value IO.Stream.
Import ListNotations.
Open Scope Z_scope.

Section P.
  Variables D R : Type.
  Variable encD : D -> line.   Variable decD : line -> option D.
  Variable encR : R -> line.   Variable decR : line -> option R.
  Variable nres : D -> nat.
  Hypothesis decD_encD : forall d, decD (encD d) = Some d.
  Hypothesis decR_encR : forall r, decR (encR r) = Some r.
  Hypothesis encD_nonblank : forall d, encD d <> [].
  Hypothesis encR_nonblank : forall r, encR r <> [].

  Notation stream_lines := (stream_lines D R encD encR).
  Notation read_rows := (read_rows R decR).
  Notation read_resources := (read_resources R decR).
  Notation unstream_lines := (unstream_lines D R decD decR nres).

  (* ================= the line format round-trips ================= *)
  Lemma read_rows_spec rows tl : read_rows (map encR rows ++ [] :: tl) = Some (rows, tl).
  Proof.
    induction rows as [|r rs IH]; simpl; [reflexivity|].
    destruct (encR r) eqn:E; [exfalso; eapply encR_nonblank; exact E|].
    rewrite <- E, decR_encR, IH. reflexivity.
  Qed.

  Lemma read_resources_spec rss : forall tl,
    read_resources (length rss) (flat_map (fun rows => map encR rows ++ [[]]) rss ++ tl) = Some rss.
  Proof.
    induction rss as [|rows rss IH]; intros tl; simpl; [reflexivity|].
    rewrite <- !app_assoc. simpl. rewrite read_rows_spec, IH. reflexivity.
  Qed.

  (* every resource, every row, in order, empty resources included *)
  Theorem stream_roundtrip d rss :
    nres d = length rss -> unstream_lines (stream_lines (d, rss)) = Some (d, rss).
  Proof.
    intros H. unfold Stream.unstream_lines, Stream.stream_lines. simpl.
    destruct (encD d) eqn:E; [exfalso; eapply encD_nonblank; exact E|].
    rewrite <- E, decD_encD, H.
    rewrite <- (app_nil_r (flat_map _ rss)). rewrite read_resources_spec. reflexivity.
  Qed.

  (* ================= file-system facts ================= *)
  Lemma fs_get_set_same f p c : fs_get (fs_set f p c) p = Some c.
  Proof.
    induction f as [|[a c'] f IH]; simpl; [rewrite str_eqb_refl; reflexivity|].
    destruct (str_eqb p a) eqn:E; simpl; rewrite E; [reflexivity|exact IH].
  Qed.

  Lemma fs_get_set_other f p q c : q <> p -> fs_get (fs_set f p c) q = fs_get f q.
  Proof.
    intros N. apply str_eqb_neq in N. induction f as [|[a c'] f IH]; simpl; [rewrite N; reflexivity|].
    destruct (str_eqb p a) eqn:E; simpl.
    - apply str_eqb_eq in E. subst a. rewrite N. reflexivity.
    - destruct (str_eqb q a); [reflexivity|exact IH].
  Qed.

  Lemma fs_get_del_other f p q : q <> p -> fs_get (fs_del f p) q = fs_get f q.
  Proof.
    intros N. apply str_eqb_neq in N. induction f as [|[a c'] f IH]; simpl; [reflexivity|].
    destruct (str_eqb p a) eqn:E; simpl.
    - apply str_eqb_eq in E. subst a. rewrite N. exact IH.
    - destruct (str_eqb q a); [reflexivity|exact IH].
  Qed.

  Lemma fs_get_del_same f p : fs_get (fs_del f p) p = None.
  Proof.
    induction f as [|[a c'] f IH]; simpl; [reflexivity|].
    destruct (str_eqb p a) eqn:E; simpl; [exact IH|]. rewrite E. exact IH.
  Qed.

  Variable final active : str.
  Hypothesis active_ne_final : active <> final.

  Notation stream_ops := (stream_ops D R encD encR final active).
  Notation crash_state := (crash_state D R encD encR final active).

  (* operations that only ever touch the .active file *)
  Definition only_active (o : fop) : bool :=
    match o with
    | Mkdir => true
    | OpenTrunc p | WriteFlush p _ | WriteBuffered p _ | Close p => str_eqb p active
    | Rename _ _ => false
    end.

  Lemma apply_only_active s o : only_active o = true -> fs_get (files (apply_op s o)) final = fs_get (files s) final.
  Proof.
    assert (N : final <> active) by (intros E; apply active_ne_final; symmetry; exact E).
    destruct o; simpl; intros H; try reflexivity; try discriminate;
      apply str_eqb_eq in H; subst; apply fs_get_set_other; exact N.
  Qed.

  Lemma run_only_active ops : forall s,
    forallb only_active ops = true -> fs_get (files (run_ops ops s)) final = fs_get (files s) final.
  Proof.
    induction ops as [|o ops IH]; intros s H; simpl in *; [reflexivity|].
    apply andb_true_iff in H as [H1 H2]. unfold run_ops in *. simpl. rewrite IH by exact H2. apply apply_only_active, H1.
  Qed.

  Definition body_ops (p : spkg D R) : list fop :=
    [Mkdir; OpenTrunc active; WriteFlush active (encD (fst p))]
      ++ flat_map (fun rows => map (fun r => WriteFlush active (encR r)) rows ++ [WriteFlush active []]) (snd p)
      ++ [Close active].

  Lemma stream_ops_split p : stream_ops p = body_ops p ++ [Rename active final].
  Proof. unfold Stream.stream_ops, body_ops. simpl. do 3 f_equal. rewrite <- app_assoc. reflexivity. Qed.

  Lemma body_only_active p : forallb only_active (body_ops p) = true.
  Proof.
    unfold body_ops. rewrite forallb_app. simpl. rewrite !str_eqb_refl. simpl.
    rewrite forallb_app. simpl. rewrite str_eqb_refl. rewrite andb_true_r.
    apply forallb_forall. intros o Ho. apply in_flat_map in Ho as [rows [_ Ho]].
    apply in_app_iff in Ho as [Ho|[<-|[]]].
    - apply in_map_iff in Ho as [r [<- _]]. simpl. apply str_eqb_refl.
    - simpl. apply str_eqb_refl.
  Qed.

  (* at no point of the write sequence does anything wait in the file object's buffer: a flow that fails (or a process that
     is killed) between any two operations leaves nothing behind that could reach the disk later *)
  Definition no_buffering (o : fop) : bool := match o with WriteBuffered _ _ => false | _ => true end.

  Lemma apply_op_unbuffered s o : no_buffering o = true -> buffered s = [] -> buffered (apply_op s o) = [].
  Proof.
    destruct o; simpl; intros N B; try reflexivity; try exact B; try discriminate.
    destruct (fs_get (files s) p); exact B.
  Qed.

  Lemma run_ops_unbuffered ops : forall s, forallb no_buffering ops = true -> buffered s = [] -> buffered (run_ops ops s) = [].
  Proof.
    induction ops as [|o r IH]; intros s H B; [exact B|]. simpl in H. apply andb_true_iff in H as [H1 H2].
    unfold run_ops in *. simpl. apply IH; [exact H2|apply apply_op_unbuffered; assumption].
  Qed.

  Lemma stream_ops_no_buffering p : forallb no_buffering (stream_ops p) = true.
  Proof.
    unfold Stream.stream_ops. simpl. rewrite forallb_app. apply andb_true_iff. split; [|reflexivity].
    apply forallb_forall. intros o Ho. apply in_flat_map in Ho as [rows [_ Ho]].
    apply in_app_iff in Ho as [Ho|[<-|[]]]; [|reflexivity]. apply in_map_iff in Ho as [r [<- _]]. reflexivity.
  Qed.

  Lemma in_firstn (A : Type) (k : nat) : forall (l : list A) x, In x (firstn k l) -> In x l.
  Proof. induction k as [|k IH]; intros [|y l] x H; simpl in *; try tauto. destruct H as [->|H]; [now left|right; apply IH, H]. Qed.

  Theorem never_buffered p k s0 : buffered s0 = [] -> buffered (run_ops (firstn k (stream_ops p)) s0) = [].
  Proof.
    intros B. apply run_ops_unbuffered; [|exact B].
    apply forallb_forall. intros o Ho. pose proof (stream_ops_no_buffering p) as H. rewrite forallb_forall in H.
    apply H. eapply in_firstn. exact Ho.
  Qed.

  (* C08: killed at any point before the final rename, no stream.ndjson appears *)
  Theorem crash_prefix_no_checkpoint p k s0 :
    fs_get (files s0) final = None -> (k < length (stream_ops p))%nat ->
    fs_get (files (crash_state p k s0)) final = None.
  Proof.
    intros H0 Hk. unfold Stream.crash_state. cbn [files]. rewrite stream_ops_split in *.
    rewrite app_length in Hk. change (length [Rename active final]) with 1%nat in Hk.
    rewrite firstn_app. replace (k - length (body_ops p))%nat with O by lia.
    change (firstn 0 [Rename active final]) with (@nil fop). rewrite app_nil_r.
    rewrite run_only_active; [exact H0|].
    apply forallb_forall. intros o Ho.
    pose proof (body_only_active p) as B. rewrite forallb_forall in B. apply B.
    eapply firstn_In. (* In o (firstn k l) -> In o l *)
    exact Ho.
  Qed.

  (* the written content: everything handed to the file, flushed or still buffered *)
  Definition total (s : fsys) : list line := content s active ++ buffered s.

  Lemma total_write_flush s l : total (apply_op s (WriteFlush active l)) = total s ++ [l].
  Proof.
    unfold total, content. simpl. rewrite fs_get_set_same. rewrite app_nil_r, <- app_assoc. reflexivity.
  Qed.

  Lemma total_write_buffered s l : total (apply_op s (WriteBuffered active l)) = total s ++ [l].
  Proof. unfold total, content. simpl. rewrite app_assoc. reflexivity. Qed.

  Definition line_of (o : fop) : list line :=
    match o with WriteFlush _ l | WriteBuffered _ l => [l] | _ => [] end.
  Definition is_write (o : fop) : bool :=
    match o with WriteFlush p _ | WriteBuffered p _ => str_eqb p active | _ => false end.

  Lemma writes_total ops : forall s,
    forallb is_write ops = true -> total (run_ops ops s) = total s ++ flat_map line_of ops.
  Proof.
    induction ops as [|o ops IH]; intros s H; simpl in *; [rewrite app_nil_r; reflexivity|].
    apply andb_true_iff in H as [H1 H2]. unfold run_ops in *. simpl. rewrite IH by exact H2.
    destruct o; simpl in H1; try discriminate; apply str_eqb_eq in H1; subst p.
    - rewrite total_write_flush, <- app_assoc. reflexivity.
    - rewrite total_write_buffered, <- app_assoc. reflexivity.
  Qed.

  Definition res_ops (rss : list (list R)) : list fop :=
    flat_map (fun rows => map (fun r => WriteFlush active (encR r)) rows ++ [WriteFlush active []]) rss.

  Lemma res_ops_writes rss : forallb is_write (res_ops rss) = true.
  Proof.
    apply forallb_forall. intros o Ho. apply in_flat_map in Ho as [rows [_ Ho]].
    apply in_app_iff in Ho as [Ho|[<-|[]]].
    - apply in_map_iff in Ho as [r [<- _]]. simpl. apply str_eqb_refl.
    - simpl. apply str_eqb_refl.
  Qed.

  Lemma res_ops_lines rss : flat_map line_of (res_ops rss) = flat_map (fun rows => map encR rows ++ [[]]) rss.
  Proof.
    unfold res_ops. induction rss as [|rows rss IH]; simpl; [reflexivity|].
    rewrite flat_map_app, IH. f_equal. rewrite flat_map_app. simpl. f_equal.
    induction rows as [|r rs IHr]; simpl; [reflexivity|]. rewrite IHr. reflexivity.
  Qed.

  (* C08/C07: an uninterrupted save leaves exactly the complete stream under the final name,
     whatever stale .active file was there before *)
  Lemma close_rename s :
    fs_get (files (apply_op (apply_op s (Close active)) (Rename active final))) final = Some (total s).
  Proof.
    unfold apply_op at 2. cbn [files buffered]. unfold apply_op. cbn [files buffered].
    rewrite fs_get_set_same. cbn [files]. rewrite fs_get_set_same. reflexivity.
  Qed.

  Theorem complete_checkpoint p s0 :
    fs_get (files (run_ops (stream_ops p) s0)) final = Some (stream_lines p).
  Proof.
    unfold Stream.stream_ops. fold (res_ops (snd p)). unfold run_ops. rewrite !fold_left_app.
    set (s1 := fold_left apply_op [Mkdir; OpenTrunc active; WriteFlush active (encD (fst p))] s0).
    assert (T1 : total s1 = [encD (fst p)]).
    { unfold s1. cbn [fold_left].
      rewrite total_write_flush. unfold total, content. simpl. rewrite fs_get_set_same. reflexivity. }
    set (s2 := fold_left apply_op (res_ops (snd p)) s1).
    assert (T2 : total s2 = stream_lines p).
    { unfold s2. pose proof (writes_total (res_ops (snd p)) s1 (res_ops_writes _)) as H. unfold run_ops in H.
      rewrite H, T1, res_ops_lines. reflexivity. }
    change (fold_left apply_op [Close active; Rename active final] s2)
      with (apply_op (apply_op s2 (Close active)) (Rename active final)).
    rewrite close_rename, T2. reflexivity.
  Qed.

  (* a checkpoint that is picked up after a crash at any point is always complete *)
  Theorem picked_up_is_complete p k s0 c :
    fs_get (files s0) final = None ->
    fs_get (files (crash_state p k s0)) final = Some c -> c = stream_lines p.
  Proof.
    intros H0 Hc. destruct (Nat.lt_ge_cases k (length (stream_ops p))) as [L|G].
    - rewrite crash_prefix_no_checkpoint in Hc by assumption. discriminate.
    - unfold Stream.crash_state in Hc. simpl in Hc. rewrite firstn_all2 in Hc by exact G.
      rewrite complete_checkpoint in Hc. injection Hc as <-. reflexivity.
  Qed.

  (* re-running after a crash: the stale .active file is truncated, the result is the clean one *)
  Theorem rerun_after_crash p k s0 :
    fs_get (files (run_ops (stream_ops p) (crash_state p k s0))) final = Some (stream_lines p).
  Proof. apply complete_checkpoint. Qed.

  (* ================= run / delete histories (C07) ================= *)
  Notation run_once := (run_once D R encD decD encR decR nres final active).
  Notation history := (history D R encD decD encR decR nres final active).
  Notation delete_dir := (delete_dir final active).

  Variable up : spkg D R.
  Hypothesis up_shape : nres (fst up) = length (snd up).

  Definition ckpt_inv (s : fsys) : Prop :=
    fs_get (files s) final = None \/ fs_get (files s) final = Some (stream_lines up).

  Fixpoint expected (h : list hop) (have : bool) : list (option (spkg D R) * bool) :=
    match h with
    | [] => []
    | HRun :: rest => (Some up, negb have) :: expected rest true
    | HDelete :: rest => expected rest false
    end.

  Definition has_ckpt (s : fsys) : bool := match fs_get (files s) final with Some _ => true | None => false end.

  (* every run returns the first run's package; steps before the checkpoint execute
     only when no checkpoint exists (first run, or after the directory was removed) *)
  Theorem history_invariant h : forall s, ckpt_inv s -> history up h s = expected h (has_ckpt s).
  Proof.
    pose proof (stream_roundtrip (fst up) (snd up) up_shape) as RT. rewrite <- surjective_pairing in RT.
    induction h as [|o h IH]; intros s Inv; [reflexivity|].
    destruct o; cbn [Stream.history expected].
    - unfold Stream.run_once, has_ckpt. destruct Inv as [N|Sm].
      + rewrite N. cbn [negb]. f_equal. rewrite IH by (right; apply complete_checkpoint).
        unfold has_ckpt. rewrite complete_checkpoint. reflexivity.
      + rewrite Sm. cbn [negb]. rewrite RT. f_equal.
        rewrite IH by (right; exact Sm). unfold has_ckpt. rewrite Sm. reflexivity.
    - assert (G : fs_get (files (delete_dir s)) final = None).
      { unfold Stream.delete_dir. cbn [files].
        rewrite fs_get_del_other by (intros E; apply active_ne_final; symmetry; exact E).
        apply fs_get_del_same. }
      rewrite IH by (left; exact G). unfold has_ckpt. rewrite G. reflexivity.
  Qed.
End P.
