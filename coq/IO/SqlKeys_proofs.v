(* dump_to_sql, update mode: a table that holds at most one row per key still does after any dump, whatever the dumped
   rows are (several rows with one key inside a dump included); in particular a table created by an update dump has
   one row per distinct key. *)
From Coq Require Import List ZArith Bool Lia.
From DF Require Import Base.Str Base.Value Base.Value_proofs Base.PyEq_proofs Proc.RowOps IO.Sql IO.Sql_proofs.
Import ListNotations.
Open Scope Z_scope.

Section Keys.
  Variable ks : list str.

  Definition one_per_key (t : table) : Prop :=
    forall i j x y, nth_error t i = Some x -> nth_error t j = Some y -> key_match ks x y = true -> i = j.

  Lemma key_match_refl a : key_match ks a a = true.
  Proof. unfold key_match. apply forallb_forall. intros k _. apply py_eq_refl. Qed.

  Lemma key_match_sym a b : key_match ks a b = key_match ks b a.
  Proof.
    unfold key_match. induction ks as [|k l IH]; simpl; [reflexivity|]. unfold sql_eq at 1 3.
    rewrite (py_eq_sym (rget0 a k)), IH. reflexivity.
  Qed.

  Lemma key_match_trans a b c : key_match ks a b = true -> key_match ks b c = true -> key_match ks a c = true.
  Proof.
    unfold key_match. induction ks as [|k l IH]; simpl; [reflexivity|]. intros H1 H2.
    apply andb_true_iff in H1 as [A1 B1]. apply andb_true_iff in H2 as [A2 B2].
    apply andb_true_iff. split; [exact (py_eq_trans _ _ _ A1 A2)|exact (IH B1 B2)].
  Qed.

  Lemma key_match_keyof a a' b : keyof ks a = keyof ks a' -> key_match ks a b = key_match ks a' b.
  Proof.
    unfold keyof, key_match. induction ks as [|k l IH]; simpl; [reflexivity|]. intros H.
    injection H as H1 H2. rewrite H1, (IH H2). reflexivity.
  Qed.

  Lemma key_match_rupdate x r y : row_ok ks r -> key_match ks (rupdate x r) y = key_match ks r y.
  Proof. intros OK. apply key_match_keyof, keyof_rupdate, OK. Qed.

  Lemma upsert_one_per_key t r : row_ok ks r -> one_per_key t -> one_per_key (upsert ks t r).
  Proof.
    intros OK U. unfold upsert. destruct (existsb (fun x => key_match ks x r) t) eqn:E; simpl.
    - (* UPDATE: the matching rows take r's values, keys included *)
      intros i j x' y' Hi Hj M. rewrite nth_error_map in Hi, Hj.
      destruct (nth_error t i) as [x|] eqn:Xi; [|discriminate]. destruct (nth_error t j) as [y|] eqn:Yj; [|discriminate].
      simpl in Hi, Hj. injection Hi as <-. injection Hj as <-.
      apply (U i j x y Xi Yj).
      destruct (key_match ks x r) eqn:Mx, (key_match ks y r) eqn:My.
      + apply (key_match_trans x r y Mx). rewrite key_match_sym. exact My.
      + rewrite key_match_rupdate in M by exact OK. rewrite key_match_sym, M in My. discriminate.
      + rewrite key_match_sym, key_match_rupdate in M by exact OK. rewrite key_match_sym, M in Mx. discriminate.
      + exact M.
    - (* INSERT: no stored row has r's key *)
      assert (N : forall x, In x t -> key_match ks x r = false).
      { intros x Hx. destruct (key_match ks x r) eqn:A; [|reflexivity].
        assert (existsb (fun x => key_match ks x r) t = true) by (apply existsb_exists; exists x; auto). congruence. }
      intros i j x y Hi Hj M.
      destruct (Nat.lt_ge_cases i (length t)) as [Li|Li], (Nat.lt_ge_cases j (length t)) as [Lj|Lj].
      + rewrite nth_error_app1 in Hi, Hj by assumption. exact (U i j x y Hi Hj M).
      + rewrite nth_error_app1 in Hi by assumption. rewrite nth_error_app2 in Hj by assumption.
        destruct (j - length t)%nat as [|n] eqn:D; simpl in Hj; [|destruct n; discriminate]. injection Hj as <-.
        rewrite (N x (nth_error_In _ _ Hi)) in M. discriminate.
      + rewrite nth_error_app2 in Hi by assumption. rewrite nth_error_app1 in Hj by assumption.
        destruct (i - length t)%nat as [|n] eqn:D; simpl in Hi; [|destruct n; discriminate]. injection Hi as <-.
        rewrite key_match_sym, (N y (nth_error_In _ _ Hj)) in M. discriminate.
      + rewrite nth_error_app2 in Hi, Hj by assumption.
        destruct (i - length t)%nat as [|n] eqn:D; simpl in Hi; [|destruct n; discriminate].
        destruct (j - length t)%nat as [|m] eqn:D'; simpl in Hj; [|destruct m; discriminate]. lia.
  Qed.

  Theorem update_one_per_key rows : forall t,
    (forall r, In r rows -> row_ok ks r) -> one_per_key t -> one_per_key (fold_left (upsert ks) rows t).
  Proof.
    induction rows as [|r rs IH]; intros t OK U; simpl; [exact U|].
    apply IH; [intros x Hx; apply OK; now right|]. apply upsert_one_per_key; [apply OK; now left|exact U].
  Qed.

  (* the implementation (insert buffer of any size, Bloom filter off or exact) *)
  Theorem impl_update_one_per_key ub bs t rows :
    (forall r, In r rows -> row_ok ks r) -> one_per_key t ->
    one_per_key (w_table (impl_dump (Update ks) ub (fun _ => false) bs t rows)).
  Proof.
    intros OK U. destruct ub.
    - unfold impl_dump. rewrite (update_spec_bloom ks (fun _ => false) bs t key_eq_refl key_eq_sym key_eq_trans
                                   (fun _ _ _ => eq_refl) rows); [apply update_one_per_key; assumption|reflexivity|exact OK].
    - rewrite update_spec_nobloom. apply update_one_per_key; assumption.
  Qed.

  Lemma one_per_key_nil : one_per_key [].
  Proof. intros [|i] j x y H; discriminate. Qed.
End Keys.
