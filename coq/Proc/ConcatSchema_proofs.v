(* concatenate: the schema of the target resource. Whatever the selected resources look like, the target declares
   exactly the requested target fields (each once, the ones no source provides as strings), and its primary key names
   declared fields only (a key field renamed by the mapping appears under its new name). *)
From Coq Require Import List ZArith Bool Lia Permutation.
From DF Require Import Base.Str Base.Str_proofs Base.Lits Base.Value Proc.RowOps Proc.Fields Proc.Resources Proc.Resources_proofs.
Import ListNotations.
Open Scope Z_scope.

Lemma remove_str_perm x l : str_in x l = true -> Permutation (x :: remove_str x l) l.
Proof.
  induction l as [|y r IH]; simpl; [discriminate|]. destruct (str_eqb x y) eqn:E.
  - apply str_eqb_eq in E. subst y. intros _. apply Permutation_refl.
  - simpl. intros H. eapply perm_trans; [apply perm_swap|]. apply perm_skip. apply IH. exact H.
Qed.

Definition sch_inv (targets : list str) (st : list str * list (str * str) * list str) : Prop :=
  let '(needed, tfields, tpk) := st in
  Permutation (needed ++ map fst tfields) targets /\ incl tpk (map fst tfields).

Lemma schema_step_inv targets m pk st f : sch_inv targets st -> sch_inv targets (schema_step m pk st f).
Proof.
  destruct st as [[needed tfields] tpk]. unfold schema_step, sch_inv. intros [P I].
  destruct (lookup_str m (fst f)) as [name|]; [|tauto].
  destruct (str_in name needed) eqn:E; [|tauto]. split.
  - rewrite map_app. simpl. eapply perm_trans; [|exact P].
    eapply perm_trans; [apply Permutation_app_head, Permutation_app_comm|]. simpl.
    eapply perm_trans; [apply Permutation_sym, Permutation_middle|].
    apply (Permutation_app_tail (map fst tfields) (remove_str_perm name needed E)).
  - rewrite map_app. simpl. destruct (str_in (fst f) pk).
    + intros x Hx. apply in_app_or in Hx as [Hx|[<-|[]]]; apply in_or_app; [left; apply I, Hx|right; now left].
    + intros x Hx. apply in_or_app. left. apply I, Hx.
Qed.

Lemma fold_fields_inv targets m pk fields st :
  sch_inv targets st -> sch_inv targets (fold_left (schema_step m pk) fields st).
Proof. revert st. induction fields as [|f r IH]; intros st H; simpl; [exact H|]. apply IH, schema_step_inv, H. Qed.

Lemma fold_resources_inv targets m (sel : list rsrc) st :
  sch_inv targets st ->
  sch_inv targets (fold_left (fun st r => fold_left (schema_step m (r_pk r)) (r_fields r) st) sel st).
Proof. revert st. induction sel as [|r rs IH]; intros st H; simpl; [exact H|]. apply IH, fold_fields_inv, H. Qed.

Theorem concat_schema_fields m targets selected :
  Permutation (map fst (fst (concat_schema m targets selected))) targets.
Proof.
  unfold concat_schema.
  pose proof (fold_resources_inv targets m selected (targets, [], [])) as H.
  destruct (fold_left _ selected (targets, [], [])) as [[needed tfields] tpk]. simpl.
  destruct H as [P _]; [split; [simpl; rewrite app_nil_r; apply Permutation_refl|intros x []]|].
  rewrite map_app, map_map. simpl. rewrite map_id. eapply perm_trans; [apply Permutation_app_comm|exact P].
Qed.

Theorem concat_schema_pk_declared m targets selected :
  incl (snd (concat_schema m targets selected)) (map fst (fst (concat_schema m targets selected))).
Proof.
  unfold concat_schema.
  pose proof (fold_resources_inv targets m selected (targets, [], [])) as H.
  destruct (fold_left _ selected (targets, [], [])) as [[needed tfields] tpk]. simpl.
  destruct H as [_ I]; [split; [simpl; rewrite app_nil_r; apply Permutation_refl|intros x []]|].
  intros x Hx. rewrite map_app. apply in_or_app. left. apply I, Hx.
Qed.

(* the fields no selected resource provides are declared as strings, after the provided ones *)
Theorem concat_schema_nothing_selected m targets :
  concat_schema m targets [] = (map (fun n => (n, s_string)) targets, []).
Proof. reflexivity. Qed.

(* every declared field has its type from a field of a selected resource that the mapping sends to it, or is a string *)
Definition prov (m : list (str * str)) (selected : list rsrc) (nt : str * str) : Prop :=
  exists r f, In r selected /\ In f (r_fields r) /\ lookup_str m (fst f) = Some (fst nt) /\ snd f = snd nt.

Lemma fold_fields_prov m selected r pk fields st :
  In r selected -> incl fields (r_fields r) ->
  Forall (prov m selected) (snd (fst st)) ->
  Forall (prov m selected) (snd (fst (fold_left (schema_step m pk) fields st))).
Proof.
  intros Hr. revert st. induction fields as [|f fs IH]; intros st Hi H; simpl; [exact H|].
  apply IH; [intros x Hx; apply Hi; now right|].
  destruct st as [[needed tfields] tpk]. unfold schema_step. simpl in *.
  destruct (lookup_str m (fst f)) as [name|] eqn:L; [|exact H].
  destruct (str_in name needed); [|exact H]. simpl.
  apply Forall_app. split; [exact H|]. constructor; [|constructor].
  exists r, f. simpl. repeat split; [exact Hr|apply Hi; now left|exact L].
Qed.

Lemma fold_resources_prov m selected sel st :
  incl sel selected ->
  Forall (prov m selected) (snd (fst st)) ->
  Forall (prov m selected)
         (snd (fst (fold_left (fun st r => fold_left (schema_step m (r_pk r)) (r_fields r) st) sel st))).
Proof.
  revert st. induction sel as [|r rs IH]; intros st Hi H; simpl; [exact H|].
  apply IH; [intros x Hx; apply Hi; now right|].
  apply (fold_fields_prov m selected r); [apply Hi; now left|apply incl_refl|exact H].
Qed.

Theorem concat_schema_types m targets selected n ty :
  In (n, ty) (fst (concat_schema m targets selected)) ->
  (exists r f, In r selected /\ In f (r_fields r) /\ lookup_str m (fst f) = Some n /\ snd f = ty) \/ ty = s_string.
Proof.
  unfold concat_schema.
  pose proof (fold_resources_prov m selected selected (targets, [], []) (incl_refl _) (Forall_nil _)) as H.
  destruct (fold_left _ selected (targets, [], [])) as [[needed tfields] tpk]. simpl in *.
  intros Hin. apply in_app_or in Hin as [Hin|Hin].
  - left. rewrite Forall_forall in H. exact (H _ Hin).
  - right. apply in_map_iff in Hin as (x & E & _). congruence.
Qed.


(* ---------- the mapping built from the field specification sends source names to requested target names only ---------- *)
Lemma lookup_in m a b : lookup_str m a = Some b -> In (a, b) m.
Proof.
  induction m as [|[x y] r IH]; simpl; [discriminate|]. destruct (str_eqb a x) eqn:E.
  - apply str_eqb_eq in E. subst x. intros H. injection H as ->. now left.
  - intros H. right. apply IH, H.
Qed.

Lemma add_sources_vals t srcs : forall m m', add_sources t srcs m = Ok m' ->
  forall p, In p m' -> In p m \/ snd p = t.
Proof.
  induction srcs as [|sf r IH]; intros m m' H p Hp; simpl in H.
  - injection H as <-. now left.
  - destruct (has_key m sf); [discriminate|]. destruct (IH _ _ H p Hp) as [Hin|E]; [|now right].
    apply in_app_or in Hin as [Hin|[<-|[]]]; [now left|now right].
Qed.

Lemma build_mapping_vals fields : forall m m', build_mapping fields m = Ok m' ->
  forall p, In p m' -> In p m \/ In (snd p) (map fst fields).
Proof.
  induction fields as [|[t srcs] r IH]; intros m m' H p Hp; simpl in H.
  - injection H as <-. now left.
  - destruct (add_sources t srcs m) as [m1|] eqn:A; [|discriminate].
    destruct (has_key m1 t); [discriminate|].
    destruct (IH _ _ H p Hp) as [Hin|Hin]; [|right; now right].
    apply in_app_or in Hin as [Hin|[<-|[]]]; [|right; now left].
    destruct (add_sources_vals _ _ _ _ A p Hin) as [?|E]; [now left|]. right. left. now rewrite E.
Qed.

Theorem build_mapping_into_targets fields m :
  build_mapping fields [] = Ok m -> forall a b, lookup_str m a = Some b -> In b (map fst fields).
Proof.
  intros H a b L. destruct (build_mapping_vals fields [] m H (a, b) (lookup_in _ _ _ L)) as [[]|Hin]. exact Hin.
Qed.

(* descriptor and rows of the concatenated resource agree: every emitted row carries exactly the declared fields, and the
   primary key names declared fields *)
Theorem concat_target_agrees fields m selected rows out :
  build_mapping fields [] = Ok m ->
  concat_rows m (map fst fields) rows = Ok out ->
  let sch := concat_schema m (map fst fields) selected in
  Forall (fun o => Permutation (rkeys o) (map fst (fst sch))) out /\ incl (snd sch) (map fst (fst sch)).
Proof.
  intros Hm Hr. split; [|apply concat_schema_pk_declared].
  apply Forall_forall. intros o Ho. apply In_nth_error in Ho as [i Hi].
  destruct (concat_rows_spec _ _ _ _ Hr) as [Hlen Hspec].
  assert (Hlt : (i < length rows)%nat).
  { rewrite <- Hlen. apply nth_error_Some. congruence. }
  destruct (nth_error rows i) as [r|] eqn:Er; [|apply nth_error_None in Er; lia].
  destruct (Hspec i r Er) as (o' & Ho' & Hc). rewrite Hi in Ho'. injection Ho' as <-.
  rewrite (concat_row_keys m (map fst fields) r o (build_mapping_into_targets fields m Hm) Hc).
  apply Permutation_sym, concat_schema_fields.
Qed.
