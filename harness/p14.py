"""C14 set_type and validate cast valid values and apply the error policy exactly."""
import copy, re, datetime
from common import *
from flowutil import *
import dataflows as DF
from dataflows.base.schema_validator import ValidationError
from tableschema import Field
from tableschema.exceptions import CastError

PROP = 'C14'
PROPS_V = 'Props/C14.v'
COQ_IMPORTS = ['Base.Str', 'Base.Value', 'Proc.RowOps', 'Proc.Validate']
RULE = ('cases = tables mixing valid and invalid lexical/native values at any row position and in several fields x target '
        'type/format/constraints x policy (raise, drop, ignore, clear, custom 4- and 5-argument handlers) x field-name '
        'regex x transform, through set_type and validate; non-trivial = at least one value is cast to a different native '
        'value or is invalid; distinct = distinct case digest'
        '; round 4: schema-level missingValues with and without the empty string'
        '; round 8: set_type whose selector covers a resource none of whose fields it names (left untouched whatever its values)'
        '; round 9: date and datetime objects as values (a datetime in a date field is a date only at midnight)')
TRUSTED = ['Coq 8.16.1 kernel + vm_compute', 'harness/p14.py printers and oracle',
           'tableschema Field.cast_value is "Table Schema\'s cast": it is the parameter [cast] of the theorems and is handed to the model as a table computed by the real library']
ASSUMES = ['checked field names are distinct (NoDup fields)', 'custom handlers are pure predicates of (field, index) that also log']

VALUES = ['1', ' 2', '3 ', 'x', '', '1.5', '2,5', 'true', 'False', '0', '2020', '20', '1999-12-31', '31/12/1999', 'a', 'b',
          'NA', None, 1, 2, 7, 0, True, decimal.Decimal('2.50'), 3.0, 'é',
          # equal-and-equal-hash values of different types (1 == True == 1.0)
          1.0, False, 0.0, decimal.Decimal('1'),
          # temporal objects: a datetime is an instance of date, yet only a midnight datetime is a date value (round 9)
          datetime.date(1999, 12, 31), datetime.datetime(1999, 12, 31, 0, 0), datetime.datetime(1999, 12, 31, 13, 5)]
TYPES = [
    {'type': 'integer'}, {'type': 'number'}, {'type': 'number', 'decimalChar': ','}, {'type': 'boolean'},
    {'type': 'year'}, {'type': 'string'}, {'type': 'integer', 'constraints': {'minimum': 2}},
    {'type': 'integer', 'constraints': {'maximum': 2}}, {'type': 'string', 'constraints': {'enum': ['a', 'b', '1']}},
    {'type': 'date'}, {'type': 'integer', 'bareNumber': False}, {'type': 'integer', 'constraints': {'required': True}},
    {'type': 'date', 'format': '%d/%m/%Y'}, {'type': 'any'},
]
NAMES = ['a', 'ab', 'b', 'a.b', 'c1', 'c2']
PATS = ['a', 'ab?', 'a.b', r'a\.b', r'c\d', r'[ab]', r'.*', 'b', 'a|c1', 'b|a']


def gen_cases(rng, tier):
    n = {'quick': 300, 'thorough': 3000, 'search': 1500}[tier]
    cases = []
    for i in range(n):
        names = rng.sample(NAMES, rng.randint(1, 4))
        pool = rng.sample(VALUES, rng.randint(3, 8))
        if rng.chance(0.15):
            pool = [1, True, 1.0, 0, False, 0.0, '1', decimal.Decimal('1')]
        nrows = rng.randint(0, 7)
        rows = [dict((f, rng.pick(pool)) for f in names) for _ in range(nrows)]
        pol = rng.pick(['raise', 'drop', 'ignore', 'clear', 'custom4', 'custom5', 'default'])
        if i % 3 != 2:
            regex = rng.chance(0.7)
            name = rng.pick(PATS) if regex else rng.pick(names)
            c = {'kind': 'set_type', 'names': names, 'rows': rows_enc(rows), 'name': name, 'regex': regex,
                 'options': rng.pick(TYPES), 'policy': pol, 'transform': rng.chance(0.25), 'two': rng.chance(0.25)}
        else:
            c = {'kind': 'validate', 'names': names, 'rows': rows_enc(rows),
                 'schema': dict((f, rng.pick(TYPES)) for f in names), 'policy': pol}
        if c['kind'] == 'set_type' and c['two'] and rng.chance(0.5) and not (c['regex'] and any(re.fullmatch(c['name'], o) for o in ('#o1', '#o2'))):
            # the selector covers the other resource as well, but none of its fields has a matching name: set_type has
            # nothing to do there, whatever that resource's values look like under its own schema (round 8)
            c['other_nomatch'] = rng.pick(['all', 'list'])
        # how a custom handler is written: all parameters required, the last one(s) with defaults, a callable object
        c['shape'] = rng.pick(['required', 'default', 'extra', 'object'])
        # missing-value tokens declared on the resource's schema (Table Schema's cast reads them as null; without ''
        # among them an empty string is a value like any other)
        c['mv'] = rng.pick([None, None, None, ['', 'NA'], ['NA', 'x'], ['x', '2,5', 'true']])
        cases.append(c)
    # systematically: a required field holding nulls (a null is a value Table Schema's cast rejects there), every policy,
    # through set_type and validate
    for pol in ('raise', 'drop', 'ignore', 'clear', 'custom4', 'custom5', 'default'):
        rows = [{'a': '1', 'b': 'x'}, {'a': None, 'b': 'y'}, {'a': '3', 'b': None}, {'a': None, 'b': None}]
        cases.append({'kind': 'set_type', 'names': ['a', 'b'], 'rows': rows_enc(rows), 'name': 'a', 'regex': False,
                      'options': {'type': 'integer', 'constraints': {'required': True}}, 'policy': pol, 'transform': False, 'two': False,
                      'shape': 'required', 'mv': None})
        cases.append({'kind': 'validate', 'names': ['a', 'b'], 'rows': rows_enc(rows),
                      'schema': {'a': {'type': 'integer', 'constraints': {'required': True}}, 'b': {'type': 'string'}}, 'policy': pol,
                      'shape': 'required', 'mv': None})
    for pol in ('raise', 'drop', 'ignore', 'clear', 'default'):
        for how in ('all', 'list'):
            rows = [{'a': '1', 'b': 'x'}, {'a': 'zz', 'b': 'y'}, {'a': '3', 'b': None}]
            cases.append({'kind': 'set_type', 'names': ['a', 'b'], 'rows': rows_enc(rows), 'name': 'a', 'regex': False,
                          'options': {'type': 'integer'}, 'policy': pol, 'transform': False, 'two': True, 'other_nomatch': how,
                          'shape': 'required', 'mv': None})
    for pol in ('raise', 'drop', 'ignore', 'clear', 'custom5'):
        rows = [{'a': datetime.datetime(2020, 1, 2, 0, 0), 'b': 'x'}, {'a': datetime.datetime(2020, 1, 2, 10, 30), 'b': 'y'}, {'a': datetime.date(2020, 1, 3), 'b': 'z'}]
        cases.append({'kind': 'set_type', 'names': ['a', 'b'], 'rows': rows_enc(rows), 'name': 'a', 'regex': False,
                      'options': {'type': 'date'}, 'policy': pol, 'transform': False, 'two': False, 'shape': 'required', 'mv': None})
        cases.append({'kind': 'validate', 'names': ['a', 'b'], 'rows': rows_enc(rows),
                      'schema': {'a': {'type': 'date'}, 'b': {'type': 'string'}}, 'policy': pol, 'shape': 'required', 'mv': None})
    return cases


OTHER_NOMATCH_ROWS = [{'#o1': 'X1', '#o2': 1}, {'#o1': 5, '#o2': 'not a number'}, {'#o1': None, '#o2': 3}]


def mk_policy(pol, log, shape='required'):
    if pol == 'default':
        return None
    if pol == 'raise':
        return DF.schema_validator.raise_exception
    if pol in ('drop', 'ignore', 'clear'):
        return getattr(DF.schema_validator, pol)
    if pol == 'custom4':
        def h4(res_name, row, i, e):
            log.append([None, i])
            return i % 2 == 0

        class H4:
            def __call__(self, res_name, row, i, e):
                return h4(res_name, row, i, e)
        return H4() if shape == 'object' else h4

    def h5(res_name, row, i, e, field):
        log.append([field.name, i])
        return (i + len(field.name)) % 2 == 0

    def h5_default(res_name, row, i, e, field=None):
        return h5(res_name, row, i, e, field)

    def h5_extra(res_name, row, i, e, field, verbose=False):
        return h5(res_name, row, i, e, field)

    class H5:
        def __call__(self, res_name, row, i, e, field):
            return h5(res_name, row, i, e, field)
    return {'required': h5, 'default': h5_default, 'extra': h5_extra, 'object': H5()}[shape]


def _tr(v):
    return None if v == 'NA' else v


def checked_fields(case):
    if case['kind'] == 'validate':
        return list(case['names'])
    if case['regex']:
        return [f for f in case['names'] if re.fullmatch(case['name'], f)]
    return [f for f in case['names'] if f == case['name']]


def field_desc(case, f):
    if case['kind'] == 'validate':
        return dict(case['schema'][f], name=f)
    return dict(case['options'], name=f)


def run_impl(case):
    rows = rows_dec(case['rows'])
    log = []
    pol = mk_policy(case['policy'], log, case.get('shape', 'required'))
    if case['kind'] == 'set_type':
        res = [mk_resource('t', case['names'], rows, types=dict((f, 'any') for f in case['names']))]
        if case['two'] and case.get('other_nomatch'):
            # fields no generated name or pattern matches; the values are not all of the declared type (as a resource looks
            # after an earlier set_type(..., on_error=ignore))
            res.append(mk_resource('other', ['#o1', '#o2'], copy.deepcopy(OTHER_NOMATCH_ROWS), types={'#o1': 'integer', '#o2': 'integer'}))
        elif case['two']:
            res.append(mk_resource('other', case['names'], rows, types=dict((f, 'any') for f in case['names'])))
        for r_ in res:
            r_['missingValues'] = case.get('mv')
        kw = dict(case['options'])
        step = DF.set_type(case['name'], resources={None: 't', 'all': None, 'list': ['t', 'other']}[case.get('other_nomatch')], regex=case['regex'], on_error=pol,
                           transform=_tr if case['transform'] else None, **kw)
    else:
        r = mk_resource('t', case['names'], rows)
        r['fields'] = [dict(case['schema'][f], name=f) for f in case['names']]
        r['missingValues'] = case.get('mv')
        res = [r]
        step = DF.validate(on_error=pol)
    try:
        with quiet():
            ds = Flow(Src(res), step).datastream()
            it = iter(ds.res_iter)
            first = next(it)
            got = []
            try:
                for row in first:
                    got.append(copy.deepcopy(row))
            except ValidationError as e:
                return {'rows': rows_enc(got), 'raised': {'index': e.index, 'row': enc(e.row)}, 'calls': log,
                        'fields': field_names(ds.dp.descriptor, 0)}
            other = [list(x) for x in it]
        out = {'rows': rows_enc(got), 'raised': None, 'calls': log, 'fields': field_names(ds.dp.descriptor, 0),
               'types': [f['type'] for f in ds.dp.descriptor['resources'][0]['schema']['fields']]}
        if other:
            out['other'] = rows_enc(other[0])
        return out
    except Exception as e:
        c = e
        while type(c).__name__ == 'ProcessorError' and getattr(c, 'cause', None) is not None:
            c = c.cause
        return {'error': err_code(e), 'exc': '%s: %s' % (type(c).__name__, str(c)[:200])}


def ts_cast(case, f, v):
    """Table Schema's cast: ('ok', value) | ('bad',)"""
    try:
        return ('ok', Field(field_desc(case, f), missing_values=case.get('mv') or ['']).cast_value(v))
    except CastError:
        return ('bad',)


def expected(case):
    rows = rows_dec(case['rows'])
    fields = checked_fields(case)
    if case['kind'] == 'set_type' and not fields:
        return ('reject',)
    pol = case['policy']
    out, calls = [], []
    for i, r in enumerate(rows):
        r = dict(r)
        if case.get('transform'):
            for f in fields:
                r[f] = _tr(r.get(f))
        keep = True
        for f in fields:
            c = ts_cast(case, f, r.get(f))
            if c[0] == 'ok':
                r[f] = c[1]
                continue
            if pol in ('raise', 'default'):
                return ('raise', out, i, r)
            if pol == 'drop':
                keep = False
            elif pol == 'clear':
                r[f] = None
            elif pol == 'custom4':
                calls.append([None, i])
                keep = keep and (i % 2 == 0)
            elif pol == 'custom5':
                calls.append([f, i])
                keep = keep and ((i + len(f)) % 2 == 0)
        if keep:
            out.append(r)
    return ('ok', out, calls)


def same_rows(a, b):
    if len(a) != len(b):
        return False
    for x, y in zip(a, b):
        if list(x.keys()) != list(y.keys()):
            return False
        for k in x:
            if type(x[k]) is not type(y[k]) or x[k] != y[k]:
                return False
    return True


def oracle(case, out):
    exp = expected(case)
    if exp[0] == 'reject':
        return None if 'error' in out else 'set_type accepted a name that matches no field'
    if 'error' in out:
        return '%s: run failed (%s)' % (case['kind'], out['exc'])
    got = rows_dec(out['rows'])
    if exp[0] == 'raise':
        if out['raised'] is None:
            return 'policy raise: an uncastable value did not abort the run'
        if out['raised']['index'] != exp[2]:
            return 'policy raise: ValidationError carries index %r, offending row is %r' % (out['raised']['index'], exp[2])
        if not same_rows([dec(out['raised']['row'])], [exp[3]]):
            return 'policy raise: ValidationError does not carry the offending row'
        if not same_rows(got, exp[1]):
            return 'policy raise: rows before the offending row were altered or dropped'
        return None
    if out['raised'] is not None:
        return 'a ValidationError was raised (index %r) although policy is %s / all values are valid' % (out['raised']['index'], case['policy'])
    if not same_rows(got, exp[1]):
        return '%s/%s: emitted rows differ from the specified result (%d vs %d rows)' % (case['kind'], case['policy'], len(got), len(exp[1]))
    if case['policy'] in ('custom4', 'custom5') and out['calls'] != exp[2]:
        return 'custom handler calls %r, expected one per offending field: %r' % (out['calls'], exp[2])
    if case.get('two') and case.get('other_nomatch'):
        if not same_rows(rows_dec(out.get('other', [])), OTHER_NOMATCH_ROWS):
            return 'set_type(resources=%s) changed rows of a selected resource none of whose fields it names: %r' % (
                case['other_nomatch'], rows_dec(out.get('other', [])))
    elif case.get('two') and not same_rows(rows_dec(out.get('other', [])), rows_dec(case['rows'])):
        return 'set_type changed rows of a resource it was not applied to'
    return None


def coq_term(case, out):
    if 'error' in out:
        return None
    rows = rows_dec(case['rows'])
    fields = checked_fields(case)
    # cast table over every value that can reach a checked field
    tbl, seen = [], set()
    for r in rows:
        for f in fields:
            v = r.get(f)
            if case.get('transform'):
                v = _tr(v)
            key = (f, repr(v), type(v).__name__)
            if key in seen:
                continue
            seen.add(key)
            c = ts_cast(case, f, v)
            tbl.append('(%s, %s, %s)' % (cstr(f), cval(v), 'None' if c[0] == 'bad' else '(Some %s)' % cval(c[1])))
    pol = {'raise': 'PRaise', 'default': 'PRaise', 'drop': 'PDrop', 'ignore': 'PIgnore', 'clear': 'PClear',
           'custom4': '(PCustom (fun f r i => Z.even i))',
           'custom5': '(PCustom (fun f r i => Z.even (i + Z.of_nat (List.length f))))'}[case['policy']]
    rows_t = crows(rows)
    if case.get('transform'):
        rows_t = '(map (transform_row (fun f v => if veqb v (VStr (s "NA")) then VNull else v) %s) %s)' % (cstrs(fields), rows_t)
    st = '(run_validator (tbl_cast %s) %s %s %s)' % (clist(tbl), pol, cstrs(fields), rows_t)
    t = 'rows_eqb (vs_out %s) %s' % (st, crows(rows_dec(out['rows'])))
    if out['raised'] is None:
        t += ' && match vs_raised %s with None => true | Some _ => false end' % st
    else:
        t += ' && match vs_raised %s with Some (i, _, r) => (i =? %s) && row_eqb r %s | None => false end' % (
            st, cZ(out['raised']['index']), crow(dec(out['raised']['row'])))
    if case['policy'] == 'custom5':
        t += ' && calls_eqb (vs_calls %s) %s' % (st, clist([cpair(cstr(a), cZ(b)) for a, b in out['calls']]))
    if case['policy'] == 'custom4':
        t += ' && list_eqb Z.eqb (map snd (vs_calls %s)) %s' % (st, clist([cZ(b) for _, b in out['calls']]))
    return t


def nontrivial(case, out):
    return 'error' in out or out.get('raised') is not None or out.get('rows') != case['rows']


def shrinks(case):
    for i in range(len(case['rows'])):
        c = copy.deepcopy(case)
        del c['rows'][i]
        yield c
