(* The CSV layer round-trips every table: read_csv (write_csv recs) = Ok recs, for all records,
   all field texts (quotes, delimiters, CR and LF inside cells, empty fields, empty records). *)
From Coq Require Import List ZArith Bool Lia.
From DF Require Import Base.Str Base.Value IO.Csv.
Import ListNotations.
Open Scope Z_scope.

Definition S (k : rstate) (fld : str) (flds : list str) (rcs : list (list str)) : rd :=
  {| st := k; field := fld; fields := flds; recs := rcs; err := false |}.

(* ---------- tokens ---------- *)
Lemma tokens_plain c r : c <> LF -> c <> CR -> r <> [] -> tokens (c :: r) = Chr c :: tokens r.
Proof.
  intros H1 H2 H3. destruct r as [|c2 r]; [congruence|]. cbn [tokens].
  apply Z.eqb_neq in H1, H2. rewrite H1, H2. reflexivity.
Qed.

Lemma tokens_lf r : tokens (LF :: r) = Chr LF :: EOL :: tokens r.
Proof. reflexivity. Qed.

Lemma tokens_crlf r : tokens (CR :: LF :: r) = Chr CR :: Chr LF :: EOL :: tokens r.
Proof. reflexivity. Qed.

Lemma tokens_cr c2 r : tokens (CR :: c2 :: r) = if c2 =? LF then Chr CR :: tokens (c2 :: r) else Chr CR :: EOL :: tokens (c2 :: r).
Proof. reflexivity. Qed.

(* ---------- single steps ---------- *)
Lemma special_false c : special c = false -> c <> DELIM /\ c <> QUOTE /\ c <> CR /\ c <> LF.
Proof.
  unfold special. rewrite !orb_false_iff, !Z.eqb_neq. tauto.
Qed.

Lemma is_nl_false c : c <> CR -> c <> LF -> is_nl c = false.
Proof. intros H1 H2. unfold is_nl. apply Z.eqb_neq in H1, H2. rewrite H1, H2. reflexivity. Qed.

Lemma step_infield_plain c fld flds rcs : special c = false ->
  step (S InField fld flds rcs) (Chr c) = S InField (c :: fld) flds rcs.
Proof.
  intros H. apply special_false in H as (H1 & H2 & H3 & H4).
  unfold step, S. cbn [err st]. rewrite (is_nl_false c H3 H4). apply Z.eqb_neq in H1. rewrite H1. reflexivity.
Qed.

Lemma step_start_plain k c flds rcs : (k = StartRecord \/ k = StartField) -> special c = false ->
  step (S k [] flds rcs) (Chr c) = S InField [c] flds rcs.
Proof.
  intros K H. apply special_false in H as (H1 & H2 & H3 & H4).
  destruct K as [-> | ->]; unfold step, S; cbn [err st]; unfold start_field;
    rewrite ?(is_nl_false c H3 H4); apply Z.eqb_neq in H1, H2; rewrite H1, H2; reflexivity.
Qed.

Lemma step_start_quote k flds rcs : (k = StartRecord \/ k = StartField) ->
  step (S k [] flds rcs) (Chr QUOTE) = S InQuoted [] flds rcs.
Proof. intros [-> | ->]; reflexivity. Qed.

Lemma step_start_delim k flds rcs : (k = StartRecord \/ k = StartField) ->
  step (S k [] flds rcs) (Chr DELIM) = S StartField [] ([] :: flds) rcs.
Proof. intros [-> | ->]; reflexivity. Qed.

Lemma step_inquoted c fld flds rcs : c <> QUOTE ->
  step (S InQuoted fld flds rcs) (Chr c) = S InQuoted (c :: fld) flds rcs.
Proof. intros H. unfold step, S. cbn [err st]. apply Z.eqb_neq in H. rewrite H. reflexivity. Qed.

Lemma step_inquoted_eol fld flds rcs : step (S InQuoted fld flds rcs) EOL = S InQuoted fld flds rcs.
Proof. reflexivity. Qed.

Lemma step_inquoted_qq fld flds rcs :
  step (step (S InQuoted fld flds rcs) (Chr QUOTE)) (Chr QUOTE) = S InQuoted (QUOTE :: fld) flds rcs.
Proof. reflexivity. Qed.

Lemma step_infield_delim fld flds rcs :
  step (S InField fld flds rcs) (Chr DELIM) = S StartField [] (rev fld :: flds) rcs.
Proof. reflexivity. Qed.

Lemma step_close_delim fld flds rcs :
  step (step (S InQuoted fld flds rcs) (Chr QUOTE)) (Chr DELIM) = S StartField [] (rev fld :: flds) rcs.
Proof. reflexivity. Qed.

Lemma steps_infield_eol fld flds rcs :
  step (step (step (S InField fld flds rcs) (Chr CR)) (Chr LF)) EOL = S StartRecord [] [] (rev (rev fld :: flds) :: rcs).
Proof. reflexivity. Qed.

Lemma steps_close_eol fld flds rcs :
  step (step (step (step (S InQuoted fld flds rcs) (Chr QUOTE)) (Chr CR)) (Chr LF)) EOL
  = S StartRecord [] [] (rev (rev fld :: flds) :: rcs).
Proof. reflexivity. Qed.

Lemma steps_startfield_eol flds rcs :
  step (step (step (S StartField [] flds rcs) (Chr CR)) (Chr LF)) EOL = S StartRecord [] [] (rev ([] :: flds) :: rcs).
Proof. reflexivity. Qed.

(* ---------- field contents ---------- *)
Lemma infield_chars rest : rest <> [] -> forall g fld flds rcs,
  forallb (fun c => negb (special c)) g = true ->
  fold_left step (tokens (g ++ rest)) (S InField fld flds rcs)
  = fold_left step (tokens rest) (S InField (rev g ++ fld) flds rcs).
Proof.
  intros NE. induction g as [|c g IH]; intros fld flds rcs H; [reflexivity|].
  cbn [forallb] in H. apply andb_true_iff in H as [Hc Hg]. apply negb_true_iff in Hc.
  pose proof (special_false c Hc) as (H1 & H2 & H3 & H4).
  cbn [app]. rewrite tokens_plain; [|assumption|assumption|destruct g; [exact NE|discriminate]].
  cbn [fold_left]. rewrite step_infield_plain by exact Hc. rewrite IH by exact Hg.
  cbn [rev]. rewrite <- app_assoc. reflexivity.
Qed.

Lemma quoted_chars rest : forall f fld flds rcs,
  fold_left step (tokens (escape f ++ QUOTE :: rest)) (S InQuoted fld flds rcs)
  = fold_left step (tokens (QUOTE :: rest)) (S InQuoted (rev f ++ fld) flds rcs).
Proof.
  induction f as [|c f IH]; intros fld flds rcs; [reflexivity|].
  cbn [escape rev]. rewrite <- app_assoc. cbn [app].
  destruct (c =? QUOTE) eqn:Q.
  - apply Z.eqb_eq in Q. subst c. cbn [app].
    rewrite tokens_plain; [|discriminate|discriminate|discriminate].
    rewrite tokens_plain; [|discriminate|discriminate|destruct (escape f); discriminate].
    cbn [fold_left]. rewrite step_inquoted_qq. apply IH.
  - apply Z.eqb_neq in Q. cbn [app].
    remember (escape f ++ QUOTE :: rest) as w eqn:W.
    assert (NE : w <> []) by (subst w; destruct (escape f); discriminate).
    destruct (Z.eq_dec c LF) as [->|NL].
    + rewrite tokens_lf. cbn [fold_left]. rewrite step_inquoted by exact Q. rewrite step_inquoted_eol. apply IH.
    + destruct (Z.eq_dec c CR) as [->|NC].
      * destruct w as [|c2 w2]; [congruence|]. rewrite tokens_cr.
        destruct (c2 =? LF); cbn [fold_left]; rewrite step_inquoted by exact Q; rewrite ?step_inquoted_eol; apply IH.
      * rewrite tokens_plain by assumption. cbn [fold_left]. rewrite step_inquoted by exact Q. apply IH.
Qed.

(* ---------- one field followed by a delimiter ---------- *)
Lemma rev_app_nil (f : str) : rev (rev f ++ []) = f.
Proof. rewrite app_nil_r. apply rev_involutive. Qed.

Lemma needs_quote_false f : needs_quote f = false -> forallb (fun c => negb (special c)) f = true.
Proof.
  unfold needs_quote. induction f as [|c f IH]; [reflexivity|]. cbn [existsb forallb].
  rewrite orb_false_iff. intros [H1 H2]. rewrite H1, (IH H2). reflexivity.
Qed.

Lemma field_then_delim k f rest flds rcs : (k = StartRecord \/ k = StartField) -> rest <> [] ->
  fold_left step (tokens (write_field f ++ DELIM :: rest)) (S k [] flds rcs)
  = fold_left step (tokens rest) (S StartField [] (f :: flds) rcs).
Proof.
  intros K NE. unfold write_field. destruct (needs_quote f) eqn:NQ.
  - cbn [app]. rewrite tokens_plain; [|discriminate|discriminate|destruct (escape f); discriminate].
    cbn [fold_left]. rewrite step_start_quote by exact K. rewrite <- app_assoc. cbn [app].
    rewrite quoted_chars. rewrite tokens_plain; [|discriminate|discriminate|discriminate].
    rewrite tokens_plain; [|discriminate|discriminate|exact NE].
    cbn [fold_left]. rewrite step_close_delim. rewrite rev_app_nil. reflexivity.
  - pose proof (needs_quote_false f NQ) as PL. destruct f as [|c g].
    + cbn [app]. rewrite tokens_plain; [|discriminate|discriminate|exact NE].
      cbn [fold_left]. rewrite step_start_delim by exact K. reflexivity.
    + cbn [forallb] in PL. apply andb_true_iff in PL as [Pc Pg]. apply negb_true_iff in Pc.
      pose proof (special_false c Pc) as (H1 & H2 & H3 & H4).
      cbn [app]. rewrite tokens_plain; [|assumption|assumption|destruct g; discriminate].
      cbn [fold_left]. rewrite step_start_plain by assumption.
      rewrite infield_chars; [|discriminate|exact Pg].
      rewrite tokens_plain; [|discriminate|discriminate|exact NE].
      cbn [fold_left]. rewrite step_infield_delim.
      replace (rev (rev g ++ [c])) with (c :: g) by (rewrite rev_app_distr, rev_involutive; reflexivity).
      reflexivity.
Qed.

(* ---------- one field followed by the line terminator ---------- *)
Lemma field_then_eol k f rest flds rcs : (k = StartField \/ (k = StartRecord /\ f <> [])) ->
  fold_left step (tokens (write_field f ++ CR :: LF :: rest)) (S k [] flds rcs)
  = fold_left step (tokens rest) (S StartRecord [] [] (rev (f :: flds) :: rcs)).
Proof.
  intros K.
  assert (K' : k = StartRecord \/ k = StartField) by (destruct K as [->|[-> _]]; auto).
  unfold write_field. destruct (needs_quote f) eqn:NQ.
  - cbn [app]. rewrite tokens_plain; [|discriminate|discriminate|destruct (escape f); discriminate].
    cbn [fold_left]. rewrite step_start_quote by exact K'. rewrite <- app_assoc. cbn [app].
    rewrite quoted_chars. rewrite tokens_plain; [|discriminate|discriminate|discriminate].
    rewrite tokens_crlf. cbn [fold_left]. rewrite steps_close_eol. rewrite rev_app_nil. reflexivity.
  - pose proof (needs_quote_false f NQ) as PL. destruct f as [|c g].
    + destruct K as [->|[_ X]]; [|congruence]. cbn [app]. rewrite tokens_crlf. cbn [fold_left].
      rewrite steps_startfield_eol. reflexivity.
    + cbn [forallb] in PL. apply andb_true_iff in PL as [Pc Pg]. apply negb_true_iff in Pc.
      pose proof (special_false c Pc) as (H1 & H2 & H3 & H4).
      cbn [app]. rewrite tokens_plain; [|assumption|assumption|destruct g; discriminate].
      cbn [fold_left]. rewrite step_start_plain by assumption.
      rewrite infield_chars; [|discriminate|exact Pg].
      rewrite tokens_crlf. cbn [fold_left]. rewrite steps_infield_eol.
      replace (rev (rev g ++ [c])) with (c :: g) by (rewrite rev_app_distr, rev_involutive; reflexivity).
      reflexivity.
Qed.

(* ---------- one record ---------- *)
Lemma join_fields_cons f f2 r : join_fields (f :: f2 :: r) = write_field f ++ DELIM :: join_fields (f2 :: r).
Proof. reflexivity. Qed.

Lemma record_fields rest : forall r f k flds rcs,
  (k = StartField \/ (k = StartRecord /\ (f <> [] \/ r <> []))) ->
  fold_left step (tokens (join_fields (f :: r) ++ CR :: LF :: rest)) (S k [] flds rcs)
  = fold_left step (tokens rest) (S StartRecord [] [] ((rev flds ++ f :: r) :: rcs)).
Proof.
  induction r as [|f2 r IH]; intros f k flds rcs K.
  - cbn [join_fields]. rewrite field_then_eol.
    + cbn [rev]. reflexivity.
    + destruct K as [->|[-> [X|X]]]; [left; reflexivity|right; split; [reflexivity|exact X]|congruence].
  - rewrite join_fields_cons. rewrite <- app_assoc. cbn [app].
    rewrite field_then_delim.
    + rewrite IH by (left; reflexivity). cbn [rev]. rewrite <- app_assoc. reflexivity.
    + destruct K as [->|[-> _]]; auto.
    + intros X. apply app_eq_nil in X as [_ X]. discriminate.
Qed.

Lemma record_roundtrip r rest rcs :
  fold_left step (tokens (write_record r ++ rest)) (S StartRecord [] [] rcs)
  = fold_left step (tokens rest) (S StartRecord [] [] (r :: rcs)).
Proof.
  destruct r as [|f r].
  - cbn [write_record join_fields app]. rewrite tokens_crlf. reflexivity.
  - destruct f as [|c f]; [destruct r as [|f2 r]|].
    + (* [[]] : written as two quotes *)
      cbn [write_record app]. rewrite tokens_plain; [|discriminate|discriminate|discriminate].
      rewrite tokens_plain; [|discriminate|discriminate|discriminate]. rewrite tokens_crlf. reflexivity.
    + change (write_record ([] :: f2 :: r)) with (join_fields ([] :: f2 :: r) ++ [CR; LF]).
      rewrite <- app_assoc. cbn [app]. rewrite record_fields; [reflexivity|].
      right. split; [reflexivity|right; discriminate].
    + change (write_record ((c :: f) :: r)) with (join_fields ((c :: f) :: r) ++ [CR; LF]).
      rewrite <- app_assoc. cbn [app]. rewrite record_fields; [reflexivity|].
      right. split; [reflexivity|left; discriminate].
Qed.

Lemma records_roundtrip : forall recs rcs,
  fold_left step (tokens (write_csv recs)) (S StartRecord [] [] rcs) = S StartRecord [] [] (rev recs ++ rcs).
Proof.
  induction recs as [|r recs IH]; intros rcs; [reflexivity|].
  unfold write_csv. cbn [flat_map]. fold (write_csv recs). rewrite record_roundtrip. rewrite IH.
  cbn [rev]. rewrite <- app_assoc. reflexivity.
Qed.

Theorem csv_roundtrip recs : read_csv (write_csv recs) = Ok recs.
Proof.
  unfold read_csv. change rd0 with (S StartRecord [] [] []). rewrite records_roundtrip.
  unfold finish, S. cbn. rewrite app_nil_r, rev_involutive. reflexivity.
Qed.
