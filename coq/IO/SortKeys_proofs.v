(* sort_keys=True: the written text of a row does not depend on the order of the row's keys; the members come out in
   strictly ascending key order and are the members that went in. *)
From Coq Require Import List ZArith Bool Permutation Sorted.
From DF Require Import Base.Str Base.Str_proofs IO.EJson IO.JsonText IO.SortKeys.
Import ListNotations.

Section P.
  Variable A : Type.
  Implicit Types (a b c : str * A) (l : list (str * A)).

  Ltac order :=
    repeat match goal with
    | H : str_ltb ?x ?x = true |- _ => rewrite str_ltb_irrefl in H; discriminate
    | H1 : str_ltb ?x ?y = true, H2 : str_ltb ?y ?x = true |- _ =>
        rewrite (str_ltb_asym _ _ H1) in H2; discriminate
    end.

  Lemma two_false_eq x y : str_ltb x y = false -> str_ltb y x = false -> x = y.
  Proof.
    intros H1 H2. destruct (str_ltb_trichotomy x y) as [H|[H|H]]; [congruence | exact H | congruence].
  Qed.

  Lemma ins_comm a b l : fst a <> fst b -> ins_member a (ins_member b l) = ins_member b (ins_member a l).
  Proof.
    intros Hne. induction l as [|c r IH].
    - cbn [ins_member].
      destruct (str_ltb (fst a) (fst b)) eqn:Eab; destruct (str_ltb (fst b) (fst a)) eqn:Eba; try reflexivity.
      + order.
      + exfalso. apply Hne. apply two_false_eq; assumption.
    - cbn [ins_member].
      destruct (str_ltb (fst b) (fst c)) eqn:Ebc; destruct (str_ltb (fst a) (fst c)) eqn:Eac; cbn [ins_member];
        rewrite ?Ebc, ?Eac.
      + destruct (str_ltb (fst a) (fst b)) eqn:Eab; destruct (str_ltb (fst b) (fst a)) eqn:Eba; try reflexivity.
        * order.
        * exfalso. apply Hne. apply two_false_eq; assumption.
      + destruct (str_ltb (fst a) (fst b)) eqn:Eab; [|reflexivity].
        exfalso. rewrite (str_ltb_trans _ _ _ Eab Ebc) in Eac. discriminate.
      + destruct (str_ltb (fst b) (fst a)) eqn:Eba; [|reflexivity].
        exfalso. rewrite (str_ltb_trans _ _ _ Eba Eac) in Ebc. discriminate.
      + rewrite IH. reflexivity.
  Qed.

  Definition keys l : list str := map fst l.

  (* the order of the members going in does not matter *)
  Theorem sort_members_perm l l' : NoDup (keys l) -> Permutation l l' -> sort_members l = sort_members l'.
  Proof.
    intros Hnd Hp. induction Hp as [|x l l' Hp IH|x y l|l l' l'' Hp1 IH1 Hp2 IH2].
    - reflexivity.
    - cbn [sort_members fold_right]. unfold sort_members in IH. rewrite IH; [reflexivity|].
      cbn [keys map] in Hnd. inversion Hnd; assumption.
    - cbn [sort_members fold_right]. apply ins_comm.
      cbn [keys map] in Hnd. inversion Hnd as [|k ks Hk Hks]; subst. intros He. apply Hk. left. symmetry. exact He.
    - rewrite IH1; [apply IH2 | exact Hnd].
      unfold keys in *. eapply Permutation_NoDup; [apply Permutation_map; exact Hp1 | exact Hnd].
  Qed.

  Lemma ins_perm a l : Permutation (a :: l) (ins_member a l).
  Proof.
    induction l as [|c r IH]; cbn [ins_member]; [apply Permutation_refl|].
    destruct (str_ltb (fst a) (fst c)); [apply Permutation_refl|].
    eapply Permutation_trans; [apply perm_swap | apply perm_skip; exact IH].
  Qed.

  (* nothing is lost or invented by the sorting *)
  Theorem sort_members_is_perm l : Permutation l (sort_members l).
  Proof.
    induction l as [|a l IH]; [apply Permutation_refl|].
    cbn [sort_members fold_right]. eapply Permutation_trans; [apply perm_skip; exact IH | apply ins_perm].
  Qed.

  Definition key_lt a b : Prop := str_ltb (fst a) (fst b) = true.

  Lemma ins_hdrel a c l : key_lt c a -> HdRel key_lt c l -> HdRel key_lt c (ins_member a l).
  Proof.
    intros Hca Hl. destruct l as [|d r]; cbn [ins_member]; [constructor; exact Hca|].
    destruct (str_ltb (fst a) (fst d)); constructor; [exact Hca | inversion Hl; assumption].
  Qed.

  Lemma ins_sorted a l : ~ In (fst a) (keys l) -> Sorted key_lt l -> Sorted key_lt (ins_member a l).
  Proof.
    intros Hn Hs. induction l as [|c r IH]; cbn [ins_member]; [constructor; constructor|].
    destruct (str_ltb (fst a) (fst c)) eqn:Eac.
    - constructor; [exact Hs | constructor; exact Eac].
    - inversion Hs as [|x xs Hs' Hhd]; subst.
      assert (key_lt c a) as Hca.
      { unfold key_lt. destruct (str_ltb (fst c) (fst a)) eqn:Eca; [reflexivity|].
        exfalso. apply Hn. left. apply two_false_eq; assumption. }
      constructor.
      + apply IH; [intros Hin; apply Hn; right; exact Hin | exact Hs'].
      + apply ins_hdrel; assumption.
  Qed.

  (* the members are written in strictly ascending key order *)
  Theorem sort_members_sorted l : NoDup (keys l) -> Sorted key_lt (sort_members l).
  Proof.
    induction l as [|a l IH]; intros Hnd; [constructor|].
    cbn [keys map] in Hnd. inversion Hnd as [|k ks Hk Hks]; subst.
    cbn [sort_members fold_right]. apply ins_sorted; [|apply IH; exact Hks].
    intros Hin. apply Hk. unfold keys in Hin.
    eapply Permutation_in; [apply Permutation_map; apply Permutation_sym; apply sort_members_is_perm | exact Hin].
  Qed.
End P.

(* ---------- rows ---------- *)
Lemma keys_map_snd (A B : Type) (f : A -> B) (l : list (str * A)) :
  keys B (map (fun kv => (fst kv, f (snd kv))) l) = keys A l.
Proof. unfold keys. rewrite map_map. apply map_ext. intros [k v]. reflexivity. Qed.

(* two rows with the same members in different orders give the same tree, hence the same text *)
Theorem jsort_row_perm l l' : NoDup (keys json l) -> Permutation l l' -> jsort (JObj l) = jsort (JObj l').
Proof.
  intros Hnd Hp. cbn [jsort]. f_equal. apply sort_members_perm.
  - rewrite keys_map_snd. exact Hnd.
  - apply Permutation_map. exact Hp.
Qed.

Theorem sorted_text_row_perm l l' :
  NoDup (keys json l) -> Permutation l l' -> sorted_text (JObj l) = sorted_text (JObj l').
Proof. intros Hnd Hp. unfold sorted_text. rewrite (jsort_row_perm l l' Hnd Hp). reflexivity. Qed.

(* the same at every depth: trees that differ only in the order of members inside their objects *)
Inductive jperm : json -> json -> Prop :=
| JP_refl j : jperm j j
| JP_arr l l' : Forall2 jperm l l' -> jperm (JArr l) (JArr l')
| JP_obj l l' m : Forall2 (fun a b => fst a = fst b /\ jperm (snd a) (snd b)) l m -> Permutation m l' ->
    NoDup (keys json l) -> jperm (JObj l) (JObj l').

Lemma jsort_jperm_members (l m : list (str * json)) :
  Forall2 (fun a b => fst a = fst b /\ jsort (snd a) = jsort (snd b)) l m ->
  map (fun kv => (fst kv, jsort (snd kv))) l = map (fun kv => (fst kv, jsort (snd kv))) m.
Proof.
  induction 1 as [|a b l m [Hk Hv] _ IH]; [reflexivity|].
  cbn [map]. rewrite Hk, Hv, IH. reflexivity.
Qed.

Theorem jsort_jperm : forall j j', jperm j j' -> jsort j = jsort j'.
Proof.
  fix IH 3. intros j j' H. destruct H as [j|l l' Hf|l l' m Hf Hp Hnd].
  - reflexivity.
  - cbn [jsort]. f_equal. induction Hf as [|a b l l' Hab _ IHf]; [reflexivity|].
    cbn [map]. rewrite (IH _ _ Hab), IHf. reflexivity.
  - cbn [jsort]. f_equal.
    assert (Forall2 (fun a b => fst a = fst b /\ jsort (snd a) = jsort (snd b)) l m) as Hf'.
    { clear Hp. induction Hf as [|a b l m [Hk Hv] _ IHf]; constructor.
      - split; [exact Hk | apply IH; exact Hv].
      - apply IHf. unfold keys in *. cbn [map] in Hnd. inversion Hnd as [|k ks Hk1 Hk2]. exact Hk2. }
    rewrite (jsort_jperm_members l m Hf').
    apply sort_members_perm; [|apply Permutation_map; exact Hp].
    rewrite <- (jsort_jperm_members l m Hf'). rewrite keys_map_snd. exact Hnd.
Qed.

Theorem sorted_text_jperm j j' : jperm j j' -> sorted_text j = sorted_text j'.
Proof. intros H. unfold sorted_text. rewrite (jsort_jperm j j' H). reflexivity. Qed.

(* ---------- writing what was read back: the sorting is idempotent ---------- *)
Lemma map_ins (A B : Type) (g : str * A -> str * B) (a : str * A) (l : list (str * A)) :
  (forall x, fst (g x) = fst x) -> map g (ins_member a l) = ins_member (g a) (map g l).
Proof.
  intros Hg. induction l as [|c r IH]; [reflexivity|].
  cbn [ins_member map]. rewrite !Hg. destruct (str_ltb (fst a) (fst c)); cbn [map]; [reflexivity|].
  rewrite IH. reflexivity.
Qed.

Lemma map_sort_members (A B : Type) (g : str * A -> str * B) (l : list (str * A)) :
  (forall x, fst (g x) = fst x) -> map g (sort_members l) = sort_members (map g l).
Proof.
  intros Hg. induction l as [|a l IH]; [reflexivity|].
  cbn [sort_members fold_right map]. rewrite map_ins by exact Hg. unfold sort_members in IH. rewrite IH. reflexivity.
Qed.

Lemma sort_members_of_sorted (A : Type) (l : list (str * A)) : Sorted (key_lt A) l -> sort_members l = l.
Proof.
  induction l as [|a l IH]; intros Hs; [reflexivity|].
  inversion Hs as [|x xs Hs' Hhd]; subst.
  cbn [sort_members fold_right]. unfold sort_members in IH. rewrite (IH Hs').
  destruct l as [|c r]; [reflexivity|].
  cbn [ins_member]. inversion Hhd as [|y ys Hac]; subst. unfold key_lt in Hac. rewrite Hac. reflexivity.
Qed.

Theorem sort_members_idem (A : Type) (l : list (str * A)) :
  NoDup (keys A l) -> sort_members (sort_members l) = sort_members l.
Proof. intros Hnd. apply sort_members_of_sorted. apply sort_members_sorted. exact Hnd. Qed.

(* a tree as a Python value gives it: no object has two members with the same key *)
Fixpoint jnodup (j : json) : Prop :=
  match j with
  | JArr l => (fix go (l : list json) : Prop := match l with [] => True | x :: r => jnodup x /\ go r end) l
  | JObj l => NoDup (keys json l) /\
              (fix go (l : list (str * json)) : Prop := match l with [] => True | kx :: r => jnodup (snd kx) /\ go r end) l
  | _ => True
  end.

Theorem jsort_idem : forall j, jnodup j -> jsort (jsort j) = jsort j.
Proof.
  fix IH 1. intros j Hj. destruct j as [| b | z | m e | x | l | l]; try reflexivity.
  - cbn [jsort]. f_equal. rewrite map_map. cbn [jnodup] in Hj.
    induction l as [|a l IHl]; [reflexivity|]. destruct Hj as [Ha Hl].
    cbn [map]. rewrite (IH a Ha), (IHl Hl). reflexivity.
  - cbn [jsort]. f_equal. cbn [jnodup] in Hj. destruct Hj as [Hnd Hl].
    set (f := fun kv : str * json => (fst kv, jsort (snd kv))).
    rewrite (map_sort_members json json f (map f l)) by (intros [k v]; reflexivity).
    assert (map f (map f l) = map f l) as Hff.
    { clear Hnd. induction l as [|a l IHl]; [reflexivity|]. destruct Hl as [Ha Hl].
      cbn [map]. rewrite (IHl Hl). f_equal. unfold f. cbn [fst snd]. rewrite (IH (snd a) Ha). reflexivity. }
    rewrite Hff. apply sort_members_idem. unfold f. rewrite keys_map_snd. exact Hnd.
Qed.

(* a line that was read back and is written again (a second checkpoint behind the first) is the same line *)
Theorem sorted_text_idem j : jnodup j -> sorted_text (jsort j) = sorted_text j.
Proof. intros Hj. unfold sorted_text. rewrite (jsort_idem j Hj). reflexivity. Qed.

(* ---------- the JSON file format (format_json.py writes every row with sort_keys=True) ---------- *)
Theorem json_file_rows_jperm rows rows' :
  Forall2 jperm rows rows' -> json_file (map jsort rows) = json_file (map jsort rows').
Proof.
  intros H. f_equal. induction H as [|a b l l' Hab _ IH]; [reflexivity|].
  cbn [map]. rewrite (jsort_jperm a b Hab), IH. reflexivity.
Qed.
