(* A stream / checkpoint line: json.dumps of the extended-JSON encoding of a value, read back by
   json.loads and the decoding hook.  The text layer (IO/JsonText_proofs.v) and the tree layer
   (IO/EJson_proofs.v) compose: the line decodes to the value it was written from. *)
From Coq Require Import List ZArith Bool.
From DF Require Import Base.Str Base.Value Base.Value_proofs IO.EJson IO.EJson_proofs IO.JsonText IO.JsonText_proofs.
Import ListNotations.
Open Scope Z_scope.

Section LINE.
  Variable K : rkeys.
  Variable dec_str : Z -> Z -> str.            Variable dec_parse : str -> option (Z * Z).
  Variable time_str : Z -> Z -> Z -> str.      Variable time_parse : str -> option (Z * Z * Z).
  Variable dt_str : Z -> Z -> Z -> Z -> Z -> Z -> str.
  Variable dt_parse : str -> option (Z * Z * Z * Z * Z * Z).
  Variable date_str : Z -> Z -> Z -> str.      Variable date_parse : str -> option (Z * Z * Z).
  Variable dur_str : Z -> Z -> Z -> str.       Variable dur_parse : str -> option (Z * Z * Z).

  Hypothesis dec_rt : forall m e, dec_parse (dec_str m e) = Some (m, e).
  Hypothesis time_rt : forall h mi sc, time_parse (time_str h mi sc) = Some (h, mi, sc).
  Hypothesis dt_rt : forall y mo d h mi sc, dt_parse (dt_str y mo d h mi sc) = Some (y, mo, d, h, mi, sc).
  Hypothesis date_rt : forall y mo d, date_parse (date_str y mo d) = Some (y, mo, d).
  Hypothesis dur_rt : forall d sc us, dur_parse (dur_str d sc us) = Some (d, sc, us).
  Hypothesis K_distinct :
    str_nodup [k_dec K; k_time K; k_dt K; k_date K; k_dur K; k_set K] = true.

  Definition write_line (v : value) : str := jprint (encode K dec_str time_str dt_str date_str dur_str v) ++ [10].
  Definition read_line (l : str) : option value :=
    match jparse l with
    | Some j => Some (decode K dec_parse time_parse dt_parse date_parse dur_parse j)
    | None => None
    end.

  (* premise jok: the tree holds no binary float and its strings (field names, texts, the scalar
     codecs' outputs) are sequences of valid code points *)
  Theorem line_roundtrip v : ejson_ok K v = true ->
    jok (encode K dec_str time_str dt_str date_str dur_str v) -> read_line (write_line v) = Some v.
  Proof.
    intros OK J. unfold read_line, write_line. rewrite (jparse_jprint_line _ J). f_equal.
    apply (ejson_roundtrip K dec_str dec_parse time_str time_parse dt_str dt_parse date_str date_parse dur_str dur_parse
             dec_rt time_rt dt_rt date_rt dur_rt K_distinct v OK).
  Qed.
  (* the premise jok, discharged from the value: no binary float inside, every string and key a sequence of valid
     code points, and the scalar codecs and reserved key names printable *)
  Fixpoint text_ok (v : value) : Prop :=
    match v with
    | VFlt _ _ => False
    | VStr x => Forall char_ok x
    | VDT _ _ _ _ _ _ _ (Some (_, Some n)) => Forall char_ok n
    | VList l => (fix all (l : list value) : Prop := match l with [] => True | x :: r => text_ok x /\ all r end) l
    | VObj l => (fix all (l : list (str * value)) : Prop :=
                   match l with [] => True | kv :: r => Forall char_ok (fst kv) /\ text_ok (snd kv) /\ all r end) l
    | _ => True
    end.

  Hypothesis K_ok : Forall char_ok (k_dec K) /\ Forall char_ok (k_time K) /\ Forall char_ok (k_dt K) /\
                    Forall char_ok (k_date K) /\ Forall char_ok (k_dur K).
  Hypothesis dec_ok : forall m e, Forall char_ok (dec_str m e).
  Hypothesis time_ok : forall h mi sc, Forall char_ok (time_str h mi sc).
  Hypothesis dt_ok : forall y mo d h mi sc, Forall char_ok (dt_str y mo d h mi sc).
  Hypothesis date_ok : forall y mo d, Forall char_ok (date_str y mo d).
  Hypothesis dur_ok : forall d sc us, Forall char_ok (dur_str d sc us).

  Lemma encode_jok : forall v, text_ok v -> jok (encode K dec_str time_str dt_str date_str dur_str v).
  Proof.
    destruct K_ok as (K1 & K2 & K3 & K4 & K5).
    induction v as [|b|z|m e|m e|x|y m d|h mi sc us|y mo d h mi sc us tz|d sc us|l IH|l IH] using value_ind2;
      intros T; cbn [encode text_ok] in *; try exact I; try exact T.
    - cbn [jok]. repeat split; auto.
    - cbn [jok]. repeat split; auto.
    - cbn [jok]. repeat split; auto.
    - cbn [jok]. destruct tz as [[ofs [n|]]|]; cbn [jok]; repeat split; auto.
    - cbn [jok]. repeat split; auto.
    - apply jok_arr. induction l as [|x r IHr]; [exact I|]. inversion IH as [|? ? Hx Hr]; subst.
      destruct T as [Tx Tr]. cbn [map iok]. split; [apply Hx; exact Tx|apply IHr; assumption].
    - apply jok_obj. induction l as [|[k x] r IHr]; [exact I|]. inversion IH as [|? ? Hx Hr]; subst.
      destruct T as (Tk & Tx & Tr). cbn [map mok fst snd] in *. split; [exact Tk|]. split; [apply Hx; exact Tx|apply IHr; assumption].
  Qed.

  Theorem line_roundtrip_values v : ejson_ok K v = true -> text_ok v -> read_line (write_line v) = Some v.
  Proof. intros OK T. apply line_roundtrip; [exact OK|apply encode_jok; exact T]. Qed.
End LINE.
